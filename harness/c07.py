"""C07 - Real-toolchain builds are incremental and survive header changes."""
import io
import json
import os
import random
import re
import shutil
import stat
import subprocess

from . import common
from .common import d_str, d_bool, d_opt, d_list

LEVEL = 'proof'
RULE = ('W: depfile texts = (a) gcc_depfile-model output for 0..6 dependency names drawn per character from weighted classes '
        '(plain, blank, hash, dollar, colon, percent/equals, backslash, other Make-special, quote, non-ASCII) with random wrap '
        'decisions, single and concatenated rules, (b) mutations of those, (c) random strings over a small alphabet, '
        '(d) exhaustive sweep over {a : space tab backslash newline #} up to length 5 (quick) / 6 (thorough), (e) corpus; '
        'non-trivial = contains an escape, a wrap or an error branch; distinct by exact text.  R: real gcc/clang -MMD on '
        'generated header names; real make -pn on model-accepted depfiles; real make on generated rule graphs with stamp '
        'recipes (build; build; touch; build; delete leaf; build).  System: generated C projects configured by the real '
        'bfg9000 (Make backend), built by real make with a logging compiler wrapper (CC and CXX) over random edit histories; a '
        'quarter of the projects mix C and C++ sources in one program (two compile rules), half use a precompiled header; the '
        'first edits modify a header that only the object of a source in an oddly named directory (blank, #) includes and delete a '
        'header that only the objects of ONE compile rule include (C / C++ / ordinary objects next to a pch), '
        'the last edit of every history removes every #include of a project header and deletes all of them at once.')
TRUSTED = ('R model gcc_depfile (Misc/Depfix.v) validated against gcc 12 and clang 14 on this run',
           'R model mk_read (Misc/Depfix.v) validated against GNU Make 4.3 --print-data-base on this run',
           'R model MakeSem.build validated against GNU Make 4.3 on generated rule graphs on this run',
           'the include-graph predictor of the system-level stage (Python, harness/c07.py) - the oracle the theorem C07_inv takes as a Section variable')
EXPLANATION = ('partial: what the preprocessor includes is an oracle (Section variable) in the history theorems; Ninja deps=gcc is not '
               'covered (no ninja binary); mtimes are distinct by construction (strictly increasing clock in the model, os.utime in the harness).')

HERE = os.path.dirname(os.path.abspath(__file__))
TOKNAMES = ['char', 'colon', 'space', 'newline']

# ----------------------------------------------------------------------------- generators
CLASSES = [
    ('plain', list('abcxyz019_./-'), 40), ('blank', [' ', '\t'], 10), ('hash', ['#'], 6), ('dollar', ['$'], 6),
    ('colon', [':'], 3), ('pcteq', ['%', '='], 3), ('bslash', ['\\'], 4), ('makesp', list(";|*?[]()~"), 4),
    ('quote', list("',\"&@+"), 6), ('uni', ['é', '日', '€'], 3),
]
OK_CLASSES = [c for c in CLASSES if c[0] in ('plain', 'blank', 'hash', 'dollar', 'quote', 'uni')] + [('tilde', ['~', ']'], 2)]


def gen_name(rng, rep=None, classes=CLASSES, maxlen=8):
    n = rng.choice([1, 1, 2, 2, 3, 3, 4, 5, 6, maxlen])
    k = rng.randint(1, len(classes))
    chosen = rng.sample(range(len(classes)), k)
    w = [classes[j][2] for j in chosen]
    out = []
    for _ in range(n):
        i = rng.choices(chosen, w)[0]
        if rep is not None:
            rep.count('char:' + classes[i][0])
        out.append(rng.choice(classes[i][1]))
    nm = ''.join(out)
    # GNU Make drops a leading ./ from every name, on both sides of a rule (harmless, but the reader model and the
    # literal comparisons keep names as written): do not generate such names
    while nm.startswith('./'):
        nm = nm[2:] or 'a'
    return nm


def gen_wdeps(rng, rep, classes, maxn=6):
    n = rng.choice([0, 1, 1, 2, 2, 3, 4, maxn])
    names = []
    while len(names) < n:
        d = gen_name(rng, rep, classes)
        if d not in names:
            names.append(d)
    return [[rng.choice([0, 0, 0, 1, 2]), d] for d in names]


def _unused_name_ok_py(s):
    """Python twin of Depfix.name_ok (only used to label cases; the model's verdict is what counts)."""
    return bool(s) and s[0] != '~' and not any(c in '#%=;|*?[()\\:\n' for c in s.replace('\\#', ''))


# ----------------------------------------------------------------------------- implementation side
def impl_tokenize(s):
    from bfg9000 import depfixer
    return [[t.value - 1] + ([ord(c) for c in v] if v is not None else []) for t, v in depfixer.tokenize(s)]


def impl_emit(s):
    from bfg9000 import depfixer
    out = io.StringIO()
    try:
        depfixer.emit_deps(io.StringIO(s, newline='\n'), out)
        err = None
    except depfixer.UnexpectedTokenError as e:
        m = re.search(r"Token\.(\w+)", str(e))
        err = ['unexpected', m.group(1) if m else str(e)]
    except depfixer.ParseError:
        err = 'eof'
    except Exception as e:      # anything else is a different behaviour and must show up
        err = ['other', type(e).__name__]
    return [out.getvalue(), err]


def dec(name, r):
    if name == 'depfix.tokenize':
        return r
    if name == 'depfix.emit_deps':
        e = r[1]
        if e == []:
            err = None
        elif e[0] == 1:
            err = 'eof'
        else:
            err = ['unexpected', TOKNAMES[e[1][0]]]
        return [d_str(r[0]), err]
    if name in ('depfix.munge', 'depfix.gcc_depfile'):
        return d_str(r)
    if name == 'depfix.name_ok':
        return d_bool(r)
    if name == 'depfix.mk_read':
        return d_opt(lambda rules: [[d_list(d_str, x[0]), d_list(d_str, x[1])] for x in rules], r)
    raise KeyError(name)


CORPUS_TEXT = [
    '', 'a', 'a:', 'a: ', 'a:\n', 'a: b\n', 'a: b', 'a: b c\n', 'a: b \\\n c\n', 'a:b\n', 'a::\n', 'a:: b\n', 'a: b:\n',
    'a: b: c\n', 'a: b\\ c\n', 'a: b\\\\ c\n', 'a: b\\', 'a: b\\\n', 'a: b\\\nc\n', '\n', ' \n', 'a\n', 'a b\n', 'a b: c\n',
    'a b', 'a ', 'a : b\n', 'a:\tb\n', 'a: b\tc\n', 'a: b\n\n', 'a: b\nc: d\n', 'a: b\n c: d\n', 'a: b:c\n', 'a: :b\n',
    'a: b\\:c\n', 'a: \\\n', 'a: $$b\n', 'a: b\\#c\n', 'a:\\\n b\n', ':', ': a\n', ':a\n', '::', 'a:\\', '\\', '\\\n', '\\:',
    'a\\: b\n', 'a: b :\n', 'a: b : c\n',
]


def load_corpus(rep, key='texts'):
    d = os.path.join(common.VERIF, 'corpus', 'C07')
    out = []
    if os.path.isdir(d):
        for fn in sorted(os.listdir(d)):
            if fn.endswith('.json'):
                out.extend(json.load(open(os.path.join(d, fn))).get(key, []))
    return out


def mutate(rng, s):
    chars = list(s) or ['a']
    for _ in range(rng.randint(1, 3)):
        i = rng.randrange(len(chars))
        op = rng.random()
        if op < 0.4:
            chars[i] = rng.choice(': \\\n\ta#$')
        elif op < 0.7:
            chars.insert(i, rng.choice(': \\\n\ta#$'))
        else:
            del chars[i]
            if not chars:
                chars = [':']
    return ''.join(chars)


def stage_w_depfix(rep, rng, n, sweep_len):
    """depfixer.tokenize / emit_deps against the model, on valid and malformed depfile text."""
    # 1. texts from the writer model (valid stream)
    gcalls = []
    for i in range(n):
        classes = OK_CLASSES if i % 3 else CLASSES
        k = rng.choice([1, 1, 1, 2, 3])
        gcalls.append([(gen_name(rng, rep, classes), gen_wdeps(rng, rep, classes)) for _ in range(k)])
    flat = [('depfix.gcc_depfile', [t, wd]) for rules in gcalls for t, wd in rules]
    raw = common.model_batch(flat)
    texts, it = [], iter(raw)
    for rules in gcalls:
        texts.append(''.join(d_str(next(it)) for _ in rules))
    valid = list(texts)
    # 2. malformed stream
    alpha = 'a: \\\n#$\tb'
    texts += [mutate(rng, t) for t in valid[: n // 2]]
    texts += [''.join(rng.choice(alpha) for _ in range(rng.randint(0, 12))) for _ in range(n // 2)]
    from .gen import all_strings
    texts += all_strings(['a', ':', ' ', '\t', '\\', '\n', '#'], sweep_len)
    longs = [d_str(r) for r in common.model_batch([('depfix.gcc_depfile', [t, wd]) for t, wd in long_depfile_cases(rng, 100)[::9]])]
    texts = CORPUS_TEXT + load_corpus(rep) + texts + longs      # long texts last: the vm_compute sample takes the first 200 calls
    calls, impl = [], []
    for t in texts:
        r = impl_emit(t)
        kind = 'ok' if r[1] is None else (r[1] if isinstance(r[1], str) else ':'.join(r[1]))
        rep.count('emit:' + kind)
        rep.case('e:' + t, ('\\' in t) or r[1] is not None or t.count(':') > 1)
        calls.append(('depfix.tokenize', [t])); impl.append(impl_tokenize(t))
        calls.append(('depfix.emit_deps', [t])); impl.append(r)
    for c, r in list(zip(calls, impl))[1:200:40]:
        rep.sample({'stage': 'W:depfix', 'call': c[0], 'arg': c[1], 'impl': r})
    dis = common.compare_model(rep, 'W:depfix', calls, impl, dec)
    return dis, valid


# ----------------------------------------------------------------------------- R: gcc / clang depfile writer
HDR_CLASSES = [
    ('plain', list('abcxyz019_.-'), 40), ('space', [' '], 12), ('hash', ['#'], 8), ('dollar', ['$'], 8),
    ('colon', [':'], 4), ('pct', ['%'], 4), ('paren', ['(', ')'], 6), ('comma', [','], 4), ('squote', ["'"], 4),
    ('tilde', ['~'], 4), ('other', list('=;|*?[]&@+!<>`{}^'), 8), ('uni', ['é', '日', '€'], 3),
    ('bslash', ['\\'], 4), ('tab', ['\t'], 2),
]


def infer_wdeps(text, mtgt, mdeps):
    """Recover the wrap decisions from a real depfile, given the model's escaping of each name."""
    if not text.startswith(mtgt + ':'):
        return None
    pos = len(mtgt) + 1
    out = []
    for md in mdeps:
        m = re.match(r' \\\n( +)| ', text[pos:])
        if not m:
            return None
        out.append(len(m.group(1)) if m.group(1) else 0)
        pos += m.end()
        if not text.startswith(md, pos):
            return None
        pos += len(md)
    return out if text[pos:] == '\n' else None


def stage_r_cc(rep, rng, nbatch):
    """gcc -MMD / clang -MMD on headers with special names: depfile text == gcc_depfile model."""
    d = common.scratch('c07cc')
    bad = []
    try:
        jobs = []
        for b in range(nbatch):
            for cc in ('gcc', 'clang'):
                if not shutil.which(cc):
                    rep.count('cc-missing:' + cc)
                    continue
                classes = [c for c in HDR_CLASSES if cc == 'gcc' or c[0] not in ('bslash', 'tab')]
                names = []
                while len(names) < rng.randint(1, 7):
                    nm = gen_name(rng, rep, classes, maxlen=10) + rng.choice(['.h', '.h', '', '.hpp'])
                    # a name ending in a backslash cannot be written inside an include directive
                    if nm not in names and nm not in ('.', '..') and not nm.endswith('\\') and nm != 'm.c':
                        names.append(nm)
                out = gen_name(rng, rep, [c for c in classes if c[0] not in ('colon',)], maxlen=6) + '.o'
                sub = os.path.join(d, '%s%d' % (cc, b))
                os.makedirs(sub)
                for nm in names:
                    with open(os.path.join(sub, nm), 'w') as f:
                        f.write('\n')
                with open(os.path.join(sub, 'm.c'), 'w') as f:
                    f.write(''.join('#include "%s"\n' % nm for nm in names) + 'int x;\n')
                p = subprocess.run([cc, '-c', 'm.c', '-o', out, '-MMD', '-MF', 'm.d'], cwd=sub, capture_output=True,
                                   text=True, timeout=60)
                if p.returncode != 0 or not os.path.exists(os.path.join(sub, 'm.d')):
                    rep.count('cc-rejected:' + cc)      # the compiler itself refuses the name: nothing to compare
                    continue
                with open(os.path.join(sub, 'm.d'), newline='') as f:
                    jobs.append((cc, out, ['m.c'] + names, f.read()))
                shutil.rmtree(sub, ignore_errors=True)
        mcalls = [('depfix.munge', [n]) for _, out, deps, _ in jobs for n in [out] + deps]
        mres = iter(common.model_batch(mcalls))
        calls, want = [], []
        for cc, out, deps, text in jobs:
            mt = d_str(next(mres))
            md = [d_str(next(mres)) for _ in deps]
            w = infer_wdeps(text, mt, md)
            rep.case('cc:%s:%s' % (cc, text), any(c in text for c in '\\$'))
            rep.count('R:cc:' + cc)
            if w is None:
                bad.append((cc, out, deps, text, 'escaping differs: model %r' % ([mt] + md,)))
                continue
            if any(w):
                rep.count('R:cc:wrapped')
            calls.append(('depfix.gcc_depfile', [out, [[wi, di] for wi, di in zip(w, deps)]]))
            want.append(text)
        for (cc, out, deps, text) in jobs[:2]:
            rep.sample({'stage': 'R:gcc_depfile', 'cc': cc, 'depfile': text})
        dis = common.compare_model(rep, 'R:gcc_depfile', calls, want, dec, vm_limit=20)
        for i, call, iv, mv in dis:
            bad.append(('?', call[1][0], call[1][1], iv, 'model text %r' % mv))
        rep.stage('R:gcc_depfile', compiled=len(jobs), mismatches=len(bad))
    finally:
        shutil.rmtree(d, ignore_errors=True)
    if bad:
        rep.fail('R:gcc_depfile - the depfile writer model disagrees with the real compiler (%d cases), e.g. %r' % (len(bad), bad[0]),
                 {'obligation': 'R:gcc_depfile', 'cases': bad[:5]}, found_input=False)
    return bad


# ----------------------------------------------------------------------------- R: Make reading rule headers
def make_db_rules(text, d):
    """How real make read the file: {target line} from --print-data-base, or None if make reports an error."""
    with open(os.path.join(d, 'x.d'), 'w', newline='') as f:
        f.write(text)
    with open(os.path.join(d, 'wrap.mk'), 'w') as f:      # own default goal: a depfile target may start with a dot
        f.write('c07-goal:\ninclude x.d\n')
    p = subprocess.run(['make', '-pnrRq', '-f', 'wrap.mk'], cwd=d, capture_output=True, text=True, timeout=60,
                       env=common.impl_env())
    if re.search(r'\*\*\* (?!No rule to make target)', p.stderr) or 'x.d:' in p.stderr:
        return None
    out = p.stdout
    i = out.find('# Files')
    j = out.find('# files hash-table stats')
    if i < 0 or j < 0:
        return None
    rules = []
    for block in out[i:j].split('\n\n'):
        lines = [ln for ln in block.split('\n') if ln]
        if lines and lines[0] == '# Files':
            lines = lines[1:]
        if not lines or lines[0] == '# Not a target:':
            continue
        if lines[0] != 'c07-goal:':
            rules.append(lines[0])  # a target whose name starts with a hash is printed raw, too
    return sorted(rules)


def stage_r_mkread(rep, rng, valid, n):
    """mk_read (R model) against real make: on texts the model accepts, make must see the same rules."""
    texts = []
    for t in valid[:n]:
        r = impl_emit(t)
        texts.append(t + r[0])
    texts += [mutate(rng, t) for t in texts[: n // 2]]
    texts += ['a: b\\ c d\\#e f$$g\nb\\ c:\nd\\#e:\nf$$g:\n', "a: b'c d,e ~f g~h\nb'c:\nd,e:\n", 'a b: c\n', 'a: b \\\n c\\\n d\n',
              'a\\ b: c\n', 'a: b\\c\n', 'a: b@c d+e f&g\n', 'a:\n', 'a: b\n\n\nc: d\n']
    texts = load_corpus(rep, 'mk_texts') + texts
    raw = common.model_batch([('depfix.mk_read', [t]) for t in texts])
    d = common.scratch('c07mk')
    bad = []
    ncmp = 0
    try:
        for t, r in zip(texts, raw):
            m = dec('depfix.mk_read', r)
            if m is None:
                rep.count('R:mk_read:model-refuses')
                continue
            tg = [x for r_ in m for x in r_[0]]
            if len(set(tg)) != len(tg) or any('\n' in x for x in tg):
                rep.count('R:mk_read:dup-target-skipped')   # make merges rules of one target; not modelled
                continue
            if any(x.startswith('./') for r_ in m for x in r_[0] + r_[1]):
                rep.count('R:mk_read:dot-slash-skipped')    # make normalises a leading ./ away; not modelled
                continue
            want = sorted(x + ':' + ''.join(' ' + p for p in pr) for tgs, pr in m for x in tgs)
            got = make_db_rules(t, d)
            ncmp += 1
            rep.case('mk:' + t, '\\' in t or '$' in t)
            if got != want:
                bad.append({'text': t, 'model': want, 'make': got})
        rep.stage('R:mk_read', compared=ncmp, mismatches=len(bad))
    finally:
        shutil.rmtree(d, ignore_errors=True)
    if bad:
        rep.fail('R:mk_read - the Make reader model disagrees with GNU Make (%d cases), e.g. %r' % (len(bad), bad[0]),
                 {'obligation': 'R:mk_read', 'cases': bad[:5]}, found_input=False)
    return bad


# ----------------------------------------------------------------------------- R: MakeSem.build vs real make
STAMP_SH = '''#!/bin/sh
# stamp.sh [-p] target : log the target, give it the next clock value as mtime (not for phony), advance the clock
n=$(cat ctr)
if [ "$1" = "-p" ]; then echo "$2" >> log; else echo "$1" >> log; touch -d "@$n" "$1"; fi
echo $((n+1)) > ctr
'''


def gen_graph(rng, rep):
    """Random rule graph in topological order. Returns (rules, leaves_without_rule, nfiles)."""
    nleaf = rng.randint(1, 5)
    nder = rng.randint(1, 7)
    rules = []
    files = list(range(nleaf))
    norule = []
    for f in range(nleaf):
        k = rng.random()
        if k < 0.45:
            rules.append([f, [], [], False, False])     # the empty rule the depfixer writes:  f:
        else:
            norule.append(f)                            # a plain source file
    for i in range(nder):
        t = nleaf + i
        prs = rng.sample(files, rng.randint(0, min(3, len(files))))
        rest = [x for x in files if x not in prs]
        oo = rng.sample(rest, rng.randint(0, min(1, len(rest)))) if rng.random() < 0.25 else []
        k = rng.random()
        recipe, phony = True, False
        if k < 0.12:
            recipe = False
            rep.count('ms:recipe-less-derived')
        elif k < 0.2:
            phony = True
            rep.count('ms:phony')
        rules.append([t, prs, oo, recipe, phony])
        files.append(t)
    return rules, norule, len(files)


def run_real_make(d, rules, fs0, clk, ops):
    sub = os.path.join(d, 'g')
    shutil.rmtree(sub, ignore_errors=True)
    os.makedirs(sub)
    with open(os.path.join(sub, 'stamp.sh'), 'w') as f:
        f.write(STAMP_SH)
    mk = ['.PHONY: all' + ''.join(' f%d' % r[0] for r in rules if r[4]), 'all:' + ''.join(' f%d' % r[0] for r in rules)]
    for t, prs, oo, recipe, phony in rules:
        mk.append('f%d:%s%s' % (t, ''.join(' f%d' % p for p in prs), (' |' + ''.join(' f%d' % p for p in oo)) if oo else ''))
        if recipe:
            mk.append('\t@sh stamp.sh %s$@' % ('-p ' if phony else ''))
    with open(os.path.join(sub, 'Makefile'), 'w') as f:
        f.write('\n'.join(mk) + '\n')
    for x, t in fs0:
        p = os.path.join(sub, 'f%d' % x)
        open(p, 'w').close()
        os.utime(p, (t, t))
    with open(os.path.join(sub, 'ctr'), 'w') as f:
        f.write('%d\n' % clk)
    res = []
    for op in ops:
        if op[0] == 0:
            open(os.path.join(sub, 'log'), 'w').close()
            p = subprocess.run(['make', '-rR'], cwd=sub, capture_output=True, text=True, timeout=60, env=common.impl_env())
            log = [int(x[1:]) for x in open(os.path.join(sub, 'log')).read().split()]
            m = re.search(r"No rule to make target 'f(\d+)'", p.stderr)
            fail = int(m.group(1)) if m else None
            if p.returncode != 0 and fail is None:
                fail = 'make-error:' + p.stderr[-200:]
            res.append([log, fail])
        elif op[0] == 1:
            n = int(open(os.path.join(sub, 'ctr')).read())
            p = os.path.join(sub, 'f%d' % op[1])
            open(p, 'a').close()
            os.utime(p, (n, n))
            with open(os.path.join(sub, 'ctr'), 'w') as f:
                f.write('%d\n' % (n + 1))
        else:
            try:
                os.remove(os.path.join(sub, 'f%d' % op[1]))
            except FileNotFoundError:
                pass
    return res


def stage_r_makesem(rep, rng, n):
    d = common.scratch('c07ms')
    bad = []
    try:
        calls, real = [], []
        for _ in range(n):
            rules, norule, nf = gen_graph(rng, rep)
            fs0 = []
            t = 100
            for x in range(nf):
                r = [r_ for r_ in rules if r_[0] == x]
                exists = True
                if r and r[0][4]:
                    exists = False                      # phony targets are not files
                elif r and r[0][3]:
                    exists = rng.random() < 0.4         # a product may pre-exist, fresh or stale
                elif r:
                    exists = rng.random() < 0.85        # a leaf with an empty rule may be missing
                else:
                    exists = rng.random() < 0.93        # a plain source may be missing -> make must fail
                if exists:
                    fs0.append([x, 100 + rng.randrange(50) * 2])
            ops = [[0], [0]]
            for _ in range(rng.randint(1, 4)):
                k = rng.random()
                x = rng.randrange(nf)
                if k < 0.6:
                    ops.append([1, x])
                    rep.count('ms:touch')
                else:
                    ops.append([2, x])
                    rep.count('ms:delete')
                ops.append([0])
                if rng.random() < 0.3:
                    ops.append([0])
            calls.append(('makesem.session', [rules, fs0, 1000, ops]))
            real.append(run_real_make(d, rules, fs0, 1000, ops))
            rep.case('ms:%r' % ([rules, fs0, ops],), True)
        rep.sample({'stage': 'R:makesem', 'rules [target, prereqs, order-only, recipe, phony]': calls[0][1][0],
                    'fs': calls[0][1][1], 'ops': calls[0][1][3], 'make': real[0]})

        # the generated graphs satisfy the well-formedness hypothesis of the MakeSem theorems
        for r in common.model_batch([('makesem.wfb', [c[1][0]]) for c in calls]):
            rep.count('ms:wfb-true' if d_bool(r) else 'ms:wfb-false')

        def decs(name, r):
            return [[x[0], (x[1][0] if x[1] else None)] for x in r]
        dis = common.compare_model(rep, 'R:makesem', calls, real, decs, vm_limit=10)
        for i, call, iv, mv in dis:
            bad.append({'rules': call[1][0], 'fs': call[1][1], 'ops': call[1][3], 'make': iv, 'model': mv})
        for r in real:
            for log, fail in r:
                rep.count('ms:build-failed' if fail is not None else ('ms:build-noop' if not log else 'ms:build-ran'))
    finally:
        shutil.rmtree(d, ignore_errors=True)
    if bad:
        rep.fail('R:makesem - MakeSem.build disagrees with GNU Make (%d cases), e.g. %r' % (len(bad), bad[0]),
                 {'obligation': 'R:makesem', 'cases': bad[:5]}, found_input=False)
    return bad


# ----------------------------------------------------------------------------- system level: the direct oracle
# header-name characters for which the whole loop (gcc depfile -> depfixer -> make) is expected to work
SAFE_SPECIAL = [' ', '#', '$', '(', ')', ',', "'", '~', '@', '+', 'é', '{', '!']
# characters with a known finding (see findings.d/C07.json): class string by character
RISKY = {'%': 'hdr-name-percent', '=': 'hdr-name-equals', '\t': 'hdr-name-tab',
         ':': 'hdr-name-colon', ';': 'hdr-name-semicolon', '|': 'hdr-name-bar'}


ODD_DIRS = ['d r', 'a#b', 'sub/de ep']


class Proj:
    """A generated C project: sources s<i>.c, headers with generated names, an include DAG.
    hdr[id] = {'name', 'v', 'inc': [ids]}   (a header includes only headers with a larger id -> acyclic)
    src[i]  = {'k', 'inc': [ids]}"""

    def __init__(self, rng, rep, special=True, nsrc=None, nhdr=None, pch=False, mixed=False, genhdr=False):
        self.rng, self.rep = rng, rep
        self.special = special
        self.mixed = mixed       # sources in C and in C++ (one program): two compile rules, two compilers
        # a header FILE that a step of the project generates (from <name>.in of the source tree, into a sub-directory of
        # the build directory) and that reaches the compile steps through includes= of executable(): {'v', 'dir', 'name'};
        # src[i]['gen'] says whether source i includes it. (A stream of its own: the other draws stay what they were.)
        self.gen = None
        self.grng = random.Random('genhdr:%r' % (rng.getstate()[1][:6],)) if genhdr else None
        self.hdr, self.src = {}, {}
        self.pch = None          # {'inc': [ids]}: a precompiled header pch.h, force-included into every source
        self.only = {}           # 'c' / 'cxx' / 'ord' -> id of a header that (at first) only sources of that kind include
        self.next_h = 0
        self.next_s = 0
        self.files = {}          # relative path -> content, as last written
        for _ in range(nhdr if nhdr is not None else rng.randint(3, 8)):
            self.add_header()
        for _ in range(nsrc if nsrc is not None else rng.randint(3 if mixed else 2, 5)):
            self.add_source()
        if special:
            # some source lives in a directory whose name needs escaping, and one header is known to its object alone (the
            # object's depfile, read back through its -include line, is the only place that names it)
            odd = [i for i in sorted(self.src) if self.src[i]['dir']]
            if not odd:
                odd = [max(self.src)]
                self.src[odd[0]]['dir'] = rng.choice(ODD_DIRS)
            self.only['dir'] = self.exclusive_header([rng.choice(odd)])
        if mixed:
            ss = sorted(self.src)
            self.src[rng.choice(ss[1:])]['lang'] = 'cxx'        # both languages occur (the first source may be either)
            if all(x['lang'] == 'cxx' for x in self.src.values()):
                self.src[ss[0]]['lang'] = 'c'
            # per language one header that only sources of that language include: whatever a compile rule has to do for
            # the headers of its objects cannot be done for it by the rule of the other language
            for lang in ('c', 'cxx'):
                self.only[lang] = self.exclusive_header([i for i in ss if self.src[i]['lang'] == lang])
        if pch:
            # one header reachable ONLY through the precompiled header, plus possibly shared ones
            only = self.add_header()
            for o in list(self.hdr.values()) + list(self.src.values()):
                o['inc'] = [c for c in o['inc'] if c != only]
            self.pch = {'inc': [only] + rng.sample([h for h in self.hdr if h != only], rng.randint(0, 1))}
            # and one that only an ordinary source includes (not the precompiled header)
            self.only['ord'] = self.exclusive_header([rng.choice(sorted(self.src))])
        if genhdr:
            g = self.grng
            self.gen = {'v': g.randint(1, 99), 'dir': g.choice(['hgen', 'hgen/deep', 'h gen', 'hg#n'] if special else ['hgen']),
                        'name': g.choice(['gv.h', 'g v.h', 'gv$x.h'] if special else ['gv.h'])}
            users = g.sample(sorted(self.src), g.randint(1, len(self.src)))
            for i in users:
                self.src[i]['gen'] = True

    def exclusive_header(self, srcs):
        """a new header that includes nothing and is included by exactly the given sources"""
        h = self.add_header()
        for o in self.includers():
            o['inc'] = [c for c in o['inc'] if c != h]
        self.hdr[h]['inc'] = []
        for i in srcs:
            self.src[i]['inc'].append(h)
        return h

    def sname(self, i):
        """relative path of source i: some sources live in a sub-directory whose name needs escaping in the Makefile (the
        object, its depfile and the -include line of the depfile inherit it)"""
        d = self.src[i].get('dir', '')
        return (d + '/' if d else '') + 's%d.%s' % (i, 'cpp' if self.src[i].get('lang') == 'cxx' else 'c')

    def includers(self):
        return list(self.hdr.values()) + list(self.src.values()) + ([self.pch] if self.pch else [])

    # -- names
    def fresh_name(self, force=None):
        rng = self.rng
        while True:
            base = ''.join(rng.choice('abcdxyz') for _ in range(rng.randint(1, 4)))
            if force is not None:
                base = base[:1] + force + base[1:]
            elif self.special and rng.random() < 0.6:
                for _ in range(rng.randint(1, 2)):
                    i = rng.randint(1, len(base))          # never leading (a leading ~ is Make's tilde expansion)
                    base = base[:i] + rng.choice(SAFE_SPECIAL) + base[i:]
            nm = base + rng.choice(['.h', '.h', '.hpp', ' .h'])
            if nm not in [h['name'] for h in self.hdr.values()]:
                if self.rep is not None:
                    for c in nm:
                        if not c.isalnum() and c != '.':
                            self.rep.count('sys:hdrchar:' + c)
                return nm

    def add_header(self, force=None):
        i = self.next_h
        self.next_h += 1
        self.hdr[i] = {'name': self.fresh_name(force), 'v': self.rng.randint(1, 99), 'inc': []}
        # earlier headers / sources may include it
        for j, h in self.hdr.items():
            if j < i and self.rng.random() < 0.35:
                h['inc'].append(i)
        return i

    def add_source(self):
        i = self.next_s
        self.next_s += 1
        hs = list(self.hdr)
        self.src[i] = {'k': self.rng.randint(1, 9), 'inc': self.rng.sample(hs, self.rng.randint(0, min(3, len(hs)))),
                       'dir': self.rng.choice(['', ''] + ODD_DIRS) if self.special else '',
                       'lang': self.rng.choice(['c', 'cxx']) if self.mixed else 'c'}
        return i

    # -- semantics (the include-scanner oracle)
    def hclosure(self, ids):
        seen, todo = [], list(ids)
        while todo:
            x = todo.pop()
            if x not in seen:
                seen.append(x)
                todo.extend(self.hdr[x]['inc'])
        return seen

    def pch_files(self):
        return ({'pch.h'} | {self.hdr[h]['name'] for h in self.hclosure(self.pch['inc'])}) if self.pch else set()

    def gen_input(self):
        return self.gen['name'] + '.in'

    def gen_output(self):
        return self.gen['dir'] + '/' + self.gen['name']

    def uses_gen(self, s):
        return bool(self.gen and self.src[s].get('gen'))

    def closure_files(self, s):
        return {self.sname(s)} | {self.hdr[h]['name'] for h in self.hclosure(self.src[s]['inc'])} | self.pch_files() | \
            ({self.gen_input()} if self.uses_gen(s) else set())

    def hval(self, h):
        return self.hdr[h]['v'] + sum(self.hval(c) for c in self.hdr[h]['inc'])

    def expected_output(self):
        return sum(s['k'] + sum(self.hval(h) for h in s['inc']) for s in self.src.values()) + \
            (sum(self.hval(h) for h in self.pch['inc']) if self.pch else 0) + \
            (self.gen['v'] * sum(1 for i in self.src if self.uses_gen(i)) if self.gen else 0)

    # -- text
    def render(self):
        out = {}
        for i, h in self.hdr.items():
            t = '#ifndef G%d\n#define G%d\n' % (i, i)
            t += ''.join('#include "%s"\n' % self.hdr[c]['name'] for c in h['inc'])
            t += '#define V%d (%d%s)\n#endif\n' % (i, h['v'], ''.join(' + V%d' % c for c in h['inc']))
            out[h['name']] = t
        first = min(self.src)
        for i, s in self.src.items():
            up = '../' * len([x for x in s.get('dir', '').split('/') if x])
            t = ''.join('#include "%s%s"\n' % (up, self.hdr[c]['name']) for c in s['inc'])
            if self.uses_gen(i):
                t += '#include "%s"\n' % self.gen['name']          # found through the include directory of the generated header
            cl = '#ifdef __cplusplus\nextern "C"\n#endif\n' if self.mixed else ''
            t += cl + 'int f%d(void) { return %d%s%s; }\n' % (i, s['k'], ''.join(' + V%d' % c for c in s['inc']),
                                                              ' + VGEN' if self.uses_gen(i) else '')
            if i == first:
                t += '#include <stdio.h>\n' + ''.join(cl + 'int f%d(void);\n' % j for j in self.src if j != i)
                t += 'int main(void) { printf("%%d\\n", 0%s%s); return 0; }\n' % (
                    ''.join(' + f%d()' % j for j in self.src), ' + VPCH' if self.pch else '')
            out[self.sname(i)] = t
        pre, kw = '', ''
        if self.gen:
            out[self.gen_input()] = '#define VGEN (%d)\n' % self.gen['v']
            pre += "ghdr = build_step(%r, cmd=['cp', source_file(%r), %r], type=header_file)\n" % (
                self.gen_output(), self.gen_input(), self.gen_output())
            kw += ', includes=[ghdr]'
        if self.pch:
            out['pch.h'] = ''.join('#include "%s"\n' % self.hdr[c]['name'] for c in self.pch['inc']) + \
                '#define VPCH (0%s)\n' % ''.join(' + V%d' % c for c in self.pch['inc'])
            pre += "pch = precompiled_header(file='pch.h')\n"
            kw += ', pch=pch'
        out['build.bfg'] = pre + "executable('prog', files=[%s]%s)\n" % (', '.join(repr(self.sname(i)) for i in sorted(self.src)), kw)
        return out

    # -- edits; each returns a description
    def delete_header(self, h):
        nm = self.hdr[h]['name']
        del self.hdr[h]
        for o in self.includers():
            o['inc'] = [c for c in o['inc'] if c != h]
        return ['del_hdr', nm]

    def strip_headers(self):
        """every #include of a project header is removed and every project header deleted, in one edit (the precompiled
        header itself stays, empty)"""
        n = len(self.hdr)
        for h in list(self.hdr):
            self.delete_header(h)
        return ['strip_hdrs', n]

    def edit(self):
        rng = self.rng
        kinds = ['mod_hdr', 'mod_hdr', 'mod_src', 'touch_hdr', 'add_hdr', 'del_hdr', 'ren_hdr', 'add_inc', 'del_inc',
                 'add_src', 'del_src', 'ren_src']
        if self.gen and self.grng.random() < 0.3:
            return self.edit_gen()
        for _ in range(20):
            k = rng.choice(kinds)
            hs, ss = list(self.hdr), list(self.src)
            if k == 'mod_hdr' and hs:
                h = rng.choice(hs)
                self.hdr[h]['v'] += rng.randint(1, 5)
                return [k, self.hdr[h]['name']]
            if k == 'mod_src':
                s = rng.choice(ss)
                self.src[s]['k'] += rng.randint(1, 5)
                return [k, self.sname(s)]
            if k == 'touch_hdr' and hs:
                h = rng.choice(hs)
                return [k, self.hdr[h]['name']]
            if k == 'add_hdr' and len(hs) < 10:
                h = self.add_header()
                if rng.random() < 0.7:
                    s = rng.choice(ss)
                    if h not in self.src[s]['inc']:
                        self.src[s]['inc'].append(h)
                return [k, self.hdr[h]['name']]
            if k == 'del_hdr' and len(hs) > 1:
                h = rng.choice(hs)
                nm = self.hdr[h]['name']
                del self.hdr[h]
                for o in self.includers():
                    o['inc'] = [c for c in o['inc'] if c != h]
                return [k, nm]
            if k == 'ren_hdr' and hs:
                h = rng.choice(hs)
                old = self.hdr[h]['name']
                self.hdr[h]['name'] = self.fresh_name()
                return [k, old, self.hdr[h]['name']]
            if k == 'add_inc' and hs:
                h = rng.choice(hs)
                cands = [o for j, o in self.hdr.items() if j < h and h not in o['inc']] + \
                        [o for o in self.src.values() if h not in o['inc']] + \
                        ([self.pch] if self.pch and h not in self.pch['inc'] else [])
                if cands:
                    rng.choice(cands)['inc'].append(h)
                    return [k, self.hdr[h]['name']]
            if k == 'del_inc':
                cands = [o for o in self.includers() if o['inc']]
                if cands:
                    o = rng.choice(cands)
                    o['inc'].remove(rng.choice(o['inc']))
                    return [k]
            if k == 'add_src' and len(ss) < 6:
                return [k, self.sname(self.add_source())]
            if k == 'del_src' and len(ss) > 1:
                s = rng.choice(ss)
                nm = self.sname(s)
                del self.src[s]
                return [k, nm]
            if k == 'ren_src' and ss:
                s = rng.choice(ss)
                n = self.next_s
                self.next_s += 1
                old = self.sname(s)
                self.src[n] = self.src.pop(s)
                return [k, old, self.sname(n)]
        return ['none']

    def edit_gen(self):
        """an edit that concerns the generated header: the input of its generator is modified or only touched, a source starts or
        stops including it"""
        g = self.grng
        k = g.choice(['mod_gen', 'mod_gen', 'touch_gen', 'toggle_gen'])
        if k == 'mod_gen':
            self.gen['v'] += g.randint(1, 5)
            return [k, self.gen_input()]
        if k == 'touch_gen':
            return ['touch_hdr', self.gen_input()]
        s = g.choice(sorted(self.src))
        self.src[s]['gen'] = not self.src[s].get('gen')
        return [k, self.sname(s)]


class Clock:
    """Strictly increasing file times that stay behind the file system's own clock."""

    def __init__(self, root):
        self.root = root
        self.last = 0

    def fs_now(self):
        p = os.path.join(self.root, '.clockprobe')
        with open(p, 'w'):
            pass
        os.utime(p)
        return os.stat(p).st_mtime_ns

    def newest(self, *dirs):
        m = self.last
        for d in dirs:
            for r, _, fs in os.walk(d):
                for f in fs:
                    try:
                        m = max(m, os.lstat(os.path.join(r, f)).st_mtime_ns)
                    except OSError:
                        pass
        return m

    def stamp(self, paths, *dirs):
        """Give `paths` distinct mtimes newer than everything under dirs, then wait (bounded) until the file
        system clock has passed them, so that whatever is built next is strictly newer."""
        import time
        t = self.newest(*dirs)
        for p in paths:
            t += 1000
            os.utime(p, ns=(t, t))
        self.last = t
        for _ in range(2000):
            if self.fs_now() > t:
                return
            time.sleep(0.001)
        raise RuntimeError('file system clock does not advance')


WRAPPER = '''#!/bin/sh
# logs every compiler invocation (arguments separated by the unit separator), then runs the real compiler
# (one write per invocation: parallel builds append whole lines)
l=$(for a in "$@"; do printf '%%s\\037' "$a"; done)
printf '%%s\\n' "$l" >> '%(log)s'
exec %(cc)s "$@"
'''


class SysRun:
    def __init__(self, root, cc):
        self.root = root
        self.src = os.path.join(root, 'src')
        self.bld = os.path.join(root, 'bld')
        self.log = os.path.join(root, 'cc.log')
        os.makedirs(self.src)
        self.wrapper = os.path.join(root, 'ccwrap')
        with open(self.wrapper, 'w') as f:
            f.write(WRAPPER % {'log': self.log, 'cc': shutil.which(cc)})
        os.chmod(self.wrapper, 0o755)
        self.env = common.impl_env()
        self.env['CC'] = self.wrapper
        # the C++ driver of the same family, logged into the same file
        cxx = shutil.which({'gcc': 'g++', 'clang': 'clang++'}.get(cc, 'c++'))
        if cxx:
            self.wrapper_cxx = os.path.join(root, 'cxxwrap')
            with open(self.wrapper_cxx, 'w') as f:
                f.write(WRAPPER % {'log': self.log, 'cc': cxx})
            os.chmod(self.wrapper_cxx, 0o755)
            self.env['CXX'] = self.wrapper_cxx
        self.clock = Clock(root)
        self.written = {}

    def sync(self, proj, extra_touch=()):
        """Write the project text; returns the set of relative names created/modified/deleted/touched."""
        new = proj.render()
        dirty, stamp = set(), []
        for nm in list(self.written):
            if nm not in new:
                os.remove(os.path.join(self.src, nm))
                del self.written[nm]
                dirty.add(nm)
        for nm, text in new.items():
            if self.written.get(nm) != text:
                os.makedirs(os.path.dirname(os.path.join(self.src, nm)), exist_ok=True)
                with open(os.path.join(self.src, nm), 'w') as f:
                    f.write(text)
                self.written[nm] = text
                dirty.add(nm)
                stamp.append(os.path.join(self.src, nm))
        for nm in extra_touch:
            if nm in new and os.path.join(self.src, nm) not in stamp:
                dirty.add(nm)
                stamp.append(os.path.join(self.src, nm))
        self.clock.stamp(stamp, self.src, self.bld if os.path.isdir(self.bld) else self.src)
        return dirty

    def configure(self):
        p = subprocess.run(['bfg9000', 'configure', self.bld, '--backend=make', '--no-resolve-packages'], cwd=self.src,
                           env=self.env, capture_output=True, text=True, timeout=300)
        return p

    def make(self, *args):
        open(self.log, 'w').close()
        p = subprocess.run(['make'] + list(args), cwd=self.bld, env=self.env, capture_output=True, text=True, timeout=600)
        compiled, other = set(), 0
        for line in open(self.log).read().split('\n'):
            a = line.split('\x1f')
            if '-MF' in a and '-c' in a:
                compiled.add(os.path.relpath(a[a.index('-c') + 1], self.src))
            elif line:
                other += 1
        return p, compiled, other

    def prog_output(self):
        p = subprocess.run([os.path.join(self.bld, 'prog')], capture_output=True, text=True, timeout=60)
        return p.stdout.strip() if p.returncode == 0 else 'exit %d' % p.returncode


def sys_classes(risky, nm, src, f):
    """Finding classes of one failure f of a fixed scenario (header `nm`, whose name contains the character `risky`, included
    by s0.c only; the history: build, touch the header, stop including it and delete it). A class applies only to the failure
    its finding describes - the step, the kind of failure and Make's message naming the header (or the depfile of the one
    object that includes it); any other failure of the same project is a violation of its own.
      % = tab   after the header was deleted make stops: No rule to make target '<header>', needed by 'prog.int/s0.o'
      :         the make right after the first build stops: prog.int/s0.o.d:N: *** multiple target patterns
      ;         likewise: prog.int/s0.o.d:N: *** missing separator
      |         likewise: No rule to make target '<piece of the header name next to the bar>', needed by 'prog.int/s0.o'"""
    import re
    cls = RISKY.get(risky)
    if cls is None or nm is None or risky not in nm:
        return ()
    step, what, detail = f.get('step', ''), f.get('what', ''), f.get('detail', '') or ''
    obj = 'prog.int/s0.o'
    if risky in '%=\t':
        ok = (step.startswith('edit 1 ') and what == 'make failed' and
              "No rule to make target '%s', needed by '%s'" % (os.path.join(src, nm), obj) in detail)
    else:
        second = step == 'initial' and what == 'second make is not a no-op' and f.get('rc') == 2 and not f.get('compiled')
        if risky == ':':
            ok = second and re.search(r'^%s\.d:\d+: \*\*\* multiple target patterns' % re.escape(obj), detail, re.M) is not None
        elif risky == ';':
            ok = second and re.search(r'^%s\.d:\d+: \*\*\* missing separator' % re.escape(obj), detail, re.M) is not None
        else:
            pieces = [x for part in nm.split('|') for x in (part, part.split(' ')[0], part.split(' ')[-1]) if x and x != nm]
            ok = second and any("No rule to make target '%s', needed by '%s'" % (os.path.join(src, x), obj) in detail
                                for x in pieces)
    return (cls,) if ok else ()


def run_history(rep, seed, idx, cc, nedits, risky=None):
    """One generated project and edit history. Returns list of failure dicts (empty = the property held)."""
    rng = random.Random('%s-sys-%d' % (seed, idx))
    root = common.scratch('c07sys')
    fails = []
    trace = []
    try:
        run_ = SysRun(root, cc)
        if risky is None:
            # half of the histories use a precompiled header (both compilers), a quarter mixes C and C++ sources
            # two of three hand a header FILE generated by a step of the project to executable() through includes=
            proj = Proj(rng, rep, pch=(idx % 4 in (1, 2)), mixed=(idx % 4 == 0), genhdr=(idx % 3 != 1))
            if proj.gen:
                rep.count('sys:history with a generated header file in includes= of executable()')
            if proj.pch:
                rep.count('sys:history with precompiled header')
            if proj.mixed:
                rep.count('sys:history with C and C++ sources')
        else:
            # the forced-character scenarios alternate between a C-only and a mixed project
            proj = Proj(rng, None, special=False, nsrc=2, nhdr=2, mixed=(ord(risky) % 2 == 1))
            h = proj.add_header(force=risky)
            proj.src[min(proj.src)]['inc'].append(h)
        risky_name = proj.hdr[h]['name'] if risky is not None else None
        # scheduled first edits: a header that only the sources of ONE compile rule include (C / C++ / ordinary objects
        # next to a precompiled header) stops being included and is deleted
        # ... and before that, a header that only the object of a source in an oddly named directory includes is modified
        scheduled = [(k, proj.only[k]) for k in ('dir', 'cxx', 'c', 'ord') if k in proj.only] if risky is None else []
        if proj.gen:
            # ... and first of all the input of the generator of the generated header is modified: every object that includes
            # the generated header is made again
            scheduled.insert(0, ('gen', None))
        # histories with a generated header start from scratch with a parallel build
        jobs = ('-j4',) if proj.gen else ()
        allnames = set(h['name'] for h in proj.hdr.values())
        run_.sync(proj)
        p = run_.configure()
        if p.returncode != 0:
            return [{'step': 'configure', 'what': 'configure failed', 'detail': (p.stdout + p.stderr)[-800:],
                     'classes': (), 'trace': []}]
        listed = {}

        def check_build(step, dirty, expect_all=False, margs=(), already=()):
            cur = {proj.sname(s): proj.closure_files(s) for s in proj.src}
            if proj.pch:
                cur['pch.h'] = proj.pch_files()          # the precompiled header is a compile step of its own
            predicted = {s for s in cur if expect_all or s not in listed or (listed[s] & dirty)} - set(already)
            p, compiled, _ = run_.make(*margs)
            ok = True
            if p.returncode != 0:
                fails.append({'step': step, 'what': 'make failed', 'detail': p.stderr[-600:]})
                return False
            # includes=[generated header] of executable() DECLARES the header a prerequisite of every object of the program:
            # when the generator's input changed, the objects that do not #include the header may be made again as well
            declared = {proj.sname(s) for s in proj.src} if proj.gen and proj.gen_input() in dirty else set()
            if not (predicted <= compiled <= predicted | declared):
                fails.append({'step': step, 'what': 'recompiled set differs from the include-graph prediction',
                              'compiled': sorted(compiled), 'predicted': sorted(predicted), 'dirty': sorted(dirty)})
                ok = False
            for s in list(listed):
                if s not in cur:
                    del listed[s]
            for s in compiled | predicted:
                if s in cur:
                    listed[s] = cur[s]
            out = run_.prog_output()
            if out != str(proj.expected_output()):
                fails.append({'step': step, 'what': 'program output is stale or wrong', 'got': out,
                              'expected': proj.expected_output()})
                ok = False
            p, compiled, other = run_.make()
            if p.returncode != 0 or compiled or other:
                fails.append({'step': step, 'what': 'second make is not a no-op', 'rc': p.returncode,
                              'compiled': sorted(compiled), 'other_invocations': other, 'detail': p.stderr[-400:]})
                ok = False
            rep.case('sys:%s:%d:%s' % (seed, idx, step), True)
            return ok

        for e in range(nedits if check_build('initial', set(), margs=jobs) else 0):
            if risky is None and proj.pch and e == 0 and proj.pch['inc'] and proj.pch['inc'][0] in proj.hdr:
                # first a change of the header that is reachable only through the precompiled header
                h0 = proj.pch['inc'][0]
                proj.hdr[h0]['v'] += rng.randint(1, 5)
                ed = ['mod_hdr', proj.hdr[h0]['name']]
            elif risky is None and scheduled:
                k0, h0 = scheduled.pop(0)
                if k0 == 'gen':
                    proj.gen['v'] += rng.randint(1, 5)
                    ed = ['mod_gen', proj.gen_input()]
                elif h0 not in proj.hdr:
                    ed = proj.edit()
                elif k0 == 'dir':
                    proj.hdr[h0]['v'] += rng.randint(1, 5)
                    ed = ['mod_hdr', proj.hdr[h0]['name']]
                else:
                    ed = proj.delete_header(h0)
            elif risky is None:
                ed = proj.edit()
            else:               # fixed scenario: touch the risky header, then stop including it and delete it
                hid = max(proj.hdr)
                if e == 0:
                    ed = ['touch_hdr', proj.hdr[hid]['name']]
                elif e == 1:
                    nm = proj.hdr[hid]['name']
                    del proj.hdr[hid]
                    for o in proj.includers():
                        o['inc'] = [c for c in o['inc'] if c != hid]
                    ed = ['del_hdr', nm]
                else:
                    break
            trace.append(ed)
            rep.count('sys:edit:' + ed[0])
            dirty = run_.sync(proj, extra_touch=[ed[1]] if ed[0] == 'touch_hdr' else ())
            if not check_build('edit %d %r' % (e, ed), dirty):
                break
        if not fails and proj.hdr:
            # last edit of every history: no source includes a project header any more and all of them are deleted; every
            # object whose depfile names one is made again, by whichever compile rule made it
            ed = proj.strip_headers()
            trace.append(ed)
            rep.count('sys:edit:' + ed[0])
            check_build('last edit %r' % (ed,), run_.sync(proj))
        if not fails:
            # clean removes every product (objects, depfiles, program); the next build recreates all of them
            objs = {}        # source -> path of its object below the build directory, as the first builds left them
            for r, _, fs in os.walk(run_.bld):
                for f in fs:
                    for i in proj.src:
                        if f == 's%d.o' % i:
                            objs[i] = os.path.relpath(os.path.join(r, f), run_.bld)
            p, _, _ = run_.make('clean')
            mine = {'prog'} | {'s%d.c.o' % i for i in proj.src} | {'s%d.o' % i for i in proj.src} | \
                   {'s%d.o.d' % i for i in proj.src} | ({'pch.h.gch', 'pch.h.gch.d'} if proj.pch else set()) | \
                   ({proj.gen['name']} if proj.gen else set())        # products of the CURRENT sources (a renamed source's old object is not one)
            left = [f for r, _, fs in os.walk(run_.bld) for f in fs if f in mine]
            if p.returncode != 0 or left:
                fails.append({'step': 'clean', 'what': 'clean failed or left products behind', 'left': left,
                              'detail': p.stderr[-300:]})
            elif not proj.gen:
                check_build('rebuild after clean', set(), expect_all=True)
            elif check_build('rebuild after clean, goal: the program', set(), expect_all=True, margs=('prog',)):
                # clean once more, then ask for ONE object only (parallel): whatever the object needs - a generated header, the
                # precompiled header - is made first; the build of everything else follows
                users = [i for i in sorted(objs) if proj.uses_gen(i)] or sorted(objs)
                plain = [i for i in users if not proj.src[i].get('dir')] or users
                p, _, _ = run_.make('clean')
                if p.returncode == 0 and plain:
                    one = plain[0]
                    p, compiled, _ = run_.make('-j4', objs[one])
                    want = {proj.sname(one)} | ({'pch.h'} if proj.pch else set())
                    rep.case('sys:%s:%d:object goal' % (seed, idx), True)
                    rep.count('sys:clean, then ONE object as the goal of a parallel make')
                    if p.returncode != 0:
                        fails.append({'step': 'object goal %r after clean' % objs[one], 'what': 'make failed', 'detail': p.stderr[-600:]})
                    elif compiled != want:
                        fails.append({'step': 'object goal %r after clean' % objs[one], 'what': 'recompiled set differs from the goal',
                                      'compiled': sorted(compiled), 'predicted': sorted(want)})
                    else:
                        check_build('rebuild after the object goal', set(), expect_all=True, margs=jobs, already=want)
        for f in fails:
            f['classes'] = sys_classes(risky, risky_name, run_.src, f)
            f['trace'] = trace
        return fails
    finally:
        shutil.rmtree(root, ignore_errors=True)


def stage_system(rep, nhist, nedits, risky_chars):
    nfail = 0
    ccs = [c for c in ('gcc', 'clang') if shutil.which(c)]
    jobs = [(i, ccs[i % len(ccs)], nedits, None) for i in range(nhist)] + \
           [(1000 + ord(c), 'gcc', 2, c) for c in risky_chars]
    for idx, cc, ne, risky in jobs:
        fails = run_history(rep, rep.seed, idx, cc, ne, risky)
        rep.traces += 1
        rep.count('sys:history:%s%s' % (cc, ':risky' if risky else ''))
        for f in fails[:1]:
            if rep.fail('system: %s at %s (history %d, %s): %s' % (
                    f.get('what', f['step']), f['step'], idx, cc, {k: v for k, v in f.items() if k not in ('trace', 'classes')}),
                    {'kind': 'system', 'hist_index': idx, 'cc': cc, 'nedits': ne, 'risky': risky, 'failure': f},
                    classes=f['classes']):
                nfail += 1          # known findings do not count as found failing inputs
        if risky and not fails:
            rep.count('sys:risky-scenario-passed:' + RISKY.get(risky, 'ordinary-special-char %r' % risky))
    rep.stage('system', histories=len(jobs), failing=nfail)
    return nfail


def load_local_findings(rep):
    """known_findings.json is merged by the coordinator from findings.d; honour this property's own fragment even
    before that merge (same entries, so nothing changes afterwards)."""
    p = os.path.join(common.VERIF, 'findings.d', 'C07.json')
    if os.path.exists(p):
        have = {k['id'] for k in rep.known}
        rep.known += [k for k in json.load(open(p)) if k.get('status') == 'open' and k['id'] not in have]


# ----------------------------------------------------------------------------- direct oracle at unit level
def check_fixed_depfile(tgt, deps, text, d):
    """The property itself on the real code, without the model's reader: after the real depfixer, real make must see
    the object's rule and one prerequisite-free rule per dependency.  Returns None or a description."""
    out, err = impl_emit(text)
    if err is not None:
        return 'depfixer raised %r' % (err,)
    got = make_db_rules(text + out, d)
    want = sorted([tgt + ':' + ''.join(' ' + x for x in deps)] + [x + ':' for x in deps])
    if got != want:
        return 'make reads %r, expected %r (depfixer wrote %r)' % (got, want, out)
    return None


def long_depfile_cases(rng, count):
    """Dependency lists as long as real projects produce (several KiB, wrapped over many lines). The first name is
    padded by 0..count-1 characters so that, across the family, a backslash-newline continuation (and an escaped
    blank) lands on every offset modulo the usual buffer sizes (512 … 8192): implementations that read or tokenize
    the depfile in chunks must still agree."""
    base = [('inc lude/long_header_name_%03d.h' % i if i % 7 == 3 else 'include/some/deeper/dir/long_header_name_%03d.h' % i)
            for i in range(rng.randint(70, 110))]
    cases = []
    for pad in range(count):
        deps = ['p' * pad + 'first.h'] + base
        wd = []
        col = 0
        for i, dname in enumerate(deps):
            wrap = col + len(dname) > 70          # gcc wraps at about 78 columns
            col = len(dname) if wrap else col + len(dname) + 1
            wd.append([bool(wrap and i > 0), dname])
        cases.append(('obj/main.o', wd))
    return cases


def stage_oracle_depfix(rep, rng, n):
    cases = list(long_depfile_cases(rng, 100))      # > the distance between two continuations: every alignment occurs
    rep.count('oracle:long-depfiles', len(cases))
    for _ in range(n):
        tgt = gen_name(rng, None, OK_CLASSES)
        wd = gen_wdeps(rng, None, OK_CLASSES)
        names = [tgt] + [x for _, x in wd]
        if len(set(names)) == len(names):
            cases.append((tgt, wd))
    oks = iter(common.model_batch([('depfix.name_ok', [x]) for tgt, wd in cases for x in [tgt] + [y for _, y in wd]]))
    keep = []
    for tgt, wd in cases:
        if all([d_bool(next(oks)) for _ in range(1 + len(wd))]):
            keep.append((tgt, wd))
    texts = [d_str(r) for r in common.model_batch([('depfix.gcc_depfile', [tgt, wd]) for tgt, wd in keep])]
    d = common.scratch('c07or')
    bad = 0
    try:
        for (tgt, wd), text in zip(keep, texts):
            rep.case('or:' + text, '\\' in text or '$' in text)
            why = check_fixed_depfile(tgt, [x for _, x in wd], text, d)
            if why:
                bad += 1
                rep.fail('depfixer + make: not every dependency of %r became an empty rule: %s' % (text, why),
                         {'kind': 'depfix-oracle', 'tgt': tgt, 'deps': [x for _, x in wd], 'text': text, 'why': why})
    finally:
        shutil.rmtree(d, ignore_errors=True)
    rep.stage('oracle:depfix->make', cases=len(keep), failures=bad)
    return bad


def run(rep):
    rng = random.Random(rep.seed)
    thorough = rep.tier == 'thorough'
    rep.proof_stage(coqchk=thorough)
    n = 1500 if thorough else 300
    dis, valid = stage_w_depfix(rep, rng, n, 6 if thorough else 5)
    rbad = stage_r_cc(rep, rng, 60 if thorough else 12)
    rbad += stage_r_mkread(rep, rng, valid, 400 if thorough else 80)
    rbad += stage_r_makesem(rep, rng, 300 if thorough else 40)
    load_local_findings(rep)
    found = stage_oracle_depfix(rep, rng, 600 if thorough else 120)
    found += stage_system(rep, 12 if thorough else 3, 30 if thorough else 5,
                          (list(RISKY) if thorough else ['%', ':']) + ['$', '#', ' '] + (["'", ',', '('] if thorough else []))
    if dis and not rep.n_with_input:
        # the tie is broken but the ordinary budget found no failing input: search with a 10x budget
        found = stage_oracle_depfix(rep, rng, 6000 if thorough else 1200)
        found += stage_system(rep, 20, 5, [])
    if dis and not rep.n_with_input:
        i, call, iv, mv = dis[0]
        rep.fail('W:%s - model and implementation disagree (%d cases), e.g. %r: impl %r, model %r' % (
            call[0], len(dis), call[1], iv, mv),
            {'obligation': 'W:' + call[0], 'call': call, 'impl': iv, 'model': mv, 'n_disagreements': len(dis)},
            found_input=False)


def replay(rep, path):
    r = json.load(open(path))
    print(json.dumps(r, indent=1)[:3000])
    load_local_findings(rep)
    if r.get('kind') == 'system':
        fails = run_history(rep, r['seed'], r['hist_index'], r['cc'], r['nedits'], r.get('risky'))
        for f in fails[:1]:
            rep.fail('system (replay): %s at %s: %s' % (f.get('what', f['step']), f['step'],
                                                       {k: v for k, v in f.items() if k not in ('trace', 'classes')}),
                     {'kind': 'system', 'hist_index': r['hist_index'], 'cc': r['cc'], 'nedits': r['nedits'],
                      'risky': r.get('risky'), 'failure': f}, classes=f['classes'])
        if not fails:
            print('replay: the history now passes')
    elif r.get('kind') == 'depfix-oracle':
        d = common.scratch('c07or')
        try:
            why = check_fixed_depfile(r['tgt'], r['deps'], r['text'], d)
        finally:
            shutil.rmtree(d, ignore_errors=True)
        if why:
            rep.fail('depfixer + make (replay): %r: %s' % (r['text'], why), {k: r[k] for k in ('kind', 'tgt', 'deps', 'text')})
        else:
            print('replay: the case now passes')
    else:
        run(rep)
