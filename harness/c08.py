"""C08 - Automatic regeneration equals a fresh configure, and converges.

System level (the direct oracle): generated projects are configured by the real bfg9000, edit histories are applied to the
real source tree, the real GNU Make runs the regeneration step, and after every step the build files are compared byte for
byte with a fresh configure of the same tree; a second make must not invoke bfg9000.  Model tie: for every step the abstract
world (script configuration, find results by an independent small walker, mtimes read from the file system, the saved
cache) is handed to the extracted Coq model, whose prediction (step out of date?, skip/run, cache, dist set, watched dirs,
touched outputs) is compared with what really happened.  Which find_check_cache is under test (with or without the repair
F1: a cache file newer than the build file is not trusted) is detected by a behavioural probe (harness/regenvariant.py) and
selects the model variant (Regen.lazy fxc); a corner history with a touched cache file exercises exactly that branch."""
import json
import os
import random
import re
import shutil
import subprocess
import time
import fnmatch
from . import common, project, regenvariant

LEVEL = 'proof'
RULE = ('projects are drawn from a menu of find_files / directory / header_directory / submodule / options.bfg / pkg_config '
        'calls (include, extra, exclude, filter, cache, dist variants; one or several regenerate outputs); histories are '
        'sequences of edits (add/remove/rename of matching, extra-matching and non-matching files and directories, file '
        'moves, script comment/semantic edits, scripts that stop or start searching, a submodule / options.bfg added or removed '
        'and then edited alone, no-ops) each followed by the real make; a step is one case, non-trivial when '
        'the regeneration step was invoked, distinct by (project, edit kind, decision)')
TRUSTED = ('GNU Make 4.3 is the real tool (its verdict on whether the regeneration recipe runs is compared with the local '
           'mtime rule of the model at every step)',
           'the small independent directory walker of harness/c08.py (restricted glob shapes) that supplies the abstract '
           '`find` of the model; cross-checked against the .bfg_find_cache of the fresh configure at every step',
           'equality of abstract results implies equality of build files: the writer is a function of the result (C13)')
EXPLANATION = ''

# Regen.lazy fxc: find_check_cache with (True) / without (False) the repair F1; set by run() from the behavioural probe
FXC = [False]

COMPARE = ('Makefile', 'compile_commands.json', '.bfg_find_cache', '.bfg_find_deps')
DEFAULT_EXCLUDE = ('.*#', '*~', '#*#')


# ----------------------------------------------------------------------------- project description
class Call:
    """One find-like call of a script."""

    def __init__(self, kind, base, rec, ext, extra=None, exclude=None, filt=False, cache=True, dist=True, script='build.bfg'):
        self.kind, self.base, self.rec, self.ext = kind, base, rec, ext
        self.extra, self.exclude, self.filt, self.cache, self.dist, self.script = extra, exclude, filt, cache, dist, script

    def key(self):
        """identity of the FileFilter (include, type, extra, exclude, filter_fn)"""
        typ = {'find_files': 'f', 'directory': '*', 'header_directory': 'f'}[self.kind]
        return (self.base, self.rec, self.ext, typ, self.extra, self.exclude, self.filt)

    def pattern(self, rel_to=''):
        base = self.base[len(rel_to):].lstrip('/') if rel_to else self.base
        bits = [base] if base else []
        if self.rec:
            bits.append('**')
        bits.append('*' if self.ext == '*' else '*.' + self.ext)
        return '/'.join(bits)

    def todict(self):
        return dict(self.__dict__)


class Proj:
    def __init__(self):
        self.calls = []          # Calls of build.bfg in order (submodule calls are marked by .script)
        self.pkg = False         # pkg_config -> several regenerate outputs -> stamp
        self.options = None      # default value of the options.bfg argument, or None (no options.bfg)
        self.submodule = False
        self.sub_tok = 0         # bumped by an edit of the submodule's script alone (changes what it exports)
        self.tok = 0             # bumped by comment edits
        self.files = {}          # initial tree (non-script files)
        self.extra_scripts = []  # scripts written by a probe edit without touching the other scripts

    def scripts(self):
        s = ['build.bfg']
        if self.submodule:
            s.append('lib/build.bfg')
        if self.options is not None:
            s.append('options.bfg')
        return s + [x for x in self.extra_scripts if x not in s]

    def script_texts(self):
        out = {}
        lines = ["project('demo', version='1.0')", '# tok %d' % self.tok, 'srcs = []', 'incs = []']
        if self.options is not None:
            lines.append("global_options(['-DLEVEL=' + argv.level], lang='c')")
        n = 0
        for c in self.calls:
            if c.script != 'build.bfg':
                continue
            kw = ''
            if c.extra:
                kw += ', extra=%r' % c.extra
            if c.exclude:
                kw += ', exclude=%r' % c.exclude
            if c.filt:
                kw += ', filter=filter_by_platform'
            if not c.cache:
                kw += ', cache=False'
            if not c.dist:
                kw += ', dist=False'
            v = 'v%d' % n
            n += 1
            if c.kind == 'find_files':
                lines.append('%s = find_files(%r%s)' % (v, c.pattern(), kw))
                if n == 1 and c.ext == 'c':
                    lines.append('srcs += %s' % v)       # only the first search is compiled (no duplicate objects)
            elif c.kind == 'directory':
                lines.append('%s = directory(%r, include=%r%s)' % (v, c.base, c.pattern(c.base), kw))
            else:
                lines.append('%s = header_directory(%r, include=%r%s)' % (v, c.base, c.pattern(c.base), kw))
                lines.append('incs.append(%s)' % v)
        own = [c for c in self.calls if c.script == 'build.bfg']
        if not (own and own[0].kind == 'find_files' and own[0].ext == 'c'):
            lines.append("srcs += ['src/a.c']")              # a script that searches no sources names them itself
        if self.submodule:
            lines.append("sub = submodule('lib')")
            lines.append("srcs += sub['libsrcs']")
        lines.append('if srcs:')
        lines.append("    static_library('demo', files=srcs, includes=incs)")
        if self.pkg:
            lines.append("pkg_config('demo', version='1.0')")
        out['build.bfg'] = '\n'.join(lines) + '\n'
        if self.submodule:
            sl = ['# tok %d' % self.tok]
            subcalls = [c for c in self.calls if c.script == 'lib/build.bfg']
            for c in subcalls:
                sl.append('libsrcs = find_files(%r%s)' % (c.pattern('lib'), (', extra=%r' % c.extra) if c.extra else ''))
            if not subcalls:
                sl.append("libsrcs = [source_file('l.c')]")
            if self.sub_tok:
                sl.append("command('subcmd%d', cmd=['true'])" % self.sub_tok)      # visible in the build file
            sl.append('export(libsrcs=libsrcs)')
            out['lib/build.bfg'] = '\n'.join(sl) + '\n'
        if self.options is not None:
            out['options.bfg'] = "# tok %d\nargument('level', default=%r)\n" % (self.tok, self.options)
        return out

    def ordered_calls(self):
        """calls in execution order: build.bfg calls, then the submodule's (submodule() is the last statement)"""
        return [c for c in self.calls if c.script == 'build.bfg'] + \
               ([c for c in self.calls if c.script != 'build.bfg'] if self.submodule else [])

    def describe(self):
        return {'calls': [c.todict() for c in self.ordered_calls()], 'pkg': self.pkg, 'options': self.options,
                'submodule': self.submodule}


CALL_MENU = [
    lambda: Call('find_files', 'src', False, 'c', extra='*.h'),
    lambda: Call('find_files', 'src', True, 'c', extra='*.h'),
    lambda: Call('find_files', 'src', True, 'c'),
    lambda: Call('find_files', 'src', True, 'c', exclude='x_*'),
    lambda: Call('find_files', 'src', True, 'c', extra='*.h', filt=True),
    lambda: Call('find_files', 'src', False, 'c', dist=False),
    lambda: Call('find_files', 'data', False, 'txt', cache=False),
    lambda: Call('find_files', 'data', True, 'txt'),
    lambda: Call('directory', 'data', False, '*'),
    lambda: Call('header_directory', 'include', False, 'h'),
    lambda: Call('header_directory', 'include', True, 'h'),
]


def gen_project(rng, force=None):
    p = Proj()
    force = force or {}
    n = rng.randint(1, 3)
    first = rng.choice(CALL_MENU[:5])()           # always a source search so that a library exists
    p.calls = [first]
    seen = {first.key()}
    for _ in range(n):
        c = rng.choice(CALL_MENU)()
        if c.key() in seen and rng.random() < 0.7:   # the same filter twice is legal (second is a hit) but rare
            continue
        seen.add(c.key())
        p.calls.append(c)
    p.pkg = force.get('pkg', rng.random() < 0.5)
    p.submodule = force.get('submodule', rng.random() < 0.4)
    if p.submodule:
        p.calls.append(Call('find_files', 'lib', False, 'c', extra=rng.choice([None, '*.h']), script='lib/build.bfg'))
    p.options = force.get('options', rng.choice([None, '1', '2']))
    p.files = {'src/a.c': 'int a(void){return 1;}\n', 'src/a.h': '\n', 'src/m_windows.c': 'int w;\n',
               'src/sub/s.c': 'int s(void){return 1;}\n', 'src/sub/s.h': '\n', 'src/x_skip.c': 'int x;\n',
               'include/i.h': '\n', 'include/deep/d.h': '\n', 'data/d.txt': 'd\n', 'data/more/e.txt': 'e\n',
               'lib/l.c': 'int l(void){return 1;}\n', 'lib/l.h': '\n', 'README': 'r\n'}
    return p


# ----------------------------------------------------------------------------- independent walker (abstract `find`)
INC, NOTNOW, EX, XR = 0, 1, 2, 3
OTHER_PLATFORMS = ('windows', 'darwin', 'cygwin', 'winnt', 'win9x', 'msdos')
PLAT_RE = re.compile(r'(^|/|_)(' + '|'.join(OTHER_PLATFORMS) + r')(\.[^\.]+$|$|/)')


def _type_ok(typ, isdir):
    return typ == '*' or (typ == 'd') == isdir


def classify(call, rel, isdir):
    """FindResult of the path with components `rel` (below the source dir) for the filter of `call`; written from the
    documented glob semantics for the restricted shapes  BASE/*.ext, BASE/**/*.ext, BASE/*  (not from glob.py)."""
    typ = call.key()[3]
    name = rel[-1]
    for ex in DEFAULT_EXCLUDE + ((call.exclude,) if call.exclude else ()):
        if fnmatch.fnmatchcase(name, ex) and _type_ok(typ, isdir):
            return XR
    rest = rel[len(call.base.split('/')):]
    pat = '*' if call.ext == '*' else '*.' + call.ext
    never = False
    if not rest:
        res = False
    elif call.rec:
        res = fnmatch.fnmatchcase(rest[-1], pat)
    else:
        res = fnmatch.fnmatchcase(rest[0], pat) and len(rest) == 1
        never = not res
    if res and not _type_ok(typ, isdir):
        res = False
    if res:
        out = INC
    elif call.extra and fnmatch.fnmatchcase(name, call.extra) and _type_ok(typ, isdir):
        out = NOTNOW
    elif never:
        out = XR
    else:
        out = EX
    if call.filt:
        suffix = '/'.join(rel) + ('/' if isdir else '')
        out = max(out, NOTNOW if PLAT_RE.search(suffix) else INC)
    return out


def ofind(src, call):
    """-> (traversal [(relpath, INC|NOTNOW)], seen dirs [relpath]) in the order the walk visits them."""
    trav, seen = [], []
    base = call.base.split('/')
    if not os.path.isdir(os.path.join(src, call.base)):
        return trav, seen

    def walk(rel):
        seen.append('/'.join(rel))
        full = os.path.join(src, *rel)
        names = os.listdir(full)
        dirs = [n for n in names if os.path.isdir(os.path.join(full, n))]
        files = [n for n in names if not os.path.isdir(os.path.join(full, n))]
        keep = []
        for d in dirs:
            m = classify(call, rel + [d], True)
            if m in (INC, NOTNOW):
                trav.append(('/'.join(rel + [d]), m))
            if m != XR:
                keep.append(d)
        for f in files:
            m = classify(call, rel + [f], False)
            if m in (INC, NOTNOW):
                trav.append(('/'.join(rel + [f]), m))
        for d in keep:
            if not os.path.islink(os.path.join(full, d)):
                walk(rel + [d])
    walk(base)
    return trav, seen


def read_saved(build):
    """.bfg_find_cache -> None | {'inputs': [rel], 'outputs': [rel], 'cache': [(filterjson, found, extra)]}"""
    t = project.read(build, '.bfg_find_cache')
    if t is None:
        return None
    d = json.loads(t)['data']

    def pth(x):
        return x[0].rstrip('/')
    return {'inputs': [pth(i) for i in d['regen_files']['inputs']], 'outputs': [pth(i) for i in d['regen_files']['outputs']],
            'cache': [(json.dumps(e[0], sort_keys=True), [pth(i) for i in e[1]], [pth(i) for i in e[2]]) for e in d['cache']]}


def filter_json(call):
    """the to_json of the FileFilter this call builds (key of the saved cache)"""
    typ = call.key()[3]
    pat = call.pattern()
    return json.dumps({'include': [{'pattern': [pat, 'srcdir', False], 'type': typ}],
                       'extra': [{'pattern': call.extra, 'type': typ}] if call.extra else [],
                       'exclude': [{'pattern': e, 'type': typ} for e in DEFAULT_EXCLUDE + ((call.exclude,) if call.exclude else ())],
                       'filter_fn': 'filter_by_platform' if call.filt else None}, sort_keys=True)


# ----------------------------------------------------------------------------- edits
def _listing(src):
    files, dirs = [], []
    for d, ds, fs in os.walk(src):
        for n in ds:
            dirs.append(os.path.relpath(os.path.join(d, n), src))
        for n in fs:
            files.append(os.path.relpath(os.path.join(d, n), src))
    return sorted(files), sorted(dirs)


SCRIPT_NAMES = ('build.bfg', 'options.bfg', 'lib/build.bfg')
NEWEXT = ['c', 'c', 'h', 'txt', 'o~', 'c']

EDIT_KINDS = ['add-file', 'add-file', 'add-file', 'remove-file', 'remove-file', 'rename-file', 'rename-file', 'move-file',
              'add-dir', 'remove-dir', 'rename-dir', 'touch-file', 'script-comment', 'script-comment', 'script-toggle-call',
              'script-options', 'script-pkg', 'noop',
              # the scripts' use of builtins changes: all searches dropped, a submodule / options.bfg appears or goes away,
              # and then only the NEWEST regeneration input is edited
              'script-drop-finds', 'script-toggle-submodule', 'script-sub-edit', 'script-sub-edit', 'script-add-options']


def write_scripts(proj, src, only=None):
    texts = proj.script_texts()
    project.write_tree(src, {k: v for k, v in texts.items() if only is None or k in only})


def drop_finds(proj, src, sub_too=True):
    """every search disappears from build.bfg (and from the submodule): the scripts name their sources themselves"""
    proj.calls = [c for c in proj.calls if c.script != 'build.bfg' and not sub_too]
    write_scripts(proj, src, ['build.bfg', 'lib/build.bfg'])


def add_submodule(proj, src, with_find=False):
    proj.submodule = True
    proj.calls = [c for c in proj.calls if c.script == 'build.bfg']
    if with_find:
        proj.calls.append(Call('find_files', 'lib', False, 'c', script='lib/build.bfg'))
    write_scripts(proj, src, ['build.bfg', 'lib/build.bfg'])


def remove_submodule(proj, src):
    proj.submodule = False
    proj.calls = [c for c in proj.calls if c.script == 'build.bfg']
    write_scripts(proj, src, ['build.bfg'])


def sub_edit(proj, src):
    """only the submodule's script changes (it declares one more step)"""
    proj.sub_tok += 1
    write_scripts(proj, src, ['lib/build.bfg'])


def add_options(proj, src):
    """options.bfg appears together with its use in build.bfg"""
    proj.options = '1'
    write_scripts(proj, src, ['build.bfg', 'options.bfg'])


def options_edit(proj, src):
    proj.options = str(int(proj.options) + 1)
    write_scripts(proj, src, ['options.bfg'])


def apply_edit(rng, proj, src, counter, kind=None):
    """Applies one edit to the real tree (and to proj when a script changes). Returns a JSON-able description."""
    files, dirs = _listing(src)
    data = [f for f in files if f not in SCRIPT_NAMES]
    dirs_all = [d for d in dirs]
    kind = kind or rng.choice(EDIT_KINDS)
    ed = {'kind': kind}
    cand_dirs = [d for d in dirs_all] or ['src']

    def newname(ext=None):
        ext = ext or rng.choice(NEWEXT)
        stem = rng.choice(['n', 'n', 'x_n', 'q_windows'])
        return '%s%d.%s' % (stem, counter, ext)

    if kind == 'add-file':
        d = rng.choice(cand_dirs)
        ed['path'] = os.path.join(d, newname())
        project.write_tree(src, {ed['path']: '/* %d */\n' % counter})
    elif kind == 'remove-file' and data:
        ed['path'] = rng.choice(data)
        os.remove(os.path.join(src, ed['path']))
    elif kind == 'rename-file' and data:
        f = rng.choice(data)
        ext = rng.choice([f.rsplit('.', 1)[-1] if '.' in f else 'c', 'c', 'txt', 'h'])
        ed['path'] = f
        ed['to'] = os.path.join(os.path.dirname(f), newname(ext))
        os.rename(os.path.join(src, f), os.path.join(src, ed['to']))
    elif kind == 'move-file' and data and len(cand_dirs) > 1:
        f = rng.choice(data)
        d = rng.choice([x for x in cand_dirs if x != os.path.dirname(f)])
        ed['path'] = f
        ed['to'] = os.path.join(d, os.path.basename(f))
        if os.path.exists(os.path.join(src, ed['to'])):
            ed['kind'] = 'noop'
        else:
            os.rename(os.path.join(src, f), os.path.join(src, ed['to']))
    elif kind == 'add-dir':
        d = rng.choice(cand_dirs + [''])
        name = rng.choice(['nd', 'x_nd', 'more']) + str(counter)
        ed['path'] = os.path.join(d, name)
        os.makedirs(os.path.join(src, ed['path']))
        if rng.random() < 0.7:
            ed['with'] = newname(rng.choice(['c', 'h', 'txt']))
            project.write_tree(src, {os.path.join(ed['path'], ed['with']): '/* %d */\n' % counter})
    elif kind == 'remove-dir' and [d for d in dirs_all if d != 'lib']:
        d = rng.choice([d for d in dirs_all if d != 'lib' and not d.startswith('lib/')])
        ed['path'] = d
        shutil.rmtree(os.path.join(src, d))
    elif kind == 'rename-dir' and [d for d in dirs_all if d != 'lib']:
        d = rng.choice([d for d in dirs_all if d != 'lib'])
        ed['path'] = d
        ed['to'] = os.path.join(os.path.dirname(d), 'rn%d' % counter)
        os.rename(os.path.join(src, d), os.path.join(src, ed['to']))
    elif kind == 'touch-file' and data:
        ed['path'] = rng.choice(data)
        with open(os.path.join(src, ed['path']), 'a') as f:
            f.write('/* touched %d */\n' % counter)
    elif kind == 'script-comment':
        proj.tok += 1
        ed['script'] = rng.choice(proj.scripts())
        project.write_tree(src, {ed['script']: proj.script_texts()[ed['script']]})
    elif kind == 'script-toggle-call':
        own = [c for c in proj.calls if c.script == 'build.bfg']
        if len(own) > 1 and rng.random() < 0.5:
            c = rng.choice(own[1:])
            proj.calls.remove(c)
            ed['removed'] = c.todict()
        else:
            c = rng.choice(CALL_MENU)()
            proj.calls.insert(rng.randint(min(1, len(own)), len(own)), c)     # a script that stopped searching starts again
            ed['added'] = c.todict()
        ed['script'] = 'build.bfg'
        project.write_tree(src, {'build.bfg': proj.script_texts()['build.bfg']})
    elif kind == 'script-options' and proj.options is not None:
        proj.options = str(int(proj.options) + 1)
        ed['script'] = 'options.bfg'
        project.write_tree(src, {'options.bfg': proj.script_texts()['options.bfg']})
    elif kind == 'script-drop-finds' and proj.calls:
        sub_too = rng.random() < 0.6
        drop_finds(proj, src, sub_too)
        ed['script'] = 'build.bfg'
        ed['submodule_too'] = sub_too
    elif kind == 'script-toggle-submodule' and os.path.exists(os.path.join(src, 'lib/l.c')):
        if proj.submodule:
            remove_submodule(proj, src)
        else:
            ed['with_find'] = rng.random() < 0.4
            add_submodule(proj, src, ed['with_find'])
        ed['script'] = 'build.bfg'
        ed['submodule'] = proj.submodule
    elif kind == 'script-sub-edit' and proj.submodule:
        sub_edit(proj, src)
        ed['script'] = 'lib/build.bfg'
    elif kind == 'script-add-options' and proj.options is None and not proj.extra_scripts:
        add_options(proj, src)
        ed['script'] = 'options.bfg+build.bfg'
    elif kind == 'script-pkg':
        proj.pkg = not proj.pkg
        ed['script'] = 'build.bfg'
        ed['pkg'] = proj.pkg
        project.write_tree(src, {'build.bfg': proj.script_texts()['build.bfg']})
    else:
        ed['kind'] = 'noop'
    return ed


# ----------------------------------------------------------------------------- observation of the real thing
def canon(text, build):
    return None if text is None else text.replace(build, '<BUILD>')


def build_files(build):
    """{name: canonical content} of every build file that regeneration owns."""
    out = {}
    for n in COMPARE:
        out[n] = canon(project.read(build, n), build)
    pcdir = os.path.join(build, 'pkgconfig')
    if os.path.isdir(pcdir):
        for n in sorted(os.listdir(pcdir)):
            out['pkgconfig/' + n] = canon(project.read(build, 'pkgconfig/' + n), build)
    return out


def mtimes(build, names):
    out = {}
    for n in names:
        try:
            out[n] = os.stat(os.path.join(build, n)).st_mtime_ns
        except OSError:
            out[n] = None
    return out


DIST_RE = re.compile(r"^(\t\$\(DOPPEL\) -ipN -f \S+ -C '\$\(srcdir\)' -P \S+) (.*) (\./\S+)$")


def split_dist(text):
    """Makefile text -> (text with the dist file lists replaced by a placeholder, [file lists])."""
    lists = []
    out = []
    for line in text.split('\n'):
        m = DIST_RE.match(line)
        if m:
            lists.append(m.group(2).split(' '))
            out.append(m.group(1) + ' <DIST> ' + m.group(3))
        else:
            out.append(line)
    return '\n'.join(out), lists


def parse_find_deps(text):
    if not text:
        return None
    first = text.split('\n')[0]
    tgt, _, deps = first.partition(':')
    return tgt, sorted(deps.split())


def diff_build_files(regen, fresh):
    """Compares the two file sets. Returns (list of hard differences, list of soft difference tags)."""
    hard, soft = [], []
    for n in sorted(set(regen) | set(fresh)):
        a, b = regen.get(n), fresh.get(n)
        if a == b:
            continue
        if a is None or b is None:
            hard.append('%s: %s after regeneration, %s after a fresh configure' % (
                n, 'absent' if a is None else 'present', 'absent' if b is None else 'present'))
            continue
        if n == 'Makefile':
            ta, la = split_dist(a)
            tb, lb = split_dist(b)
            if ta == tb and len(la) == len(lb) and all(sorted(x) == sorted(y) for x, y in zip(la, lb)):
                soft.append('dist-order')
                continue
            if ta == tb:
                hard.append('Makefile: dist file set differs: only regenerated %r, only fresh %r' % (
                    sorted(set(la[0]) - set(lb[0])), sorted(set(lb[0]) - set(la[0]))))
                continue
        if n == '.bfg_find_deps' and parse_find_deps(a) == parse_find_deps(b):
            soft.append('find-deps-order')
            continue
        al, bl = a.split('\n'), b.split('\n')
        d = [(i, x, y) for i, (x, y) in enumerate(zip(al, bl)) if x != y][:3]
        hard.append('%s differs (%d vs %d lines): %r' % (n, len(al), len(bl), d))
    return hard, soft


def run_make(build, timeout=25):
    """make Makefile (the backend's own regeneration step).  -> (rc, output, recipe invoked?, scripts re-run?, looped?)
    looped: Make kept re-executing itself (each time running the recipe) until the timeout."""
    e = common.impl_env()
    try:
        p = subprocess.run(['make', '--no-print-directory', 'Makefile'], cwd=build, env=e, capture_output=True, timeout=timeout)
        out, rc, looped = (p.stdout + p.stderr).decode('utf-8', 'replace'), p.returncode, False
    except subprocess.TimeoutExpired as ex:
        out, rc, looped = ((ex.stdout or b'') + (ex.stderr or b'')).decode('utf-8', 'replace'), -1, True
    return rc, out, 'regenerate --lazy' in out, 'regenerating build files' in out, looped


# ----------------------------------------------------------------------------- abstraction of the real world for the model
class Intern:
    """path strings ('s:<below srcdir>' / 'b:<below builddir>') and filter keys -> numbers of the model"""

    def __init__(self):
        self.paths = {'b:Makefile': 0, 'b:Makefile.stamp': 1, 'b:.bfg_find_cache': 2}
        self.filters = {}
        self.calls = {}       # filter json -> Call (every filter this history ever used)

    def p(self, s):
        return self.paths.setdefault(s, len(self.paths))

    def f(self, call):
        self.calls.setdefault(filter_json(call), call)
        return self.filters.setdefault(call.key(), len(self.filters))

    def name(self, n):
        for k, v in self.paths.items():
            if v == n:
                return k
        return '?%d' % n


def parse_emitted(build, src):
    """The regenerate rule as written in the Makefile on disk and the included depfile:
    -> {'inputs': [..], 'outputs': [..], 'dirs': [..], 'primary': name, 'depfile_target': name|None}"""
    mk = project.read(build, 'Makefile') or ''
    lines = mk.split('\n')
    out = {'inputs': [], 'outputs': ['b:Makefile'], 'dirs': [], 'primary': 'Makefile', 'depfile_target': None}
    for i, l in enumerate(lines):
        if l.startswith('\t') and l.strip().endswith('regenerate --lazy'):
            tgt, _, deps = lines[i - 1].partition(':')
            out['primary'] = tgt.strip()
            out['inputs'] = ['s:' + d.replace("'", '')[len('$(srcdir)/'):] for d in deps.split()]
            if tgt.strip() == 'Makefile.stamp':
                for l2 in lines[:i]:
                    if l2.endswith(': Makefile.stamp'):
                        out['outputs'] = ['b:' + x for x in l2[:-len(': Makefile.stamp')].split()]
            break
    if 'include .bfg_find_deps' in lines:
        pd = parse_find_deps(project.read(build, '.bfg_find_deps'))
        if pd:
            out['depfile_target'] = pd[0]
            out['dirs'] = ['s:' + os.path.relpath(d, src) for d in project.read(build, '.bfg_find_deps').split('\n')[0]
                           .partition(':')[2].split()]
    return out


def stat_ns(src, build, name):
    full = os.path.join(src if name[0] == 's' else build, name[2:])
    try:
        return os.stat(full).st_mtime_ns
    except OSError:
        return None


def abstract_world(proj, src, build, it, emitted, saved):
    """-> (world, saved, emit) in the wire shape of StateRegenTable.v"""
    calls = proj.ordered_calls()
    for c in calls:
        it.f(c)
    tree = []
    names = set(['b:Makefile', 'b:Makefile.stamp', 'b:.bfg_find_cache'])
    for js, c in sorted(it.calls.items()):
        trav, seen = ofind(src, c)
        tree.append([it.f(c), [[it.p('s:' + p), k == INC] for p, k in trav], [it.p('s:' + d) for d in seen]])
        names.update('s:' + d for d in seen)
    inputs = ['s:' + x for x in proj.scripts()]
    outs = ['b:pkgconfig/demo.pc', 'b:pkgconfig/demo-uninstalled.pc'] if proj.pkg else []
    conf = [[it.p(x) for x in inputs], [it.p(x) for x in outs], [[it.f(c), c.cache, c.dist] for c in calls], 0]
    names.update(inputs)
    names.update(outs)
    names.update(emitted['inputs'] + emitted['outputs'] + emitted['dirs'])
    sv = []
    if saved is not None:
        names.update('s:' + x for x in saved['inputs'])
        names.update('b:' + x for x in saved['outputs'])
        cache = []
        for js, found, extra in saved['cache']:
            c = it.calls.get(js)
            if c is None:
                raise KeyError('saved cache holds a filter the harness did not generate: ' + js)
            cache.append([it.f(c), [it.p('s:' + x) for x in found], [it.p('s:' + x) for x in extra]])
        sv = [[[it.p('s:' + x) for x in saved['inputs']], [it.p('b:' + x) for x in saved['outputs']], cache]]
    mt = []
    for n in sorted(names):
        t = stat_ns(src, build, n)
        if t is not None:
            mt.append([it.p(n), t])
    emit = [[it.p(x) for x in emitted['inputs']], [it.p(x) for x in emitted['outputs']], [it.p(x) for x in emitted['dirs']]]
    # the tree must also know the filters of the saved cache (already in it.calls)
    return [tree, mt, conf], sv, emit


def d_result(r):
    return {'inputs': r[0], 'outputs': r[1], 'rets': r[2], 'dist': r[3],
            'cache': [(e[0], e[1], e[2]) for e in r[4]], 'dirs': r[5]}


def dist_of_makefile(text):
    _, lists = split_dist(text or '')
    return lists[0] if lists else None


def observed_result(build, src, it):
    """what the files written by a real run say: cache, watched dirs, dist list"""
    sv = read_saved(build)
    em = parse_emitted(build, src)
    cache = None
    if sv is not None:
        cache = [(it.f(it.calls[js]), [it.p('s:' + x) for x in fo], [it.p('s:' + x) for x in ex]) for js, fo, ex in sv['cache']]
    dist = dist_of_makefile(project.read(build, 'Makefile'))
    return {'cache': cache, 'dirs': sorted(it.p(d) for d in em['dirs']), 'dist': dist,
            'inputs': [it.p(x) for x in em['inputs']], 'outputs': [it.p(x) for x in em['outputs']],
            'primary': em['primary'], 'depfile_target': em['depfile_target']}


def compare_result(model, obs, it, what):
    """model: d_result of the model; obs: observed_result. Returns list of disagreement strings."""
    dis = []
    if obs['cache'] is None:
        if model['cache']:
            dis.append('%s: no .bfg_find_cache although the model caches %r' % (what, model['cache']))
    elif [tuple(map(lambda x: x if isinstance(x, int) else list(x), e)) for e in model['cache']] != \
            [tuple(map(lambda x: x if isinstance(x, int) else list(x), e)) for e in obs['cache']]:
        dis.append('%s: find cache: model %r, real %r' % (what, model['cache'], obs['cache']))
    if sorted(model['dirs']) != obs['dirs']:
        dis.append('%s: watched directories: model %r, real %r' % (
            what, sorted(it.name(d) for d in model['dirs']), sorted(it.name(d) for d in obs['dirs'])))
    if model['inputs'] != obs['inputs'] or model['outputs'] != obs['outputs']:
        dis.append('%s: regenerate inputs/outputs: model %r -> %r, real %r -> %r' % (
            what, model['inputs'], model['outputs'], obs['inputs'], obs['outputs']))
    if obs['dist'] is not None:
        mnames = [it.name(d)[2:] for d in model['dist']]
        real = [x for x in obs['dist'] if x in set(mnames)]
        if real != mnames:
            dis.append('%s: dist list (files registered by the find calls, in order): model %r, real %r' % (what, mnames, real))
    want_primary = 'Makefile.stamp' if len(obs['outputs']) > 1 else 'Makefile'
    if obs['primary'] != want_primary or (obs['depfile_target'] not in (None, want_primary)):
        dis.append('%s: recipe hangs off %r, depfile names %r, expected %r' % (what, obs['primary'], obs['depfile_target'], want_primary))
    return dis


# ----------------------------------------------------------------------------- one history
def uncached_state(proj, src):
    return [(c.key(), ofind(src, c)[0]) for c in proj.ordered_calls() if not c.cache]


def base_missing(proj, src):
    return sorted(set(c.base for c in proj.ordered_calls() if c.cache and not os.path.isdir(os.path.join(src, c.base))))


def history(rep, rng, proj, nsteps, hid, forced_edits=(), label='random'):
    """Runs one history on the real tools and compares every step with the model. Returns number of failures."""
    bad = 0
    it = Intern()
    pending = []        # (step record, model calls) - the model is run once at the end of the history
    with project.Scratch('c08') as s:
        project.write_tree(s.src, proj.files)
        project.write_tree(s.src, proj.script_texts())
        fresh = os.path.join(s.root, 'fresh')
        rc, out = project.configure(s.src, s.build)
        if rc != 0:
            rep.fail('generated project does not configure: %s' % out[-400:], {'obligation': 'harness:project', 'project': proj.describe()},
                     found_input=False)
            return 1
        trace = []
        for c in proj.ordered_calls():
            it.f(c)             # the filters of the initial configure are in the saved cache even if an edit removes the call
        # the first make after a configure: with several outputs the stamp does not exist yet
        rc, out, invoked, ran, _ = run_make(s.build)
        rep.count('first-make:%s' % ('invoked-skip' if invoked and not ran else 'invoked-ran' if ran else 'quiet'))
        unc_at_run = uncached_state(proj, s.src)        # results of the untracked (cache=False) calls at the last full run
        missing_at_run = base_missing(proj, s.src)      # search roots that did not exist at the last full run
        stale_deps = False                              # a skip left .bfg_find_deps behind the walked directories
        missing_kept = False                            # a skip left a removed directory in .bfg_find_deps
        had_options = 'options.bfg' in proj.scripts()
        for step in range(nsteps):
            kind = forced_edits[step] if step < len(forced_edits) else None
            before_desc = proj.describe()
            time.sleep(0.01)
            if isinstance(kind, dict):
                ed = {k: v for k, v in kind.items() if k != 'apply'}
                kind['apply'](proj, s.src)
            else:
                ed = apply_edit(rng, proj, s.src, hid * 100 + step, kind)
            pre = build_files(s.build)
            pre_mt = mtimes(s.build, list(pre))
            emitted = parse_emitted(s.build, s.src)
            world, sv, emit = abstract_world(proj, s.src, s.build, it, emitted, read_saved(s.build))
            missing_watched = [d for d in emitted['dirs'] if not os.path.isdir(os.path.join(s.src, d[2:]))]
            rc1, out1, invoked, ran, looped = run_make(s.build)
            post = build_files(s.build)
            post_mt = mtimes(s.build, list(post))
            obs = observed_result(s.build, s.src, it)
            decision = 'ran' if ran else 'skip' if invoked else 'quiet'
            # fresh configure of the same tree with the same configuration
            shutil.rmtree(fresh, ignore_errors=True)
            rcf, outf = project.configure(s.src, fresh)
            ref = build_files(fresh)
            obs_fresh = observed_result(fresh, s.src, it) if rcf == 0 else None
            rc2, out2, invoked2, ran2, looped2 = (run_make(s.build) if not looped else (-1, '', False, False, False))
            shutil.rmtree(fresh, ignore_errors=True)
            rep.count('edit:' + ed['kind'])
            rep.count('decision:' + decision)
            rep.count('outputs:%s' % ('stamp' if len(emitted['outputs']) > 1 else 'single'))
            rep.case('%s|%d|%s|%s|%s' % (label, hid, json.dumps(before_desc, sort_keys=True), ed['kind'], decision), invoked)
            trace.append({'edit': ed, 'decision': decision})
            replay = {'project': before_desc, 'files': proj.files, 'history': list(trace), 'hid': hid, 'label': label,
                      'make_output': out1[-600:], 'second_make_output': out2[-300:]}
            touched = sorted(it.p('b:' + n) for n in post if n in pre_mt and post_mt.get(n) is not None and post_mt[n] != pre_mt[n]
                             and (n == 'Makefile' or n.startswith('pkgconfig/')))
            pending.append({'replay': replay, 'decision': decision, 'obs': obs, 'obs_fresh': obs_fresh, 'touched': touched,
                            'calls': [('regen.due', [True, emit, world]), ('regen.lazy', [True, world, sv, FXC[0]]),
                                      ('regen.fresh', [True, world])], 'rc1': rc1})
            # ---- classification of the input (history so far) into the known-finding classes
            classes = []
            if ran:
                unc_at_run = uncached_state(proj, s.src)
                missing_at_run = base_missing(proj, s.src)
                stale_deps = False
                missing_kept = False
                had_options = 'options.bfg' in proj.scripts()
            if decision == 'skip' and obs_fresh is not None and obs['dirs'] != obs_fresh['dirs']:
                stale_deps = True
            if missing_watched and (decision == 'skip' or looped):
                missing_kept = True
            if missing_kept:
                classes.append('skip-keeps-missing-watched-dir')
            elif stale_deps:
                classes.append('skip-keeps-stale-find-deps')
            if [b for b in missing_at_run if os.path.isdir(os.path.join(s.src, b))]:
                classes.append('missing-search-root-unwatched')
            if 'options.bfg' in proj.scripts() and not had_options:
                classes.append('new-options-file-untracked')

            def explains(kind, hard=()):
                """the history classes restricted to the failure each finding describes:
                  skip-keeps-missing-watched-dir  make loops / every later make invokes bfg9000 again; at the skipping step
                                                  itself only .bfg_find_deps differs from a fresh configure
                  skip-keeps-stale-find-deps      the build files differ from a fresh configure: at the skipping step only
                                                  .bfg_find_deps, afterwards (no regeneration is triggered: 'quiet') anything
                  missing-search-root-unwatched, new-options-file-untracked
                                                  no regeneration is triggered ('quiet') and the build files stay stale
                a regeneration that RAN and left other build files than a fresh configure, or a failing make, is explained by
                none of them"""
                only_deps = bool(hard) and all(h.startswith('.bfg_find_deps differs') for h in hard)
                out = []
                for c in classes:
                    if c == 'skip-keeps-missing-watched-dir':
                        ok = kind in ('loop', 'again') or (kind == 'differ' and decision == 'skip' and only_deps)
                    elif c == 'skip-keeps-stale-find-deps':
                        ok = kind == 'differ' and ((decision == 'skip' and only_deps) or decision == 'quiet')
                    else:
                        ok = kind == 'differ' and decision == 'quiet'
                    if ok:
                        out.append(c)
                return out
            if looped:
                rep.count('make-loops')
                if rep.fail('make does not terminate after edit %r: it re-executes itself and runs the regeneration recipe again and '
                            'again (%d times in %d s): %s' % (ed, out1.count('regenerate --lazy'), 25, out1[:200]), replay,
                            classes=tuple(explains('loop'))):
                    bad += 1
                pending.pop()
                break
            if rcf != 0:
                # the edited tree does not configure at all (e.g. a script names a removed directory)
                rep.count('fresh-configure-fails')
                continue
            if rc1 != 0:
                bad += 1
                rep.fail('make Makefile failed (rc %d) after edit %r although a fresh configure succeeds: %s' % (rc1, ed, out1[-300:]),
                         replay, classes=())
                continue
            if not ran and uncached_state(proj, s.src) != unc_at_run:
                # a cache=False search changed: documented as not tracked - outside the property's guarantee
                rep.count('excluded:uncached-search-changed')
                continue
            # files a fresh configure does not write (left over from an earlier configuration) are not compared
            # ... except the find cache: a .bfg_find_cache that survives a regeneration of a project that no longer caches
            # any search is consulted by every later lazy regeneration (a stale .bfg_find_deps is only read when the
            # Makefile includes it, and the Makefile is compared)
            left = [n for n in post if post[n] is not None and ref.get(n) is None]
            stale_state = [n for n in left if n == '.bfg_find_cache']
            for n in left:
                rep.count('soft:leftover-' + n.split('/')[0])
                post.pop(n)
                ref.pop(n, None)
            hard, soft = diff_build_files(post, ref)
            hard += ['%s is left in the build directory (a fresh configure of this tree writes none): the next lazy regeneration '
                     'will trust it' % n for n in stale_state]
            for t in soft:
                rep.count('soft:' + t)
            if hard or 'dist-order' in soft:
                what = ('after edit %r and the regeneration step (%s) the build files differ from a fresh configure: %s' % (
                    ed, decision, '; '.join(hard + ['Makefile: order of the dist file list' for t in soft if t == 'dist-order'])))
                cl = explains('differ', hard)
                if not hard:
                    cl.append('dist-order-after-cache-hit')
                if rep.fail(what, replay, classes=tuple(cl)):
                    bad += 1
            if invoked2:
                if rep.fail('a second make immediately after the regeneration step invoked bfg9000 again (edit %r, first decision %s): %s' % (
                        ed, decision, out2[-300:]), replay, classes=tuple(explains('again'))):
                    bad += 1
            if decision == 'skip':
                changed = [n for n in post if post[n] != pre.get(n)]
                if changed:
                    bad += 1
                    rep.fail('regeneration was skipped but %r changed' % changed, replay)
            if len(trace) <= 2:
                rep.sample({'project': before_desc['calls'][:2], 'edit': ed, 'decision': decision, 'soft': soft})
    bad += model_tie(rep, it, pending)
    return bad


def model_tie(rep, it, pending):
    """Runs the model on the abstract worlds recorded before each make and compares its predictions with what happened."""
    calls = [c for p in pending for c in p['calls']]
    if not calls:
        return 0
    raw = common.model_batch(calls)
    if not getattr(rep, '_c08_vm', False):
        rep._c08_vm = True
        n, ok, detail = common.vm_crosscheck(calls, raw, limit=9)
        rep.stage('vm_compute', rechecked=n, agrees=ok)
        if not ok:
            rep.fail('extraction glue: ' + detail, {'obligation': 'vm_compute == extracted model', 'detail': detail}, found_input=False)
    bad = 0
    for i, p in enumerate(pending):
        due, lazy, fresh = raw[3 * i], raw[3 * i + 1], raw[3 * i + 2]
        dis = []
        m_due = common.d_bool(due)
        real_inv = p['decision'] != 'quiet'
        if m_due != real_inv:
            dis.append('trigger: the mtime rule of the model says %s, GNU Make %s the regeneration recipe' % (
                'out of date' if m_due else 'up to date', 'ran' if real_inv else 'did not run'))
        if real_inv and p['rc1'] == 0:
            tag = 'ran' if lazy[0] == 1 else 'skip'
            if tag != p['decision']:
                dis.append('decision: model %s, real %s' % (tag, p['decision']))
            elif tag == 'ran':
                dis += compare_result(d_result(lazy[1]), p['obs'], it, 'lazy run')
            else:
                if sorted(lazy[1]) != p['touched']:
                    dis.append('skip: touched outputs: model %r, real %r' % (sorted(lazy[1]), p['touched']))
        if p['obs_fresh'] is not None:
            dis += compare_result(d_result(fresh), p['obs_fresh'], it, 'fresh configure')
        rep.count('tie:steps')
        rep.traces += 1
        if dis:
            bad += 1
            r = dict(p['replay'])
            r.update({'obligation': 'W:regen-model', 'disagreements': dis})
            rep.fail('model and implementation disagree on a regeneration step: ' + ' | '.join(dis)[:600], r, found_input=False)
    st = rep.stages.get('W:regen-model', {})
    rep.stage('W:regen-model', steps=st.get('steps', 0) + len(pending), disagreements=st.get('disagreements', 0) + bad,
              note='per step: regen.due vs GNU Make, regen.lazy vs the real lazy run (decision, cache, watched dirs, dist order, '
                   'touched outputs), regen.fresh vs the real fresh configure')
    return bad


# ----------------------------------------------------------------------------- corner histories (run first in every tier)
def _mk(files):
    def f(proj, src):
        project.write_tree(src, files)
    return f


def _rm(path):
    def f(proj, src):
        shutil.rmtree(os.path.join(src, path))
    return f


def _mkdir(path):
    def f(proj, src):
        os.makedirs(os.path.join(src, path))
    return f


def _touch_cache_and_notes(proj, src):
    """The state a regeneration leaves behind that saved .bfg_find_cache and died before writing the build file, as far as
    mtimes go: the cache file is newer than the Makefile.  A non-matching file in a watched directory makes make start the
    regeneration step without changing any find result."""
    project.write_tree(src, {'src/NOTES.txt': 'not matched\n'})
    os.utime(os.path.join(os.path.dirname(src), 'build', '.bfg_find_cache'), None)


def _new_options(proj, src):
    proj.extra_scripts = ['options.bfg']
    project.write_tree(src, {'options.bfg': "argument('level', default='1')\n"})


def corner_histories():
    """(label, project, forced edits) - the corner cases of the skip branch and of the watched-directory set"""
    out = []
    base_files = {'src/a.c': 'int a(void){return 1;}\n', 'src/a.h': '\n', 'src/sub/s.c': 'int s(void){return 1;}\n',
                  'src/empty/notes.txt': 'n\n', 'README': 'r\n'}

    def proj(calls, pkg=False):
        p = Proj()
        p.calls = calls
        p.pkg = pkg
        p.files = dict(base_files)
        return p
    for pkg in (False, True):
        tag = '-stamp' if pkg else ''
        # a directory appears without changing any result (skip), then a matching file appears inside it
        out.append(('new-dir-then-file' + tag, proj([Call('find_files', 'src', True, 'c', extra='*.h')], pkg),
                    [{'kind': 'add-dir', 'path': 'src/nd', 'apply': _mkdir('src/nd')},
                     {'kind': 'add-file', 'path': 'src/nd/z.c', 'apply': _mk({'src/nd/z.c': 'int z;\n'})},
                     {'kind': 'add-file', 'path': 'src/z2.c', 'apply': _mk({'src/z2.c': 'int z2;\n'})}]))
        # a walked directory without results disappears (skip): is the step ever up to date again?
        out.append(('remove-resultless-dir' + tag, proj([Call('find_files', 'src', True, 'c')], pkg),
                    [{'kind': 'remove-dir', 'path': 'src/empty', 'apply': _rm('src/empty')}, 'noop']))
        # the cache file is newer than the build file and no find result changed: skipped by the old find_check_cache,
        # regenerated for real since the repair F1 (either way the files must equal a fresh configure and make must converge)
        out.append(('cache-newer-than-buildfile' + tag, proj([Call('find_files', 'src', True, 'c', extra='*.h')], pkg),
                    [{'kind': 'touch-cache+add-nonmatching', 'path': 'src/NOTES.txt', 'apply': _touch_cache_and_notes}, 'noop',
                     {'kind': 'add-file', 'path': 'src/z3.c', 'apply': _mk({'src/z3.c': 'int z3;\n'})}]))
    # the root of a search does not exist at configure time and appears later
    out.append(('search-root-appears', proj([Call('find_files', 'src', False, 'c'), Call('find_files', 'gen', False, 'c', dist=True)]),
                [{'kind': 'add-dir', 'path': 'gen', 'with': 'g.c', 'apply': _mk({'gen/g.c': 'int g;\n'})}, 'noop']))
    # an options.bfg appears in a project that had none
    out.append(('options-file-appears', proj([Call('find_files', 'src', False, 'c')]),
                [{'kind': 'script-new-options', 'script': 'options.bfg', 'apply': _new_options}, 'noop']))
    # the project stops searching (no cached find_files call is left) while a new regeneration input appears; then only
    # that new input is edited: no state file of the searching days may make the regeneration step skip
    def two():
        return [Call('find_files', 'src', True, 'c', extra='*.h'), Call('find_files', 'data', True, 'txt')]
    lib_files = {'lib/l.c': 'int l(void){return 1;}\n', 'data/d.txt': 'd\n'}
    for pkg in (False, True):
        tag = '-stamp' if pkg else ''
        pj = proj(two(), pkg)
        pj.files.update(lib_files)
        out.append(('finds-dropped-submodule-added-then-edited' + tag, pj,
                    [{'kind': 'script-drop-finds+add-submodule', 'script': 'build.bfg',
                      'apply': lambda p, src: (drop_finds(p, src), add_submodule(p, src))},
                     {'kind': 'script-sub-edit', 'script': 'lib/build.bfg', 'apply': sub_edit}, 'noop',
                     {'kind': 'script-sub-edit', 'script': 'lib/build.bfg', 'apply': sub_edit}]))
    # the project KEEPS searching (the cache stays in use) and gains an options.bfg and a submodule; then only one of those
    # secondary scripts is edited: every regeneration input counts for the skip decision, not only the main script
    for pkg in (False, True):
        pj = proj(two(), pkg)
        pj.files.update(lib_files)
        out.append(('searching-project-secondary-script-edited' + ('-stamp' if pkg else ''), pj,
                    [{'kind': 'script-add-options', 'script': 'build.bfg', 'apply': add_options},
                     {'kind': 'script-options', 'script': 'options.bfg', 'apply': options_edit}, 'noop',
                     {'kind': 'script-add-submodule', 'script': 'build.bfg', 'apply': lambda p, src: add_submodule(p, src)},
                     {'kind': 'script-sub-edit', 'script': 'lib/build.bfg', 'apply': sub_edit}, 'noop',
                     {'kind': 'script-options', 'script': 'options.bfg', 'apply': options_edit}]))
    pj = proj(two())
    pj.files.update(lib_files)
    out.append(('finds-dropped-options-added-then-edited', pj,
                [{'kind': 'script-drop-finds+add-options', 'script': 'build.bfg',
                  'apply': lambda p, src: (drop_finds(p, src), add_options(p, src))},
                 {'kind': 'script-options', 'script': 'options.bfg', 'apply': options_edit}, 'noop']))
    pj = proj(two(), True)
    pj.files.update(lib_files)
    pj.submodule = True
    pj.calls.append(Call('find_files', 'lib', False, 'c', script='lib/build.bfg'))
    out.append(('submodule-search-dropped-readded', pj,
                [{'kind': 'script-drop-finds', 'script': 'build.bfg', 'apply': lambda p, src: drop_finds(p, src)},
                 {'kind': 'script-sub-edit', 'script': 'lib/build.bfg', 'apply': sub_edit},
                 {'kind': 'script-add-submodule-search', 'script': 'lib/build.bfg', 'apply': lambda p, src: add_submodule(p, src, True)},
                 {'kind': 'add-file', 'path': 'lib/m.c', 'apply': _mk({'lib/m.c': 'int m;\n'})}]))
    # several cached searches over different directories: a directory-triggered lazy regeneration re-checks every one
    # of them (first without any change of a result, then with a change in one search at a time)
    for pkg in (False, True):
        pj = proj([Call('find_files', 'src', True, 'c', extra='*.h'), Call('find_files', 'data', True, 'txt'),
                   Call('header_directory', 'include', True, 'h')], pkg)
        pj.files.update({'data/d.txt': 'd\n', 'data/more/e.txt': 'e\n', 'include/i.h': '\n', 'include/deep/d.h': '\n'})
        out.append(('several-searches-one-directory-changes' + ('-stamp' if pkg else ''), pj,
                    [{'kind': 'add-file', 'path': 'data/more/NOTES', 'apply': _mk({'data/more/NOTES': 'not matched\n'})},
                     {'kind': 'add-file', 'path': 'data/more/f.txt', 'apply': _mk({'data/more/f.txt': 'f\n'})},
                     {'kind': 'add-file', 'path': 'include/deep/z.h', 'apply': _mk({'include/deep/z.h': '\n'})},
                     {'kind': 'add-file', 'path': 'src/sub/t.c', 'apply': _mk({'src/sub/t.c': 'int t;\n'})}]))
    # extra files interleaved with included ones: order of the dist list after a run served from the cache
    out.append(('extra-interleaved', proj([Call('find_files', 'src', True, 'c', extra='*.h')], True),
                [{'kind': 'add-file', 'path': 'src/b.c', 'apply': _mk({'src/b.c': 'int b;\n', 'src/b.h': '\n'})},
                 {'kind': 'remove-file', 'path': 'src/b.h', 'apply': lambda proj, src: os.remove(os.path.join(src, 'src/b.h'))},
                 'script-comment']))
    return out


def stage_corners(rep, rng):
    bad = 0
    cs = corner_histories()
    # histories are independent (own scratch dirs, own PRNG derived from the run's PRNG): run them concurrently
    from concurrent.futures import ThreadPoolExecutor
    jobs = [(random.Random(rng.getrandbits(64)), proj, len(edits), 900 + i, edits, label) for i, (label, proj, edits) in enumerate(cs)]
    with ThreadPoolExecutor(max_workers=6) as ex:
        for r in ex.map(lambda j: history(rep, j[0], j[1], j[2], j[3], forced_edits=j[4], label=j[5]), jobs):
            bad += r
    rep.stage('system:corner-histories', histories=len(cs), failures_not_known=bad)
    return bad


def stage_system(rep, rng, nhist, nsteps):
    bad = 0
    from concurrent.futures import ThreadPoolExecutor
    jobs = []
    for h in range(nhist):
        force = {'pkg': h % 2 == 1}
        proj = gen_project(rng, force)
        jobs.append((random.Random(rng.getrandbits(64)), proj, h))
    with ThreadPoolExecutor(max_workers=6) as ex:
        for r in ex.map(lambda j: history(rep, j[0], j[1], nsteps, j[2]), jobs):
            bad += r
    rep.stage('system:histories', histories=nhist, steps_each=nsteps, failures=bad)
    return bad


def run(rep):
    rng = random.Random(rep.seed)
    rep.proof_stage(coqchk=(rep.tier == 'thorough'))
    v = regenvariant.detect()
    regenvariant.report(rep, v)
    FXC[0] = v['dnc']
    stage_corners(rep, rng)
    if rep.tier == 'thorough':
        stage_system(rep, rng, 40, 8)
    else:
        stage_system(rep, rng, 3, 6)


def replay(rep, path):
    """Corner histories are replayed by label; random histories are regenerated from the recorded seed (the generator
    is deterministic), i.e. the whole run is repeated."""
    r = json.load(open(path))
    for i, (label, proj, edits) in enumerate(corner_histories()):
        if label == r.get('label'):
            rep.proof_stage(coqchk=False)
            FXC[0] = regenvariant.detect()['dnc']
            history(rep, random.Random(rep.seed), proj, len(edits), 900 + i, forced_edits=edits, label=label)
            return
    rep.seed = r.get('seed', rep.seed)
    run(rep)
