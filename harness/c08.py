"""C08 - Automatic regeneration equals a fresh configure, and converges.

System level (the direct oracle): generated projects are configured by the real bfg9000, edit histories are applied to the
real source tree, the real GNU Make runs the regeneration step, and after every step the build files are compared byte for
byte with a fresh configure of the same tree; a second make must not invoke bfg9000.  Model tie: for every step the abstract
world (script configuration, find results by an independent small walker, mtimes read from the file system, the saved
cache) is handed to the extracted Coq model, whose prediction (step out of date?, skip/run, cache, dist set, watched dirs,
touched outputs) is compared with what really happened."""
import json
import os
import random
import re
import shutil
import time
import fnmatch
from . import common, project

LEVEL = 'proof'
RULE = ('projects are drawn from a menu of find_files / directory / header_directory / submodule / options.bfg / pkg_config '
        'calls (include, extra, exclude, filter, cache, dist variants; one or several regenerate outputs); histories are '
        'sequences of edits (add/remove/rename of matching, extra-matching and non-matching files and directories, file '
        'moves, script comment/semantic edits, no-ops) each followed by the real make; a step is one case, non-trivial when '
        'the regeneration step was invoked, distinct by (project, edit kind, decision)')
TRUSTED = ('GNU Make 4.3 is the real tool (its verdict on whether the regeneration recipe runs is compared with the local '
           'mtime rule of the model at every step)',
           'the small independent directory walker of harness/c08.py (restricted glob shapes) that supplies the abstract '
           '`find` of the model; cross-checked against the .bfg_find_cache of the fresh configure at every step',
           'equality of abstract results implies equality of build files: the writer is a function of the result (C13)')
EXPLANATION = ''

COMPARE = ('Makefile', 'compile_commands.json', '.bfg_find_cache', '.bfg_find_deps')
DEFAULT_EXCLUDE = ('.*#', '*~', '#*#')


# ----------------------------------------------------------------------------- project description
class Call:
    """One find-like call of a script."""

    def __init__(self, kind, base, rec, ext, extra=None, exclude=None, filt=False, cache=True, dist=True, script='build.bfg'):
        self.kind, self.base, self.rec, self.ext = kind, base, rec, ext
        self.extra, self.exclude, self.filt, self.cache, self.dist, self.script = extra, exclude, filt, cache, dist, script

    def key(self):
        """identity of the FileFilter (include, type, extra, exclude, filter_fn)"""
        typ = {'find_files': 'f', 'directory': '*', 'header_directory': 'f'}[self.kind]
        return (self.base, self.rec, self.ext, typ, self.extra, self.exclude, self.filt)

    def pattern(self, rel_to=''):
        base = self.base[len(rel_to):].lstrip('/') if rel_to else self.base
        bits = [base] if base else []
        if self.rec:
            bits.append('**')
        bits.append('*' if self.ext == '*' else '*.' + self.ext)
        return '/'.join(bits)

    def todict(self):
        return dict(self.__dict__)


class Proj:
    def __init__(self):
        self.calls = []          # Calls of build.bfg in order (submodule calls are marked by .script)
        self.pkg = False         # pkg_config -> several regenerate outputs -> stamp
        self.options = None      # default value of the options.bfg argument, or None (no options.bfg)
        self.submodule = False
        self.tok = 0             # bumped by comment edits
        self.files = {}          # initial tree (non-script files)

    def scripts(self):
        s = ['build.bfg']
        if self.submodule:
            s.append('lib/build.bfg')
        if self.options is not None:
            s.append('options.bfg')
        return s

    def script_texts(self):
        out = {}
        lines = ["project('demo', version='1.0')", '# tok %d' % self.tok, 'srcs = []', 'incs = []']
        if self.options is not None:
            lines.append("global_options(['-DLEVEL=' + argv.level], lang='c')")
        n = 0
        for c in self.calls:
            if c.script != 'build.bfg':
                continue
            kw = ''
            if c.extra:
                kw += ', extra=%r' % c.extra
            if c.exclude:
                kw += ', exclude=%r' % c.exclude
            if c.filt:
                kw += ', filter=filter_by_platform'
            if not c.cache:
                kw += ', cache=False'
            if not c.dist:
                kw += ', dist=False'
            v = 'v%d' % n
            n += 1
            if c.kind == 'find_files':
                lines.append('%s = find_files(%r%s)' % (v, c.pattern(), kw))
                if n == 1:
                    lines.append('srcs += %s' % v)       # only the first search is compiled (no duplicate objects)
            elif c.kind == 'directory':
                lines.append('%s = directory(%r, include=%r%s)' % (v, c.base, c.pattern(c.base), kw))
            else:
                lines.append('%s = header_directory(%r, include=%r%s)' % (v, c.base, c.pattern(c.base), kw))
                lines.append('incs.append(%s)' % v)
        if self.submodule:
            lines.append("sub = submodule('lib')")
            lines.append("srcs += sub['libsrcs']")
        lines.append('if srcs:')
        lines.append("    static_library('demo', files=srcs, includes=incs)")
        if self.pkg:
            lines.append("pkg_config('demo', version='1.0')")
        out['build.bfg'] = '\n'.join(lines) + '\n'
        if self.submodule:
            sl = ['# tok %d' % self.tok]
            for c in self.calls:
                if c.script == 'lib/build.bfg':
                    sl.append('libsrcs = find_files(%r%s)' % (c.pattern('lib'), (', extra=%r' % c.extra) if c.extra else ''))
            sl.append('export(libsrcs=libsrcs)')
            out['lib/build.bfg'] = '\n'.join(sl) + '\n'
        if self.options is not None:
            out['options.bfg'] = "# tok %d\nargument('level', default=%r)\n" % (self.tok, self.options)
        return out

    def ordered_calls(self):
        """calls in execution order: build.bfg calls, then the submodule's (submodule() is the last statement)"""
        return [c for c in self.calls if c.script == 'build.bfg'] + \
               ([c for c in self.calls if c.script != 'build.bfg'] if self.submodule else [])

    def describe(self):
        return {'calls': [c.todict() for c in self.ordered_calls()], 'pkg': self.pkg, 'options': self.options,
                'submodule': self.submodule}


CALL_MENU = [
    lambda: Call('find_files', 'src', False, 'c', extra='*.h'),
    lambda: Call('find_files', 'src', True, 'c', extra='*.h'),
    lambda: Call('find_files', 'src', True, 'c'),
    lambda: Call('find_files', 'src', True, 'c', exclude='x_*'),
    lambda: Call('find_files', 'src', True, 'c', extra='*.h', filt=True),
    lambda: Call('find_files', 'src', False, 'c', dist=False),
    lambda: Call('find_files', 'data', False, 'txt', cache=False),
    lambda: Call('find_files', 'data', True, 'txt'),
    lambda: Call('directory', 'data', False, '*'),
    lambda: Call('header_directory', 'include', False, 'h'),
    lambda: Call('header_directory', 'include', True, 'h'),
]


def gen_project(rng, force=None):
    p = Proj()
    force = force or {}
    n = rng.randint(1, 3)
    first = rng.choice(CALL_MENU[:5])()           # always a source search so that a library exists
    p.calls = [first]
    seen = {first.key()}
    for _ in range(n):
        c = rng.choice(CALL_MENU)()
        if c.key() in seen and rng.random() < 0.7:   # the same filter twice is legal (second is a hit) but rare
            continue
        seen.add(c.key())
        p.calls.append(c)
    p.pkg = force.get('pkg', rng.random() < 0.5)
    p.submodule = force.get('submodule', rng.random() < 0.4)
    if p.submodule:
        p.calls.append(Call('find_files', 'lib', False, 'c', extra=rng.choice([None, '*.h']), script='lib/build.bfg'))
    p.options = force.get('options', rng.choice([None, '1', '2']))
    p.files = {'src/a.c': 'int a(void){return 1;}\n', 'src/a.h': '\n', 'src/m_windows.c': 'int w;\n',
               'src/sub/s.c': 'int s(void){return 1;}\n', 'src/sub/s.h': '\n', 'src/x_skip.c': 'int x;\n',
               'include/i.h': '\n', 'include/deep/d.h': '\n', 'data/d.txt': 'd\n', 'data/more/e.txt': 'e\n',
               'lib/l.c': 'int l(void){return 1;}\n', 'lib/l.h': '\n', 'README': 'r\n'}
    return p


# ----------------------------------------------------------------------------- independent walker (abstract `find`)
INC, NOTNOW, EX, XR = 0, 1, 2, 3
OTHER_PLATFORMS = ('windows', 'darwin', 'cygwin', 'winnt', 'win9x', 'msdos')
PLAT_RE = re.compile(r'(^|/|_)(' + '|'.join(OTHER_PLATFORMS) + r')(\.[^\.]+$|$|/)')


def _type_ok(typ, isdir):
    return typ == '*' or (typ == 'd') == isdir


def classify(call, rel, isdir):
    """FindResult of the path with components `rel` (below the source dir) for the filter of `call`; written from the
    documented glob semantics for the restricted shapes  BASE/*.ext, BASE/**/*.ext, BASE/*  (not from glob.py)."""
    typ = call.key()[3]
    name = rel[-1]
    for ex in DEFAULT_EXCLUDE + ((call.exclude,) if call.exclude else ()):
        if fnmatch.fnmatchcase(name, ex) and _type_ok(typ, isdir):
            return XR
    rest = rel[len(call.base.split('/')):]
    pat = '*' if call.ext == '*' else '*.' + call.ext
    never = False
    if not rest:
        res = False
    elif call.rec:
        res = fnmatch.fnmatchcase(rest[-1], pat)
    else:
        res = fnmatch.fnmatchcase(rest[0], pat) and len(rest) == 1
        never = not res
    if res and not _type_ok(typ, isdir):
        res = False
    if res:
        out = INC
    elif call.extra and fnmatch.fnmatchcase(name, call.extra) and _type_ok(typ, isdir):
        out = NOTNOW
    elif never:
        out = XR
    else:
        out = EX
    if call.filt:
        suffix = '/'.join(rel) + ('/' if isdir else '')
        out = max(out, NOTNOW if PLAT_RE.search(suffix) else INC)
    return out


def ofind(src, call):
    """-> (traversal [(relpath, INC|NOTNOW)], seen dirs [relpath]) in the order the walk visits them."""
    trav, seen = [], []
    base = call.base.split('/')
    if not os.path.isdir(os.path.join(src, call.base)):
        return trav, seen

    def walk(rel):
        seen.append('/'.join(rel))
        full = os.path.join(src, *rel)
        names = os.listdir(full)
        dirs = [n for n in names if os.path.isdir(os.path.join(full, n))]
        files = [n for n in names if not os.path.isdir(os.path.join(full, n))]
        keep = []
        for d in dirs:
            m = classify(call, rel + [d], True)
            if m in (INC, NOTNOW):
                trav.append(('/'.join(rel + [d]), m))
            if m != XR:
                keep.append(d)
        for f in files:
            m = classify(call, rel + [f], False)
            if m in (INC, NOTNOW):
                trav.append(('/'.join(rel + [f]), m))
        for d in keep:
            if not os.path.islink(os.path.join(full, d)):
                walk(rel + [d])
    walk(base)
    return trav, seen


def read_saved(build):
    """.bfg_find_cache -> None | {'inputs': [rel], 'outputs': [rel], 'cache': [(filterjson, found, extra)]}"""
    t = project.read(build, '.bfg_find_cache')
    if t is None:
        return None
    d = json.loads(t)['data']

    def pth(x):
        return x[0].rstrip('/')
    return {'inputs': [pth(i) for i in d['regen_files']['inputs']], 'outputs': [pth(i) for i in d['regen_files']['outputs']],
            'cache': [(json.dumps(e[0], sort_keys=True), [pth(i) for i in e[1]], [pth(i) for i in e[2]]) for e in d['cache']]}


def filter_json(call):
    """the to_json of the FileFilter this call builds (key of the saved cache)"""
    typ = call.key()[3]
    pat = call.pattern()
    return json.dumps({'include': [{'pattern': [pat, 'srcdir', False], 'type': typ}],
                       'extra': [{'pattern': call.extra, 'type': typ}] if call.extra else [],
                       'exclude': [{'pattern': e, 'type': typ} for e in DEFAULT_EXCLUDE + ((call.exclude,) if call.exclude else ())],
                       'filter_fn': 'filter_by_platform' if call.filt else None}, sort_keys=True)


# ----------------------------------------------------------------------------- edits
def _listing(src):
    files, dirs = [], []
    for d, ds, fs in os.walk(src):
        for n in ds:
            dirs.append(os.path.relpath(os.path.join(d, n), src))
        for n in fs:
            files.append(os.path.relpath(os.path.join(d, n), src))
    return sorted(files), sorted(dirs)


SCRIPT_NAMES = ('build.bfg', 'options.bfg', 'lib/build.bfg')
NEWEXT = ['c', 'c', 'h', 'txt', 'o~', 'c']

EDIT_KINDS = ['add-file', 'add-file', 'add-file', 'remove-file', 'remove-file', 'rename-file', 'rename-file', 'move-file',
              'add-dir', 'remove-dir', 'rename-dir', 'touch-file', 'script-comment', 'script-comment', 'script-toggle-call',
              'script-options', 'script-pkg', 'noop']


def apply_edit(rng, proj, src, counter, kind=None):
    """Applies one edit to the real tree (and to proj when a script changes). Returns a JSON-able description."""
    files, dirs = _listing(src)
    data = [f for f in files if f not in SCRIPT_NAMES]
    dirs_all = [d for d in dirs]
    kind = kind or rng.choice(EDIT_KINDS)
    ed = {'kind': kind}
    cand_dirs = [d for d in dirs_all] or ['src']

    def newname(ext=None):
        ext = ext or rng.choice(NEWEXT)
        stem = rng.choice(['n', 'n', 'x_n', 'q_windows'])
        return '%s%d.%s' % (stem, counter, ext)

    if kind == 'add-file':
        d = rng.choice(cand_dirs)
        ed['path'] = os.path.join(d, newname())
        project.write_tree(src, {ed['path']: '/* %d */\n' % counter})
    elif kind == 'remove-file' and data:
        ed['path'] = rng.choice(data)
        os.remove(os.path.join(src, ed['path']))
    elif kind == 'rename-file' and data:
        f = rng.choice(data)
        ext = rng.choice([f.rsplit('.', 1)[-1] if '.' in f else 'c', 'c', 'txt', 'h'])
        ed['path'] = f
        ed['to'] = os.path.join(os.path.dirname(f), newname(ext))
        os.rename(os.path.join(src, f), os.path.join(src, ed['to']))
    elif kind == 'move-file' and data and len(cand_dirs) > 1:
        f = rng.choice(data)
        d = rng.choice([x for x in cand_dirs if x != os.path.dirname(f)])
        ed['path'] = f
        ed['to'] = os.path.join(d, os.path.basename(f))
        if os.path.exists(os.path.join(src, ed['to'])):
            ed['kind'] = 'noop'
        else:
            os.rename(os.path.join(src, f), os.path.join(src, ed['to']))
    elif kind == 'add-dir':
        d = rng.choice(cand_dirs + [''])
        name = rng.choice(['nd', 'x_nd', 'more']) + str(counter)
        ed['path'] = os.path.join(d, name)
        os.makedirs(os.path.join(src, ed['path']))
        if rng.random() < 0.7:
            ed['with'] = newname(rng.choice(['c', 'h', 'txt']))
            project.write_tree(src, {os.path.join(ed['path'], ed['with']): '/* %d */\n' % counter})
    elif kind == 'remove-dir' and [d for d in dirs_all if d != 'lib']:
        d = rng.choice([d for d in dirs_all if d != 'lib' and not d.startswith('lib/')])
        ed['path'] = d
        shutil.rmtree(os.path.join(src, d))
    elif kind == 'rename-dir' and [d for d in dirs_all if d != 'lib']:
        d = rng.choice([d for d in dirs_all if d != 'lib'])
        ed['path'] = d
        ed['to'] = os.path.join(os.path.dirname(d), 'rn%d' % counter)
        os.rename(os.path.join(src, d), os.path.join(src, ed['to']))
    elif kind == 'touch-file' and data:
        ed['path'] = rng.choice(data)
        with open(os.path.join(src, ed['path']), 'a') as f:
            f.write('/* touched %d */\n' % counter)
    elif kind == 'script-comment':
        proj.tok += 1
        ed['script'] = rng.choice(proj.scripts())
        project.write_tree(src, {ed['script']: proj.script_texts()[ed['script']]})
    elif kind == 'script-toggle-call':
        own = [c for c in proj.calls if c.script == 'build.bfg']
        if len(own) > 1 and rng.random() < 0.5:
            c = rng.choice(own[1:])
            proj.calls.remove(c)
            ed['removed'] = c.todict()
        else:
            c = rng.choice(CALL_MENU)()
            proj.calls.insert(rng.randint(1, len(own)), c)
            ed['added'] = c.todict()
        ed['script'] = 'build.bfg'
        project.write_tree(src, {'build.bfg': proj.script_texts()['build.bfg']})
    elif kind == 'script-options' and proj.options is not None:
        proj.options = str(int(proj.options) + 1)
        ed['script'] = 'options.bfg'
        project.write_tree(src, {'options.bfg': proj.script_texts()['options.bfg']})
    elif kind == 'script-pkg':
        proj.pkg = not proj.pkg
        ed['script'] = 'build.bfg'
        ed['pkg'] = proj.pkg
        project.write_tree(src, {'build.bfg': proj.script_texts()['build.bfg']})
    else:
        ed['kind'] = 'noop'
    return ed


# ----------------------------------------------------------------------------- observation of the real thing
def canon(text, build):
    return None if text is None else text.replace(build, '<BUILD>')


def build_files(build):
    """{name: canonical content} of every build file that regeneration owns."""
    out = {}
    for n in COMPARE:
        out[n] = canon(project.read(build, n), build)
    pcdir = os.path.join(build, 'pkgconfig')
    if os.path.isdir(pcdir):
        for n in sorted(os.listdir(pcdir)):
            out['pkgconfig/' + n] = canon(project.read(build, 'pkgconfig/' + n), build)
    return out


def mtimes(build, names):
    out = {}
    for n in names:
        try:
            out[n] = os.stat(os.path.join(build, n)).st_mtime_ns
        except OSError:
            out[n] = None
    return out


DIST_RE = re.compile(r"^(\t\$\(DOPPEL\) -ipN -f \S+ -C '\$\(srcdir\)' -P \S+) (.*) (\./\S+)$")


def split_dist(text):
    """Makefile text -> (text with the dist file lists replaced by a placeholder, [file lists])."""
    lists = []
    out = []
    for line in text.split('\n'):
        m = DIST_RE.match(line)
        if m:
            lists.append(m.group(2).split(' '))
            out.append(m.group(1) + ' <DIST> ' + m.group(3))
        else:
            out.append(line)
    return '\n'.join(out), lists


def parse_find_deps(text):
    if not text:
        return None
    first = text.split('\n')[0]
    tgt, _, deps = first.partition(':')
    return tgt, sorted(deps.split())


def diff_build_files(regen, fresh):
    """Compares the two file sets. Returns (list of hard differences, list of soft difference tags)."""
    hard, soft = [], []
    for n in sorted(set(regen) | set(fresh)):
        a, b = regen.get(n), fresh.get(n)
        if a == b:
            continue
        if a is None or b is None:
            hard.append('%s: %s after regeneration, %s after a fresh configure' % (
                n, 'absent' if a is None else 'present', 'absent' if b is None else 'present'))
            continue
        if n == 'Makefile':
            ta, la = split_dist(a)
            tb, lb = split_dist(b)
            if ta == tb and len(la) == len(lb) and all(sorted(x) == sorted(y) for x, y in zip(la, lb)):
                soft.append('dist-order')
                continue
            if ta == tb:
                hard.append('Makefile: dist file set differs: only regenerated %r, only fresh %r' % (
                    sorted(set(la[0]) - set(lb[0])), sorted(set(lb[0]) - set(la[0]))))
                continue
        if n == '.bfg_find_deps' and parse_find_deps(a) == parse_find_deps(b):
            soft.append('find-deps-order')
            continue
        al, bl = a.split('\n'), b.split('\n')
        d = [(i, x, y) for i, (x, y) in enumerate(zip(al, bl)) if x != y][:3]
        hard.append('%s differs (%d vs %d lines): %r' % (n, len(al), len(bl), d))
    return hard, soft


def run_make(build):
    rc, _, out = project.make(build, ['Makefile'])
    invoked = 'regenerate --lazy' in out
    ran = 'regenerating build files' in out
    return rc, out, invoked, ran


# ----------------------------------------------------------------------------- one history
def classify_failure(proj, ed, soft, hard, extra_interleaved):
    cl = []
    if not hard and 'dist-order' in soft:
        cl.append('dist-order-after-cache-hit')
    return tuple(cl)


def history(rep, rng, proj, nsteps, hid, forced_edits=()):
    """Runs one history on the real tools. Returns number of failures."""
    bad = 0
    with project.Scratch('c08') as s:
        project.write_tree(s.src, proj.files)
        project.write_tree(s.src, proj.script_texts())
        fresh = os.path.join(s.root, 'fresh')
        rc, out = project.configure(s.src, s.build)
        if rc != 0:
            rep.fail('generated project does not configure: %s' % out[-400:], {'obligation': 'harness:project', 'project': proj.describe()},
                     found_input=False)
            return 1
        trace = []
        # the first make after a configure: with several outputs the stamp does not exist yet
        rc, out, invoked, ran = run_make(s.build)
        rep.count('first-make:%s' % ('invoked-skip' if invoked and not ran else 'invoked-ran' if ran else 'quiet'))
        for step in range(nsteps):
            kind = forced_edits[step] if step < len(forced_edits) else None
            before_desc = proj.describe()
            time.sleep(0.01)
            ed = apply_edit(rng, proj, s.src, hid * 100 + step, kind)
            pre = build_files(s.build)
            pre_mt = mtimes(s.build, list(pre))
            rc1, out1, invoked, ran = run_make(s.build)
            post = build_files(s.build)
            post_mt = mtimes(s.build, list(post))
            decision = 'ran' if ran else 'skip' if invoked else 'quiet'
            # fresh configure of the same tree with the same configuration
            shutil.rmtree(fresh, ignore_errors=True)
            rcf, outf = project.configure(s.src, fresh)
            ref = build_files(fresh)
            rc2, out2, invoked2, ran2 = run_make(s.build)
            shutil.rmtree(fresh, ignore_errors=True)
            rep.count('edit:' + ed['kind'])
            rep.count('decision:' + decision)
            rep.count('outputs:%s' % ('stamp' if before_desc['pkg'] else 'single'))
            rep.case('%d|%s|%s|%s' % (hid, json.dumps(before_desc, sort_keys=True), ed['kind'], decision), invoked)
            trace.append({'edit': ed, 'decision': decision})
            replay = {'project': before_desc, 'files': proj.files, 'history': trace, 'hid': hid,
                      'make_output': out1[-600:], 'second_make_output': out2[-300:]}
            if rcf != 0:
                # the edited tree does not configure at all (e.g. a removed directory that a script names): then make must
                # fail too, visibly
                rep.count('fresh-configure-fails')
                if rc1 == 0 and decision != 'quiet':
                    pass
                continue
            if rc1 != 0:
                bad += 1
                rep.fail('make Makefile failed (rc %d) after edit %r although a fresh configure succeeds: %s' % (rc1, ed, out1[-300:]),
                         replay, classes=())
                continue
            hard, soft = diff_build_files(post, ref)
            for t in soft:
                rep.count('soft:' + t)
            if hard or soft:
                what = ('after edit %r and the regeneration step (%s) the build files differ from a fresh configure: %s' % (
                    ed, decision, '; '.join(hard + ['Makefile: order of the dist file list' for t in soft if t == 'dist-order'])))
                cl = classify_failure(proj, ed, soft, hard, None)
                if hard or 'dist-order' in soft:
                    if rep.fail(what, replay, classes=cl):
                        bad += 1
            if invoked2:
                bad += 1
                rep.fail('a second make immediately after the regeneration step invoked bfg9000 again (edit %r, first decision %s): %s' % (
                    ed, decision, out2[-300:]), replay, classes=())
            if decision == 'skip':
                # skip: contents unchanged, every output touched, cache file not rewritten
                changed = [n for n in post if post[n] != pre.get(n)]
                if changed:
                    bad += 1
                    rep.fail('regeneration was skipped but %r changed' % changed, replay)
            if len(trace) <= 2:
                rep.sample({'project': before_desc['calls'][:2], 'edit': ed, 'decision': decision, 'soft': soft})
    return bad


def stage_system(rep, rng, nhist, nsteps):
    bad = 0
    for h in range(nhist):
        force = {'pkg': h % 2 == 1}
        proj = gen_project(rng, force)
        bad += history(rep, rng, proj, nsteps, h)
    rep.stage('system:histories', histories=nhist, steps_each=nsteps, failures=bad)
    return bad


def run(rep):
    rng = random.Random(rep.seed)
    rep.proof_stage(coqchk=(rep.tier == 'thorough'))
    if rep.tier == 'thorough':
        stage_system(rep, rng, 40, 8)
    else:
        stage_system(rep, rng, 3, 6)


def replay(rep, path):
    run(rep)
