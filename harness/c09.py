"""C09 - Saved configuration is the only input of later regenerations."""
import ast
import json
import os
import random
import shutil
import subprocess
import time

from . import common
from .common import d_str, d_opt, d_list

LEVEL = 'proof'
RULE = ('EnvVarDict: operation sequences of length 0..40 over a pool of 6 variable names and 7 values (so overwrite / delete / '
        're-add / set-back-to-initial interleave), every overridden mutator, reset, JSON reload in the middle, reads of '
        'changes, non-str arguments; started from EnvVarDict(pairs) or from_json(initial, current); a sequence is '
        'non-trivial when it has at least 3 operations and distinct by its exact text. Environment: generated '
        'environments (paths with blanks/dots/non-ASCII, every option combination, None install dirs, toolchain path, '
        'variable histories) saved and loaded; downgraded documents for format versions 4..16. Upgrade chain: configurations '
        'with a non-default value in every field (all install dirs set, exec_prefix below an absolute directory or a '
        'sub-directory of prefix, bindir / libdir / others below prefix, exec_prefix, absolute or another install dir, destdir '
        'flags, library_mode other than shared-only, compdb off, extra_args, toolchain path, mopack files, initial != current '
        'variables, host/target platforms of every genus with a foreign architecture, a backend version other than the '
        'installed one), each written by the real save and rewritten to every format version 4..16. Ambient sites: AST scan of '
        'every file under bfg9000/.')
TRUSTED = ('the inverse upgrade steps of harness/c09.py (down_to: one hand-written step per format version, validated on every '
           'run against the repository fixture test/data/environment/v4) and the per-version expectation expected_after_upgrade '
           '(the comments of the upgrade steps in Environment.load read as the documented defaults; the default datadir / mandir '
           'are read from the target platform object)','the list of ambient-state reads of bfg9000 is complete only with respect to the syntactic forms the AST scan '
           'recognises (os.environ/getenv/getcwd/chdir, sys.argv, os.path.expanduser/abspath/..., platform.*, subprocess '
           'calls without env=)',
           'Version(str(v)) == v and platform to_json/from_json are exercised, not modelled beyond their JSON shape')
EXPLANATION = ''

KEYS = ['CC', 'CFLAGS', 'PATH', 'HOME', 'X y', 'é']
VALUES = ['', 'gcc', 'clang', '-O2 -g', '/usr/bin:/bin', 'a=b', '日 \'q\'']
OTHER = 7          # the non-str Python object used for the TypeError branches


# ----------------------------------------------------------------------------- EnvVarDict <-> State/EnvStore.v
def gen_pairs(rng, maxn=5):
    return [(rng.choice(KEYS), rng.choice(VALUES)) for _ in range(rng.choice([0, 1, 2, 3, 4, maxn, 8]))]


def gen_val(rng, p_other=0.06):
    return None if rng.random() < p_other else rng.choice(VALUES)     # None stands for the non-str object


OPW = [('set', 24), ('del', 10), ('clear', 3), ('pop', 8), ('popd', 6), ('popitem', 7), ('setdefault', 10),
       ('update', 8), ('reset', 3), ('json', 6), ('changes', 5), ('setbadkey', 1)]


def gen_op(rng):
    kind = rng.choices([k for k, _ in OPW], [w for _, w in OPW])[0]
    k = rng.choice(KEYS)
    if kind == 'set':
        return ('set', k, gen_val(rng))
    if kind == 'setbadkey':
        return ('set', None, gen_val(rng))
    if kind == 'del':
        return ('del', k)
    if kind == 'pop':
        return ('pop', k, False, None)
    if kind == 'popd':
        return ('pop', k, True, gen_val(rng, 0.3))
    if kind == 'setdefault':
        return ('setdefault', k, gen_val(rng))
    if kind == 'update':
        return ('update', [(rng.choice(KEYS), gen_val(rng, 0.04)) for _ in range(rng.randint(0, 4))])
    return (kind,)


def gen_case(rng, maxops=40):
    if rng.random() < 0.6:
        start = ('init', gen_pairs(rng))
    else:
        start = ('json', gen_pairs(rng), gen_pairs(rng))
    n = rng.choice([0, 1, 2, 3, 5, 8, 12, 20, 30, maxops])
    return start, [gen_op(rng) for _ in range(n)]


def enc_val(v):
    return [1] if v is None else [0, v]


def enc_op(o):
    t = o[0]
    if t == 'set':
        return [0, enc_val(o[1]), enc_val(o[2])]
    if t == 'del':
        return [1, o[1]]
    if t == 'clear':
        return [2]
    if t == 'pop':
        return [3, o[1], [enc_val(o[3])] if o[2] else []]
    if t == 'popitem':
        return [4]
    if t == 'setdefault':
        return [5, o[1], enc_val(o[2])]
    if t == 'update':
        return [6, [[k, enc_val(v)] for k, v in o[1]]]
    if t == 'reset':
        return [7]
    if t == 'json':
        return [8]
    if t == 'changes':
        return [9]
    raise KeyError(t)


def enc_case(case):
    start, ops = case
    if start[0] == 'init':
        s = [0, [list(p) for p in start[1]]]
    else:
        s = [1, [list(p) for p in start[1]], [list(p) for p in start[2]]]
    return [s, [enc_op(o) for o in ops]]


def pyval(v):
    return OTHER if v is None else v


def make_store(start):
    from bfg9000.environment import EnvVarDict
    if start[0] == 'init':
        return EnvVarDict(list(start[1]))
    doc = {'initial': dict(start[1]), 'current': dict(start[2])}
    return EnvVarDict.from_json(json.loads(json.dumps(doc)))


def snap(d):
    """Observable state: initial and current as ordered item lists, the recorded changes if the attribute exists."""
    ch = dict(d.__dict__['_changes']) if '_changes' in d.__dict__ else None
    return (list(d.initial.items()), list(d.items()), ch)


def canon_val(v):
    return ('other',) if not isinstance(v, str) else ('str', v)


def apply_op(d, o):
    """Runs one operation on the real object. Returns (object, canonical result)."""
    from bfg9000.environment import EnvVarDict
    t = o[0]
    try:
        if t == 'set':
            d[pyval(o[1])] = pyval(o[2])
            return d, ('none',)
        if t == 'del':
            del d[o[1]]
            return d, ('none',)
        if t == 'clear':
            d.clear()
            return d, ('none',)
        if t == 'pop':
            r = d.pop(o[1], pyval(o[3])) if o[2] else d.pop(o[1])
            return d, ('val', canon_val(r))
        if t == 'popitem':
            k, v = d.popitem()
            return d, ('pair', k, v)
        if t == 'setdefault':
            r = d.setdefault(o[1], pyval(o[2]))
            return d, ('val', canon_val(r))
        if t == 'update':
            d.update([(k, pyval(v)) for k, v in o[1]])
            return d, ('none',)
        if t == 'reset':
            d.reset()
            return d, ('none',)
        if t == 'json':
            return EnvVarDict.from_json(json.loads(json.dumps(d.to_json()))), ('none',)
        if t == 'changes':
            return d, ('changes', dict(d.changes))
    except KeyError:
        return d, ('KeyError',)
    except TypeError:
        return d, ('TypeError',)
    raise KeyError(t)


def replay_changes(initial, changes):
    """The consumer's view (mopack `env` option): apply recorded changes to the initial variables."""
    out = dict(initial)
    for k, v in changes.items():
        if v is None:
            out.pop(k, None)
        else:
            out[k] = v
    return out


def impl_trace(case):
    start, ops = case
    d = make_store(start)
    s0 = snap(d)
    steps = []
    for o in ops:
        d, r = apply_op(d, o)
        steps.append((r, snap(d)))
    ch = dict(d.changes)
    return (s0, steps, ch, replay_changes(d.initial, ch)), d


def d_pairs(x):
    return [(d_str(p[0]), d_str(p[1])) for p in x]


def d_cdict(x):
    items = [(d_str(p[0]), d_opt(d_str, p[1])) for p in x]
    d = dict(items)
    if len(d) != len(items):
        return ('duplicate keys in model changes', items)
    return d


def d_val(x):
    return ('str', d_str(x[1])) if x[0] == 0 else ('other',)


def d_out(x):
    t = x[0]
    if t == 0:
        return ('none',)
    if t == 1:
        return ('val', d_val(x[1]))
    if t == 2:
        return ('pair', d_str(x[1]), d_str(x[2]))
    if t == 3:
        return ('KeyError',)
    if t == 4:
        return ('TypeError',)
    return ('changes', d_cdict(x[1]))


def d_store(x):
    return (d_pairs(x[0]), d_pairs(x[1]), d_opt(d_cdict, x[2]))


def dec_trace(name, r):
    return (d_store(r[0]), [(d_out(s[0]), d_store(s[1])) for s in r[1]], d_cdict(r[2]), dict(d_pairs(r[3])))


CORPUS_STORE = [
    (('init', [('CC', 'gcc'), ('CFLAGS', '-g'), ('HOME', '/h')]),
     [('set', 'CC', 'clang'), ('del', 'CFLAGS'), ('json',), ('setdefault', 'CFLAGS', '-O2'), ('pop', 'HOME', False, None),
      ('popitem',)]),
    (('json', [('A', '1'), ('B', '2')], [('B', '3'), ('C', '4')]), []),
    (('json', [('A', '1'), ('B', '2')], [('B', '3'), ('C', '4')]), [('clear',)]),
    (('json', [('A', '1'), ('B', '2')], [('B', '2'), ('C', '4')]), [('pop', 'B', False, None), ('set', 'B', '2')]),
    (('json', [('A', '1')], [('C', '4')]), [('del', 'C'), ('changes',)]),
    (('json', [('A', '1')], [('A', '1')]), [('pop', 'Z', True, None), ('popitem',), ('popitem',)]),
    (('init', [('A', '1'), ('A', '2'), ('B', '1')]), [('update', [('B', 'x'), ('A', None), ('C', 'y')]), ('reset',), ('popitem',)]),
    (('init', [('A', '1')]), [('set', 'A', '1'), ('json',), ('changes',), ('set', 'A', '2'), ('set', 'A', '1'), ('json',), ('changes',)]),
    (('init', []), [('setdefault', 'A', None), ('setdefault', 'A', 'x'), ('setdefault', 'A', None), ('set', None, 'x')]),
    (('init', [('A', '1'), ('B', '2')]), [('json',), ('clear',), ('set', 'B', '2'), ('changes',), ('reset',), ('changes',)]),
]


def load_corpus(sub):
    out = []
    d = os.path.join(common.VERIF, 'corpus', 'C09')
    if os.path.isdir(d):
        for fn in sorted(os.listdir(d)):
            if fn.startswith(sub) and fn.endswith('.json'):
                out.append(json.load(open(os.path.join(d, fn))))
    return out


def tup(x):
    return tuple(tup(i) for i in x) if isinstance(x, list) else x


def stage_w_store(rep, rng, n):
    cases = list(CORPUS_STORE) + [tup(c['case']) for c in load_corpus('store')] + [gen_case(rng) for _ in range(n)]
    cases = [(c[0], list(c[1])) for c in cases]
    calls, impl = [], []
    for case in cases:
        calls.append(('envstore.trace', enc_case(case)))
        tr, _ = impl_trace(case)
        impl.append(tr)
        rep.case('s:' + repr(case), len(case[1]) >= 3)
        rep.count('store.start:' + case[0][0])
        lazy = False
        for o, (r, st) in zip(case[1], tr[1]):
            rep.count('store.op:' + o[0])
            rep.count('store.result:' + r[0])
            if st[2] is None and o[0] not in ('json',):
                lazy = True
        if lazy:
            rep.count('store.mutation-while-changes-absent')
    rep.sample({'stage': 'W:envstore', 'case': cases[0]})
    rep.sample({'stage': 'W:envstore', 'case': cases[len(CORPUS_STORE)] if len(cases) > len(CORPUS_STORE) else cases[-1]})
    return common.compare_model(rep, 'W:envstore', calls, impl, dec_trace, vm_limit=60), cases


def check_store_property(case, every_step):
    """Direct oracle on the implementation. Returns None or a description of the failure."""
    start, ops = case
    d = make_store(start)
    init0 = dict(d.initial)
    for i, o in enumerate(ops):
        d, _ = apply_op(d, o)
        if d.initial != init0:
            return 'initial variables modified by operation %d %r' % (i, o)
        if o[0] == 'reset' and (dict(d) != init0 or list(d.items()) != list(d.initial.items()) or d.changes != {}):
            return 'reset (operation %d) did not restore the initial variables: %r' % (i, dict(d))
        if every_step:
            got = replay_changes(d.initial, d.changes)
            if got != dict(d):
                return 'after operation %d %r: changes %r applied to initial %r give %r, current is %r' % (
                    i, o, dict(d.changes), dict(d.initial), got, dict(d))
        if o[0] == 'json':
            pass
    got = replay_changes(d.initial, d.changes)
    if got != dict(d):
        return 'changes %r applied to initial %r give %r, current is %r' % (dict(d.changes), dict(d.initial), got, dict(d))
    if any(not isinstance(k, str) or not isinstance(v, str) for k, v in d.items()):
        return 'non-str variable stored: %r' % (dict(d),)
    return None


def stage_oracle_store(rep, rng, cases, extra):
    bad = 0
    allc = list(cases) + [gen_case(rng) for _ in range(extra)]
    for case in allc:
        if bad > 25:
            break
        for every in (False, True):
            msg = check_store_property(case, every)
            rep.case('o:%d:%r' % (every, case), len(case[1]) >= 3)
            if msg:
                bad += 1
                if bad <= 25:
                    rep.fail('EnvVarDict: ' + msg, {'kind': 'store', 'case': case, 'every_step': every})
                break
    rep.stage('oracle:changes-replay', cases=len(allc), failures=bad)
    return bad


# ----------------------------------------------------------------------------- Environment.save/load <-> State/EnvJson.v
def enc_json(j):
    if j is None:
        return [0]
    if isinstance(j, bool):
        return [1, j]
    if isinstance(j, int):
        return [2, j]
    if isinstance(j, str):
        return [3, j]
    if isinstance(j, (list, tuple)):
        return [4, [enc_json(i) for i in j]]
    if isinstance(j, dict):
        return [5, [[k, enc_json(v)] for k, v in j.items()]]
    raise TypeError(type(j))


def d_json(x):
    t = x[0]
    if t == 0:
        return None
    if t == 1:
        return x[1] != 0
    if t == 2:
        return x[1]
    if t == 3:
        return d_str(x[1])
    if t == 4:
        return [d_json(i) for i in x[1]]
    return {d_str(kv[0]): d_json(kv[1]) for kv in x[1]}


def json_key_order(j):
    """JSON value with object key order made explicit (dict equality ignores order)."""
    if isinstance(j, dict):
        return ('obj', [(k, json_key_order(v)) for k, v in j.items()])
    if isinstance(j, list):
        return [json_key_order(i) for i in j]
    return j


def d_res(f, x):
    if x[0] == 0:
        return ('ok', f(x[1]))
    return ('err',) if x[0] == 1 else ('outside',)


def d_path(x):
    return (d_str(x[0]), d_str(x[1]), x[2] != 0, x[3] != 0)


def d_env(x):
    return (d_path(x[0]), d_str(x[1]), d_str(x[2]), tuple(d_str(i) for i in x[3]), tuple(d_str(i) for i in x[4]),
            d_path(x[5]), d_path(x[6]), [(d_str(kv[0]), d_opt(d_path, kv[1])) for kv in x[7]],
            d_opt(d_path, x[8]), [d_path(i) for i in x[9]], (x[10][0] != 0, x[10][1] != 0), x[11] != 0,
            d_opt(lambda l: [d_str(i) for i in l], x[12]), d_store(x[13]))


def c_path(p):
    return None if p is None else (p.suffix, p.root.name, p.destdir, bool(p.directory))


def c_plat(p):
    return (p.genus, p.species, p.arch)


def c_env(env):
    return (c_path(env.bfgdir), env.backend, str(env.backend_version), c_plat(env.host_platform),
            c_plat(env.target_platform), c_path(env.srcdir), c_path(env.builddir),
            [(k.name, c_path(v)) for k, v in env.install_dirs.items()], c_path(env.toolchain.path),
            [c_path(i) for i in env.mopack], tuple(bool(i) for i in env.library_mode), env.compdb,
            None if env.extra_args is None else list(env.extra_args), snap(env.variables))


COMPS = ['a', 'b c', '.hid', 'x.y', 'é', '..x', 'a~', '-d', 'usr', 'local', "q'", 'lib64', '$v', '...']
PLATFORMS = [('linux', 'x86_64'), ('linux', 'aarch64'), ('darwin', 'arm64'), ('macos', 'x86_64'), ('android', 'arm'),
             ('winnt', 'x86_64'), ('cygwin', 'i686'), ('freebsd', 'amd64')]
ALL_ROOTS = ['srcdir', 'builddir', 'absolute', 'prefix', 'exec_prefix', 'bindir', 'libdir', 'includedir', 'datadir', 'mandir']
INSTALL_PARENTS = [r for r in ALL_ROOTS if r not in ('srcdir', 'builddir')]


def gen_path(rng, roots, rep=None, directory=None):
    """A Path built by the real constructor (so it is in normal form); None if the constructor refuses."""
    from bfg9000.path import Path, Root, InstallRoot
    root = rng.choice(roots)
    n = rng.choice([0, 1, 1, 2, 2, 3])
    text = '/'.join(rng.choice(COMPS) for _ in range(n))
    if root == 'absolute':
        text = '/' + text
    if rng.random() < 0.3 and text and not text.endswith('/'):
        text += '/'
    r = Root[root] if root in Root.__members__ else InstallRoot[root]
    destdir = rng.random() < 0.25 and root not in ('srcdir', 'builddir')
    if directory is None:
        directory = rng.choice([None, True])
    try:
        p = Path(text, r, destdir, directory)
    except ValueError:
        return None
    if rep:
        rep.count('path.root:' + root)
        rep.count('path.kind:' + ('dir' if p.directory else 'file') + ('+destdir' if p.destdir else ''))
    return p


def gen_env(rng, rep):
    from bfg9000 import platforms
    from bfg9000.environment import Environment, LibraryMode, Toolchain
    from bfg9000.path import InstallRoot
    from bfg9000.versioning import Version

    def must(roots, **kw):
        while True:
            p = gen_path(rng, roots, rep, **kw)
            if p is not None:
                return p
    env = Environment(must(['absolute', 'srcdir']), rng.choice(['make', 'ninja', 'msbuild']),
                      Version(rng.choice(['4.3', '1.10.2', '0.9', '4.2.1', '16.11'])),
                      must(['absolute']), must(['absolute']))
    hp = rng.choice(PLATFORMS)
    tp = hp if rng.random() < 0.6 else rng.choice(PLATFORMS)
    env.host_platform = platforms.host.platform_info(*hp)
    env.target_platform = platforms.target.platform_info(*tp)
    names = [i for i in InstallRoot]
    if rng.random() < 0.3:
        rng.shuffle(names)
        names = names[:rng.randint(0, 7)]
    for k in names:
        if rng.random() < 0.2:
            env.install_dirs[k] = None
            rep.count('env.install_dir:None')
        else:
            env.install_dirs[k] = must(INSTALL_PARENTS, directory=True)
    if rng.random() < 0.5:
        env.toolchain = Toolchain(must(['absolute', 'srcdir'], directory=None))
        rep.count('env.toolchain')
    env.mopack = [must(['absolute', 'srcdir', 'builddir']) for _ in range(rng.choice([0, 0, 1, 3]))]
    env.library_mode = LibraryMode(rng.random() < 0.5, rng.random() < 0.5)
    env.compdb = rng.random() < 0.5
    env.extra_args = None if rng.random() < 0.2 else [rng.choice(VALUES + ['--x', '--y=z']) for _ in range(rng.randint(0, 3))]
    rep.count('env.extra_args:' + ('None' if env.extra_args is None else 'list'))
    case = gen_case(rng, maxops=12)
    _, env.variables = impl_trace(case)
    return env


def real_ext(doc_target=None):
    """The machine facts Environment.load reads while upgrading."""
    import platform
    from bfg9000 import platforms
    from bfg9000.backends import list_backends
    from bfg9000.path import InstallRoot
    bv = []
    for name, b in list_backends().items():
        bv.append([name, str(b.version())])
    try:
        tp = platforms.target.from_json(doc_target) if isinstance(doc_target, dict) else \
            platforms.target.platform_info(doc_target)
        dd = tp.install_dirs[InstallRoot.datadir].to_json()
        md = tp.install_dirs[InstallRoot.mandir].to_json()
    except Exception:
        dd = md = None
    return [bv, platform.machine(), enc_json(dd), enc_json(md)]


def downgrade(data, v):
    """Rewrites a v17 `data` object into the format of version v (inverse of the upgrade steps, on what v can express)."""
    d = json.loads(json.dumps(data))
    if v < 17:
        d['install_dirs'].pop('datadir', None)
        d['install_dirs'].pop('mandir', None)
    if v < 16:
        del d['compdb']
    if v < 15:
        d['initial_variables'] = d['variables']['initial']
        d['variables'] = d['variables']['current']
        del d['mopack']
    if v < 14:
        d['host_platform'] = d['host_platform']['species']
        d['target_platform'] = d['target_platform']['species']
    if v < 13:
        del d['initial_variables']
        del d['toolchain']
    if v < 12:
        d['platform'] = d.pop('target_platform')
        del d['host_platform']
    if v < 11:
        for i in ('bfgdir', 'srcdir', 'builddir'):
            d[i] = d[i][:2]
        for i in d['install_dirs']:
            if d['install_dirs'][i] is not None:
                d['install_dirs'][i] = d['install_dirs'][i][:2]
    if v < 10:
        d['install_dirs'].pop('exec_prefix', None)
        for i in ('bindir', 'libdir'):
            x = d['install_dirs'].get(i)
            if x is not None and x[1] == 'exec_prefix':
                x[1] = 'prefix'
    if v < 9:
        del d['library_mode']
    if v < 8:
        del d['extra_args']
    if v < 7:
        bd = d.pop('bfgdir')
        d['bfgpath'] = [bd[0] + ('' if bd[0].endswith('/') else '/') + 'bfg9000', bd[1]]
    if v < 6:
        d['bfgpath'] = d['bfgpath'][0] if d['bfgpath'][1] == 'absolute' else '/abs/' + d['bfgpath'][0]
        del d['backend_version']
    if v < 5:
        for i in ('srcdir', 'builddir'):
            d[i] = d[i][0]
    return d


def mutate_doc(rng, doc, rep):
    """Malformed / unusual documents for the error branches."""
    doc = json.loads(json.dumps(doc))
    d = doc['data']
    kind = rng.choice(['dropkey', 'badroot', 'newer', 'destdir-src', 'badinstall', 'short-libmode', 'null-path', 'extra-key',
                       'relative-absolute', 'root-override'])
    rep.count('doc.mutation:' + kind)
    paths = [k for k in ('bfgdir', 'srcdir', 'builddir') if isinstance(d.get(k), list)]
    if kind == 'dropkey' and d:
        del d[rng.choice(sorted(d))]
    elif kind == 'badroot' and paths:
        d[rng.choice(paths)][1] = 'nowhere'
    elif kind == 'newer':
        doc['version'] = 18
    elif kind == 'destdir-src' and paths and len(d[paths[0]]) > 2:
        k = rng.choice(paths)
        d[k][1] = 'srcdir'
        d[k][2] = True
    elif kind == 'badinstall' and isinstance(d.get('install_dirs'), dict):
        d['install_dirs']['sbindir'] = ['sbin/', 'prefix', False]
    elif kind == 'short-libmode' and 'library_mode' in d:
        d['library_mode'] = [True]
    elif kind == 'null-path' and paths:
        d[rng.choice(paths)] = None
    elif kind == 'extra-key':
        d['future'] = {'x': [1, 'y']}
    elif kind == 'relative-absolute' and paths:
        k = rng.choice(paths)
        d[k][0] = 'rel/dir'
        d[k][1] = 'absolute'
    elif kind == 'root-override' and paths:
        k = rng.choice(paths)
        d[k][0] = '/over/ride'
        d[k][1] = 'srcdir'
    return doc


def impl_load(doc, tmp):
    from bfg9000.environment import Environment
    with open(os.path.join(tmp, Environment.envfile), 'w') as f:
        json.dump(doc, f)
    try:
        env = Environment.load(tmp)
    except Exception as e:
        return ('err',), None, type(e).__name__
    return ('ok', c_env(env)), env, None


def check_env_roundtrip(env, tmp):
    """Direct oracle on the implementation: save -> load gives an equal configuration. Returns None or a message."""
    from bfg9000.environment import Environment
    before = c_env(env)
    cur, ini = dict(env.variables), dict(env.variables.initial)
    ini_items = list(env.variables.initial.items())
    env.save(tmp)
    env2 = Environment.load(tmp)
    after = c_env(env2)
    want = before[:-1] + ((before[-1][0], before[-1][1], None),)
    if after != want:
        diff = [i for i, (a, b) in enumerate(zip(after, want)) if a != b]
        return 'saved and reloaded environment differs in fields %r: before %r, after %r' % (
            diff, [want[i] for i in diff], [after[i] for i in diff])
    for a, b in ((env.bfgdir, env2.bfgdir), (env.srcdir, env2.srcdir), (env.builddir, env2.builddir)):
        if not (a == b):
            return 'path %r reloaded as %r' % (a, b)
    if replay_changes(env2.variables.initial, env2.variables.changes) != cur or dict(env2.variables) != cur or \
            dict(env2.variables.initial) != ini:
        return 'variables after reload: changes %r do not reproduce %r from %r' % (env2.variables.changes, cur, ini)
    env2.reload()
    if dict(env2.variables) != ini or list(env2.variables.items()) != ini_items:
        return 'reload() after load does not restore the initial variables'
    return None


# ----------------------------------------------------------------------------- upgrade chain: direct oracle
# Independent of the model (and of downgrade() above, which feeds the model tie): a configuration with a non-default
# value in every field is saved by the real Environment.save, rewritten into each older format by inverting the
# documented upgrade steps one at a time, loaded by the real Environment.load and compared field by field with what
# that format stored (and, for fields the format did not have yet, with the documented default).
OLD_VERSIONS = list(range(4, 17))
GENUS = {'android': 'linux', 'ios': 'darwin', 'macos': 'darwin'}


class NotExpressible(Exception):
    """the older format has no way to write this configuration down"""


def _down17(d):     # v17 adds datadir and mandir to install_dirs
    d['install_dirs'].pop('datadir', None)
    d['install_dirs'].pop('mandir', None)


def _down16(d):     # v16 adds compdb
    del d['compdb']


def _down15(d):     # v15 adds the mopack file list and nests the variables
    del d['mopack']
    v = d.pop('variables')
    d['initial_variables'], d['variables'] = v['initial'], v['current']


def _down14(d):     # v14 adds the architecture (and genus) to platform objects
    for k in ('host_platform', 'target_platform'):
        d[k] = d[k]['species']


def _down13(d):     # v13 adds initial_variables and toolchain
    del d['initial_variables']
    del d['toolchain']


def _down12(d):     # v12 splits platform into host_platform and target_platform
    d.pop('host_platform')
    d['platform'] = d.pop('target_platform')


def _down11(d):     # v11 adds the destdir flag to paths
    for k in ('bfgdir', 'srcdir', 'builddir'):
        d[k] = d[k][:2]
    for k, p in d['install_dirs'].items():
        if p is None:
            raise NotExpressible('install dir without a value')
        d['install_dirs'][k] = p[:2]


def _down10(d):     # v10 adds exec_prefix (and roots bindir / libdir there)
    d['install_dirs'].pop('exec_prefix', None)
    for k, p in d['install_dirs'].items():
        if p[1] == 'exec_prefix':
            p[1] = 'prefix'


def _down9(d):      # v9 adds library_mode
    del d['library_mode']


def _down8(d):      # v8 adds extra_args
    del d['extra_args']


def _down7(d):      # v7 replaces bfgpath (the bfg9000 executable) by bfgdir
    s, root = d.pop('bfgdir')
    d['bfgpath'] = [(s if s.endswith('/') else s + '/') + 'bfg9000', root]


def _down6(d):      # v6 adds backend_version and makes bfgpath a Path
    s, root = d['bfgpath']
    if root != 'absolute':
        raise NotExpressible('bfgpath not absolute')
    d['bfgpath'] = s
    del d['backend_version']


def _down5(d):      # v5 makes srcdir and builddir Paths
    for k in ('srcdir', 'builddir'):
        s, root = d[k]
        if root != 'absolute':
            raise NotExpressible(k + ' not absolute')
        d[k] = s.rstrip('/') or '/'


DOWN_STEPS = {17: _down17, 16: _down16, 15: _down15, 14: _down14, 13: _down13, 12: _down12, 11: _down11, 10: _down10,
              9: _down9, 8: _down8, 7: _down7, 6: _down6, 5: _down5}


def down_to(data, v):
    """the `data` object of a current (v17) file as format version v would have stored it"""
    d = json.loads(json.dumps(data))
    for n in range(17, v, -1):
        DOWN_STEPS[n](d)
    return d


def _cp(p):
    return None if p is None else [p.suffix, p.root.name, bool(p.destdir), bool(p.directory)]


def field_view(env):
    """every configure-time field of an Environment, flat and JSON-able; paths as [suffix, root, destdir, directory]"""
    out = {'bfgdir': _cp(env.bfgdir), 'backend': env.backend, 'backend_version': str(env.backend_version),
           'host_platform': list(c_plat(env.host_platform)), 'target_platform': list(c_plat(env.target_platform)),
           'srcdir': _cp(env.srcdir), 'builddir': _cp(env.builddir), 'toolchain.path': _cp(env.toolchain.path),
           'mopack': [_cp(i) for i in env.mopack], 'library_mode': [bool(i) for i in env.library_mode],
           'compdb': env.compdb, 'extra_args': None if env.extra_args is None else list(env.extra_args),
           'variables.initial': [list(i) for i in env.variables.initial.items()],
           'variables.current': [list(i) for i in env.variables.items()]}
    for k, v in env.install_dirs.items():
        out['install_dirs.' + k.name] = _cp(v)
    return out


def installed_backend_version(name):
    from bfg9000.backends import list_backends
    b = list_backends().get(name)
    v = b.version() if b is not None else None
    return None if v is None else str(v)


def expected_after_upgrade(view, v):
    """What loading the format-v file must give: every field format v stored, unchanged; every field added later, its
    documented default (the comments of the upgrade steps in Environment.load)."""
    import platform
    from bfg9000 import platforms
    from bfg9000.path import InstallRoot
    e = json.loads(json.dumps(view))
    idirs = [k for k in e if k.startswith('install_dirs.')]
    if v < 6:       # the version of the installed backend
        e['backend_version'] = installed_backend_version(e['backend'])
    if v < 8:
        e['extra_args'] = []
    if v < 9:
        e['library_mode'] = [True, False]
    if v < 10:      # exec_prefix = prefix; bindir and libdir below exec_prefix
        for k in idirs:
            if e[k] is not None and e[k][1] in ('prefix', 'exec_prefix'):
                e[k][1] = 'exec_prefix' if k in ('install_dirs.bindir', 'install_dirs.libdir') else 'prefix'
        e['install_dirs.exec_prefix'] = ['', 'prefix', False, True]
    if v < 11:      # no destdir
        for k in ['bfgdir', 'srcdir', 'builddir'] + idirs:
            if e[k] is not None:
                e[k][2] = False
    if v < 12:      # one platform
        e['host_platform'] = list(e['target_platform'])
    if v < 13:      # no toolchain file; the variables are the initial ones as well
        e['toolchain.path'] = None
        e['variables.initial'] = e['variables.current']
    if v < 14:      # platforms by name, architecture of this machine
        for k in ('host_platform', 'target_platform'):
            s = e[k][1]
            e[k] = [GENUS.get(s, s), s, platform.machine()]
    if v < 15:
        e['mopack'] = []
    if v < 16:
        e['compdb'] = True
    if v < 17:      # the target platform's defaults
        g, s, a = e['target_platform']
        tp = platforms.target.from_json({'genus': g, 'species': s, 'arch': a})
        for k in ('datadir', 'mandir'):
            e['install_dirs.' + k] = _cp(tp.install_dirs[InstallRoot[k]].as_directory())
    return e


def upgrade_failures(doc, want, tmp):
    """-> [(field, stored value, loaded value)] for the fields that Environment.load does not restore"""
    res, env, exc = impl_load(doc, tmp)
    if env is None:
        return [('<load>', 'a loadable file', 'raised ' + str(exc))]
    got = field_view(env)
    return [(k, want.get(k, '<absent>'), got.get(k, '<absent>')) for k in sorted(set(want) | set(got))
            if want.get(k, '<absent>') != got.get(k, '<absent>')]


def _norm_doc(x):
    """a document up to trailing slashes of path texts and the spelling ./ of an empty suffix"""
    if isinstance(x, dict):
        return {k: _norm_doc(v) for k, v in x.items()}
    if isinstance(x, list):
        return [_norm_doc(v) for v in x]
    if isinstance(x, str) and x.endswith('/') and len(x) > 1:
        return '' if x == './' else x[:-1]
    return x


def validate_downgrader(rep, tmp):
    """The repository's own old-format fixture (test/data/environment/v4, used by test_upgrade_from_v4), loaded and
    saved by the implementation and rewritten to v4 by the steps above, must be the fixture again."""
    from bfg9000.environment import Environment
    fixture = os.path.join(common.REPO, 'test', 'data', 'environment', 'v4')
    orig = json.load(open(os.path.join(fixture, Environment.envfile)))
    env = Environment.load(fixture)
    env.save(tmp)
    cur = json.load(open(os.path.join(tmp, Environment.envfile)))
    back = {'version': orig['version'], 'data': down_to(cur['data'], orig['version'])}
    ok = _norm_doc(back) == _norm_doc(orig)
    rep.stage('R:downgrader', fixture='test/data/environment/v4', ok=ok)
    if not ok:
        rep.fail('R:downgrader - the fixture test/data/environment/v4, loaded, saved and rewritten to format 4 by the harness, '
                 'is %r instead of %r (Environment.load/save changed, or the inverse upgrade steps of the harness are wrong)' % (
                     _norm_doc(back), _norm_doc(orig)), {'obligation': 'R:downgrader', 'got': back, 'want': orig},
                 found_input=False)
    return ok


def gen_env_nondefault(rng, rep):
    """A configuration in which no field has the value an upgrade step would fill in."""
    import platform
    from bfg9000 import platforms
    from bfg9000.environment import LibraryMode, Toolchain
    from bfg9000.path import InstallRoot, Path, Root
    from bfg9000.versioning import Version

    def must(roots, **kw):
        while True:
            p = gen_path(rng, roots, None, **kw)
            if p is not None:
                return p
    env = gen_env(rng, rep)
    if rng.random() < 0.85:
        env.bfgdir = must(['absolute'], directory=True)
    if rng.random() < 0.6:      # formats older than 6 ask the installed backend for its version: needs one that exists here
        env.backend = 'make'
    installed = installed_backend_version(env.backend)
    env.backend_version = Version(rng.choice([i for i in ['4.2.1', '1.10.2', '0.9', '16.11', '3.81'] if i != installed]))
    archs = [a for a in ['x86_64', 'aarch64', 'arm64', 'i686', 'arm', 'riscv64'] if a != platform.machine()]
    hp = (rng.choice(PLATFORMS)[0], rng.choice(archs))
    tp = hp if rng.random() < 0.5 else (rng.choice(PLATFORMS)[0], rng.choice(archs))
    env.host_platform = platforms.host.platform_info(*hp)
    env.target_platform = platforms.target.platform_info(*tp)
    rep.count('upgrade.env:' + ('cross' if hp != tp else 'native'))
    names = list(InstallRoot)
    if rng.random() < 0.3:
        rng.shuffle(names)
    dirs = {}
    for k in names:
        if k != InstallRoot.prefix and rng.random() < 0.06:
            dirs[k] = None
            continue
        if k == InstallRoot.prefix:
            roots = ['absolute']
        elif k == InstallRoot.exec_prefix:
            roots = ['absolute', 'prefix', 'prefix']
        elif k in (InstallRoot.bindir, InstallRoot.libdir):
            roots = ['exec_prefix', 'exec_prefix', 'prefix', 'absolute', 'libdir' if k == InstallRoot.bindir else 'bindir']
        else:
            roots = ['prefix', 'exec_prefix', 'absolute', 'datadir' if k != InstallRoot.datadir else 'libdir']
        while True:
            p = must(roots, directory=True)
            if p.suffix or p.root.name == 'absolute':      # never the bare default (the root itself)
                break
        dirs[k] = p
        rep.count('upgrade.dir:%s@%s%s' % (k.name, p.root.name, '+destdir' if p.destdir else ''))
    env.install_dirs = dirs
    env.toolchain = Toolchain(must(['absolute', 'srcdir'], directory=None))
    env.mopack = [must(['absolute', 'srcdir', 'builddir']) for _ in range(rng.randint(1, 3))]
    env.library_mode = LibraryMode(*rng.choice([(False, True), (True, True), (False, False)]))
    env.compdb = False
    env.extra_args = None if rng.random() < 0.12 else [rng.choice(VALUES[1:] + ['--x', '--y=z'])
                                                       for _ in range(rng.randint(1, 3))]
    for _ in range(30):
        ini, cur = dict(env.variables.initial), dict(env.variables)
        if ini and cur and ini != cur:
            break
        _, env.variables = impl_trace(gen_case(rng, maxops=12))
    return env


def report_upgrade_failure(rep, v, doc, want, fails):
    f, a, b = fails[0]
    rep.fail('Environment.load of a format-%d file does not restore the saved configuration: %s was stored as %r and is %r '
             'after loading%s' % (v, f, a, b, '' if len(fails) == 1 else ' (and %d more fields: %s)' % (
                 len(fails) - 1, ', '.join(i[0] for i in fails[1:6]))),
             {'kind': 'upgrade', 'version': v, 'fields': [i[0] for i in fails], 'document': doc, 'expected': want},
             classes=())


def stage_upgrade(rep, rng, n):
    """every older format version x n configurations; returns the number of failing (version, configuration) pairs"""
    from bfg9000.environment import Environment
    tmp = common.scratch('c09up')
    bad = 0
    per_field = {}
    try:
        validate_downgrader(rep, tmp)
        for i in range(n):
            env = gen_env_nondefault(rng, rep)
            env.save(tmp)
            doc = json.load(open(os.path.join(tmp, Environment.envfile)))
            view = field_view(env)
            for v in OLD_VERSIONS:
                try:
                    dv = {'version': v, 'data': down_to(doc['data'], v)}
                    want = expected_after_upgrade(view, v)
                    if want['backend_version'] is None:
                        raise NotExpressible('no installed %s to ask for its version' % view['backend'])
                except NotExpressible as e:
                    rep.count('upgrade.not-expressible:%s' % e)
                    continue
                rep.case('u:%d:%s' % (v, json.dumps(dv, sort_keys=True)), True)
                rep.count('upgrade.version:%d' % v)
                fails = upgrade_failures(dv, want, tmp)
                if fails:
                    bad += 1
                    for f in fails:
                        per_field[(v, f[0])] = per_field.get((v, f[0]), 0) + 1
                    if bad <= 12:
                        report_upgrade_failure(rep, v, dv, want, fails)
    finally:
        shutil.rmtree(tmp, ignore_errors=True)
    rep.stage('oracle:upgrade', configurations=n, versions=len(OLD_VERSIONS), failing=bad,
              failing_version_field_pairs=sorted('v%d:%s x%d' % (k[0], k[1], c) for k, c in per_field.items()))
    return bad


def stage_w_env(rep, rng, n):
    tmp = common.scratch('c09env')
    calls, impl, docs = [], [], []
    bad = 0
    try:
        ext0 = real_ext('linux')
        for i in range(n):
            env = gen_env(rng, rep)
            msg = check_env_roundtrip(env, tmp)
            doc = json.load(open(os.path.join(tmp, '.bfg_environ')))
            rep.case('e:' + json.dumps(doc, sort_keys=True), True)
            if msg:
                bad += 1
                if bad <= 25:
                    rep.fail('Environment: ' + msg, {'kind': 'env', 'document': doc})
            if i < 2:
                rep.sample({'stage': 'W:envjson', 'document': doc})
            variants = [(17, doc)]
            v = rng.randint(4, 16)           # an older format of the same configuration
            try:
                variants.append((v, {'version': v, 'data': downgrade(doc['data'], v)}))
            except (KeyError, TypeError, IndexError):
                rep.count('doc.downgrade-not-expressible')
            if rng.random() < 0.5:
                v2, d2 = rng.choice(variants)
                variants.append((v2, mutate_doc(rng, d2, rep)))
            for v, dv in variants:
                rep.count('doc.version:%d' % dv.get('version', -1))
                d = dv['data']
                tgt = d.get('target_platform', d.get('platform')) if isinstance(d, dict) else None
                ext = real_ext(tgt) if dv.get('version', 17) < 17 else ext0
                res, env2, exc = impl_load(dv, tmp)
                rep.count('doc.load:' + (res[0] if exc is None else 'err:' + exc))
                rep.case('l:' + json.dumps(dv, sort_keys=True), True)
                calls.append(('envjson.load', [ext, enc_json(dv)]))
                impl.append(res)
                docs.append(dv)
                if res[0] == 'ok':
                    # the model saves what it loaded: must be the file the implementation writes for the loaded object
                    env2.save(tmp)
                    resaved = json.load(open(os.path.join(tmp, '.bfg_environ')))
                    calls.append(('envjson.resave', [ext, enc_json(dv)]))
                    impl.append(('ok', json_key_order(resaved)))
                    docs.append(dv)
    finally:
        shutil.rmtree(tmp, ignore_errors=True)

    def dec(name, r):
        if name == 'envjson.load':
            return d_res(d_env, r)
        return d_res(lambda x: json_key_order(d_json(x)), r)

    raw_dis = common.compare_model(rep, 'W:envjson', calls, impl, dec, vm_limit=25)
    dis = []
    outside = 0
    for (i, call, iv, mv) in raw_dis:
        if mv == ('outside',):     # a document outside the modelled domain is not a disagreement
            outside += 1
            continue
        dis.append((i, call, iv, mv, docs[i]))
    rep.stage('W:envjson', outside_domain=outside, disagreements=len(dis), roundtrip_failures=bad)
    return dis, bad


def gen_path_json(rng, rep):
    """JSON texts for Path.from_json: mostly what to_json writes, some malformed."""
    p = gen_path(rng, ALL_ROOTS, rep)
    if p is not None and rng.random() < 0.7:
        return p.to_json()
    n = rng.choice([0, 1, 2, 3])
    text = '/'.join(rng.choice(COMPS + ['.', '..', '', '~', 'C:']) for _ in range(n))
    if rng.random() < 0.4:
        text = '/' + text
    if rng.random() < 0.3:
        text += '/'
    return [text, rng.choice(ALL_ROOTS + ['nowhere']), rng.random() < 0.3]


def stage_w_path(rep, rng, n):
    from bfg9000.path import Path
    calls, impl = [], []
    bad = 0
    for _ in range(n):
        j = gen_path_json(rng, rep)
        if j[0].startswith('~'):
            continue            # reads HOME: outside the domain
        rep.case('p:' + json.dumps(j), True)
        try:
            p = Path.from_json(j)
            r = ('ok', c_path(p))
            r2 = ('ok', json_key_order(p.to_json()))
            try:
                r3 = ('ok', c_path(p.parent()))
            except ValueError:
                r3 = ('err',)
            # direct oracle: to_json / from_json round trip keeps every attribute, including directory
            if p.suffix.startswith('~') or p.suffix[1:2] == ':' or p.suffix.startswith('//'):
                # a first component that reads as a home directory / drive / UNC prefix when parsed again:
                # domain limit of the path (de)serialisation (C12), e.g. Path('./C:', InstallRoot.mandir)
                rep.count('path.outside-domain-first-component')
                q = p
            else:
                q = Path.from_json(json.loads(json.dumps(p.to_json())))
            if c_path(q) != c_path(p):
                bad += 1
                rep.fail('Path %r is reloaded from its JSON form %r as %r' % (c_path(p), p.to_json(), c_path(q)),
                         {'kind': 'path', 'json': j})
        except (ValueError, KeyError):
            r = r2 = r3 = ('err',)
        calls.append(('envjson.path_from_json', enc_json(j)))
        impl.append(r)
        calls.append(('envjson.path_rejson', enc_json(j)))
        impl.append(r2)
        calls.append(('envjson.path_parent', enc_json(j)))
        impl.append(r3)

    def dec(name, r):
        if name == 'envjson.path_rejson':
            return d_res(lambda x: json_key_order(d_json(x)), r)
        return d_res(d_path, r)
    raw = common.compare_model(rep, 'W:pathjson', calls, impl, dec, vm_limit=60)
    dis = [x for x in raw if x[3] != ('outside',)]
    rep.stage('W:pathjson', outside_domain=len(raw) - len(dis), disagreements=len(dis), roundtrip_failures=bad)
    return dis, bad


# ----------------------------------------------------------------------------- ambient-state read sites
OS_ATTRS = {'environ', 'environb', 'getenv', 'getenvb', 'getcwd', 'getcwdb', 'putenv', 'unsetenv', 'chdir', 'fchdir'}
OSPATH_ATTRS = {'expanduser', 'expandvars', 'abspath', 'realpath'}
PLATFORM_ATTRS = {'machine', 'system', 'uname', 'node', 'platform', 'processor'}
SUBPROCESS_ATTRS = {'run', 'Popen', 'call', 'check_call', 'check_output'}

# file : function : kind -> how the model / the property accounts for the read.  Granularity file:function,
# so the list survives line shifts; a new site (or a site that disappears) fails W:ambient_sites.
AMBIENT_SITES = {
    ('environment.py', 'Environment.__init__', 'os.environ'): 'configure only: this IS the snapshot (variables.initial)',
    ('driver.py', 'environment_from_args', 'sys.argv'): 'configure only: bfgdir, saved',
    ('driver.py', 'env', 'os.getenv'): 'env --unique only: documented comparison with the ambient environment',
    ('driver.py', 'main', 'os.environ'): 'SHELL, default of generate-completion only',
    ('driver.py', 'run', 'subprocess.run:env'): 'run: child gets the saved variables explicitly',
    ('environment.py', 'Environment.load', 'platform.machine'): 'upgrade of documents older than v14 only (explicit argument of the model)',
    ('log.py', 'init', 'default:os.environ'): 'diagnostics only (colour / debug switches)',
    ('path.py', 'pushd', 'os.chdir'): 'scoped cwd change, restored in finally',
    ('path.py', 'pushd', 'os.getcwd'): 'scoped cwd change, restored in finally',
    ('platforms/basepath.py', 'BasePath.__normalize', 'os.path.expanduser'):
        'HOME is read only for a path whose text starts with ~ (outside the modelled domain, C12)',
    ('platforms/basepath.py', 'BasePath.abspath', 'os.getcwd'):
        'command-line directory arguments are made absolute against cwd: the builddir argument denotes the same directory',
    ('platforms/core.py', '_platform_info', 'platform.machine'): 'host architecture: property of the machine, not of the environment',
    ('platforms/core.py', 'platform_name', 'platform.machine'): 'host platform: property of the machine',
    ('platforms/core.py', 'platform_name', 'platform.system'): 'host platform: property of the machine',
    ('platforms/core.py', 'platform_name', 'subprocess.check_output:noenv'): 'uname / lsb_release on the host: property of the machine',
    ('e1m1.py', '<module>', 'platform.system'): 'easter egg, not part of any build command',
    ('backends/make/writer.py', 'executable', 'default:os.environ'): 'backend discovery (PATH, MAKE): availability only; version saved at configure',
    ('backends/make/writer.py', 'version', 'default:os.environ'): 'backend discovery: availability only; version saved at configure',
    ('backends/ninja/writer.py', 'executable', 'default:os.environ'): 'backend discovery: availability only',
    ('backends/ninja/writer.py', 'version', 'default:os.environ'): 'backend discovery: availability only',
    ('backends/msbuild/writer.py', 'executable', 'default:os.environ'): 'backend discovery: availability only',
    ('backends/msbuild/writer.py', 'version', 'default:os.environ'): 'backend discovery: availability only',
    ('shell/__init__.py', 'which', 'default:os.environ'):
        'default of which(): every caller must pass env.variables; callers that do not are listed as which-without-env',
    ('shell/__init__.py', 'execute', 'subprocess.run:env'): 'env passed through by the caller',
    ('jvmoutput.py', 'main', 'subprocess.Popen:noenv'): 'build-time helper run by the build tool, not by regenerate',
    ('rccdep.py', 'make_depfile', 'subprocess.check_output:noenv'): 'build-time helper run by the build tool',
    ('rccdep.py', 'run_rcc', 'subprocess.run:noenv'): 'build-time helper run by the build tool',
    # callers of shell.which that rely on the ambient default
    ('e1m1.py', '_do_play', 'which-without-env'): 'easter egg',
}


def scan_file(path, rel):
    tree = ast.parse(open(path, encoding='utf-8').read())
    found = set()

    def has_env_kw(call):
        return any(k.arg == 'env' or k.arg is None for k in call.keywords)

    def visit(node, scope, in_default):
        if isinstance(node, (ast.FunctionDef, ast.AsyncFunctionDef, ast.Lambda)):
            q = scope + [getattr(node, 'name', '<lambda>')]
            for dflt in list(node.args.defaults) + [x for x in node.args.kw_defaults if x is not None]:
                visit(dflt, q, True)
            if isinstance(node, ast.Lambda):
                visit(node.body, q, False)
            else:
                for dec in node.decorator_list:
                    visit(dec, scope, False)
                for b in node.body:
                    visit(b, q, False)
            return
        if isinstance(node, ast.ClassDef):
            for b in node.body:
                visit(b, scope + [node.name], False)
            return
        kinds = []
        if isinstance(node, ast.Attribute):
            v = node.value
            if isinstance(v, ast.Name) and v.id == 'os' and node.attr in OS_ATTRS:
                kinds.append('os.' + node.attr)
            elif isinstance(v, ast.Name) and v.id == 'sys' and node.attr == 'argv':
                kinds.append('sys.argv')
            elif (isinstance(v, ast.Attribute) and isinstance(v.value, ast.Name) and v.value.id == 'os'
                  and v.attr == 'path' and node.attr in OSPATH_ATTRS):
                kinds.append('os.path.' + node.attr)
            elif isinstance(v, ast.Name) and v.id == 'platform' and node.attr in PLATFORM_ATTRS:
                kinds.append('platform.' + node.attr)
        if isinstance(node, ast.ImportFrom) and node.module in ('os', 'sys', 'os.path', 'platform', 'subprocess'):
            for a in node.names:
                if a.name in OS_ATTRS | OSPATH_ATTRS | PLATFORM_ATTRS | SUBPROCESS_ATTRS | {'argv', '*'}:
                    kinds.append('from %s import %s' % (node.module, a.name))
        if isinstance(node, ast.Call):
            f = node.func
            if (isinstance(f, ast.Attribute) and isinstance(f.value, ast.Name) and f.value.id == 'subprocess'
                    and f.attr in SUBPROCESS_ATTRS):
                kinds.append('subprocess.%s:%s' % (f.attr, 'env' if has_env_kw(node) else 'noenv'))
            # shell.which(...) / which(...) without an environment argument falls back to os.environ
            name = f.attr if isinstance(f, ast.Attribute) else f.id if isinstance(f, ast.Name) else None
            if name == 'which' and not (isinstance(f, ast.Attribute) and isinstance(f.value, ast.Subscript)):
                if len(node.args) < 2 and not has_env_kw(node):
                    kinds.append('which-without-env')
        for k in kinds:
            found.add((rel, '.'.join(scope) or '<module>', ('default:' if in_default else '') + k))
        for c in ast.iter_child_nodes(node):
            visit(c, scope, in_default)

    visit(tree, [], False)
    return found


def stage_ambient_sites(rep):
    root = os.path.join(common.REPO, 'bfg9000')
    found = set()
    nfiles = 0
    for r, _, files in os.walk(root):
        for fn in sorted(files):
            if fn.endswith('.py'):
                p = os.path.join(r, fn)
                nfiles += 1
                found |= scan_file(p, os.path.relpath(p, root))
    expected = set(AMBIENT_SITES)
    new = sorted(found - expected)
    gone = sorted(expected - found)
    rep.stage('W:ambient_sites', files=nfiles, sites=len(found), new=new, gone=gone)
    for s in sorted(found):
        rep.count('ambient:' + s[2].split(':')[-1] if s[2].startswith('default:') else 'ambient:' + s[2])
    rep.case('ambient-sites:%d' % len(found), True)
    return new, gone


# ----------------------------------------------------------------------------- system level: configure, then regenerate/env
TC_LINES = ["environ['CFLAGS'] = '-O1 -DTC=1'", "environ['C09_ADDED'] = 'a b'", "del environ['C09_DROP']",
            "environ.setdefault('C09_DFLT', 'd')", "environ.pop('C09_POP', None)", "environ.update({'C09_UPD': 'u'})",
            "compile_options(['-DOPT=1'], 'c')", "environ['CPPFLAGS'] = '-DFROM_TC'", "environ['C09_ADDED'] = 'again'",
            "link_options(['-Wl,--as-needed'])", "lib_options(['-lm'])"]
# install directories: the toolchain file proposes some (install_dirs(...)), the configure command line overrides a subset;
# what configure saved is what every later regeneration (of either kind) must use
INSTALL_DIR_NAMES = ('prefix', 'exec_prefix', 'bindir', 'libdir', 'includedir', 'datadir', 'mandir')
# how a regeneration is started: `bfg9000 regenerate`, `bfg9000 regenerate --lazy` (what the backend runs), and the
# backend itself (make) after the modification time of a regeneration input moved forward
REGEN_KINDS = ('full', 'lazy', 'lazy-touched-script', 'make-touched-script', 'make-touched-toolchain')
OUTPUTS = ('Makefile', 'compile_commands.json', '.bfg_environ')


def run_bfg(args, env, cwd):
    return subprocess.run(['bfg9000'] + args, env=env, cwd=cwd, capture_output=True, text=True, timeout=120)


def read_outputs(build):
    out = {}
    for fn in OUTPUTS:
        p = os.path.join(build, fn)
        out[fn] = open(p, 'rb').read() if os.path.exists(p) else None
    return out


def json_leaf_diff(a, b, path=()):
    """[(path, a-leaf, b-leaf)] for two JSON values"""
    if isinstance(a, dict) and isinstance(b, dict):
        out = []
        for k in sorted(set(a) | set(b)):
            out += json_leaf_diff(a.get(k), b.get(k), path + (k,))
        return out
    if isinstance(a, list) and isinstance(b, list) and len(a) == len(b):
        out = []
        for i, (x, y) in enumerate(zip(a, b)):
            out += json_leaf_diff(x, y, path + (i,))
        return out
    return [] if a == b else [(list(path), a, b)]


_HARVEST = []
KIND_COUNTS = {}      # how the regenerations of the system stage were started (evidence)


def harvested_variable_names():
    """Names of environment variables bfg9000 reads through its variable store or os.environ (string literals in
    getvar('X') / variables.get('X') / variables['X'] / environ.get('X') / environ['X'] / getenv('X'))."""
    if not _HARVEST:
        import re as _re
        names = set()
        pat = _re.compile(r"(?:getvar|variables\.get|environ\.get|getenv)\(\s*'([A-Za-z_][A-Za-z0-9_]*)'|(?:variables|environ)\[\s*'([A-Za-z_][A-Za-z0-9_]*)'\s*\]")
        root = os.path.join(common.REPO, 'bfg9000')
        for d, _, files in os.walk(root):
            for fn in files:
                if fn.endswith('.py'):
                    for m in pat.finditer(open(os.path.join(d, fn), encoding='utf-8').read()):
                        names.add(m.group(1) or m.group(2))
        # flag variables are looked up by computed names: add the documented ones
        names.update(['CC', 'CXX', 'CFLAGS', 'CXXFLAGS', 'CPPFLAGS', 'LDFLAGS', 'LDLIBS', 'AR', 'ARFLAGS', 'DESTDIR', 'MAKE', 'NINJA'])
        _HARVEST.extend(sorted(names))
    return list(_HARVEST)


def system_case(rng, top, which_probe):
    """One project: configure under E0, regenerate/env under perturbed ambient state. Returns list of (classes, message)."""
    # a blank in the source directory exercises the saved paths; GNU Make cannot be the driver then (C04 finding
    # make-srcdir-location-special), so the make-driven regenerations use the plain name
    srcname = rng.choice(['src dir', 'srcdir'])
    src, build, fake = os.path.join(top, srcname), os.path.join(top, 'build'), os.path.join(top, 'fakebin')
    for d in (src, fake, os.path.join(top, 'elsewhere')):
        os.makedirs(d)
    uses_find = rng.random() < 0.5          # with a find cache the lazy regeneration goes through find_check_cache
    with open(os.path.join(src, 'build.bfg'), 'w') as f:
        f.write("project('p')\nprog = executable('prog', files=%s)\ninstall(prog, header_file('p.h'), man_page('p.1'))\n"
                % ("find_files('*.c')" if uses_find else "['main.c']"))
    for fn in ('p.h', 'p.1'):
        with open(os.path.join(src, fn), 'w') as f:
            f.write('\n')
    with open(os.path.join(src, 'options.bfg'), 'w') as f:
        f.write("argument('level', default='0')\n")
    with open(os.path.join(src, 'main.c'), 'w') as f:
        f.write('int main(void) { return 0; }\n')
    lines = TC_LINES[:]
    rng.shuffle(lines)
    lines = lines[:rng.randint(2, len(lines))]
    if which_probe:
        lines.append("compiler(['c09-cc', 'gcc'], 'c')")
    tc_dirs = {k: '/tc/%s%s' % (k, rng.choice(['', '/'])) for k in INSTALL_DIR_NAMES if rng.random() < 0.6}
    cli_dirs = {k: '/cli/%s' % k for k in INSTALL_DIR_NAMES if rng.random() < (0.6 if k in tc_dirs else 0.3)}
    if tc_dirs and not set(tc_dirs) & set(cli_dirs):
        k = rng.choice(sorted(tc_dirs))
        cli_dirs[k] = '/cli/%s' % k             # at least one directory named by both
    if tc_dirs:
        lines.insert(rng.randint(0, len(lines)), 'install_dirs(%s)' % ', '.join('%s=%r' % kv for kv in sorted(tc_dirs.items())))
    tc = os.path.join(top, 'tc.bfg')
    with open(tc, 'w') as f:
        f.write('\n'.join(lines) + '\n')
    with open(os.path.join(fake, 'c09-cc'), 'w') as f:
        f.write('#!/bin/sh\nexec gcc "$@"\n')
    os.chmod(os.path.join(fake, 'c09-cc'), 0o755)

    e0 = common.impl_env()
    base_path = e0['PATH']
    e0.update({'PATH': fake + ':' + base_path, 'CFLAGS': '-g', 'C09_DROP': 'x', 'C09_POP': 'y', 'HOME': top})
    if not which_probe:
        e0['CC'] = rng.choice(['gcc', 'cc'])
    args = ['configure-into', src, build, '--backend=make', '--no-resolve-packages', '--toolchain', tc,
            '--level=%d' % rng.randint(1, 9)]
    if rng.random() < 0.5:
        args.append('--enable-static')
    args += ['--%s=%s' % (k.replace('_', '-'), v) for k, v in sorted(cli_dirs.items())]
    p = run_bfg(args, e0, top)
    if p.returncode != 0:
        return [((), 'configure failed: ' + (p.stderr or p.stdout)[-500:])], 0
    ref = read_outputs(build)
    # what configure saved: the command line wins over the toolchain file, the toolchain file over the platform default
    saved = json.loads(ref['.bfg_environ'].decode())['data']['install_dirs']
    for k in INSTALL_DIR_NAMES:
        want = cli_dirs.get(k, tc_dirs.get(k))
        if want is not None and saved[k][0].rstrip('/') != want.rstrip('/'):
            return [((), 'configure with toolchain install_dirs(%r) and command line %r saved %s = %r' % (
                tc_dirs, cli_dirs, k, saved[k]))], 0
    refenv = run_bfg(['env', build], e0, top).stdout
    problems = []
    n = 0
    perturbations = [
        ('unset-CC-other-CFLAGS', {'CC': None, 'CFLAGS': '-O3 -DAMBIENT', 'CPPFLAGS': '-DAMBIENT'}, top, build),
        ('extra-and-missing-vars', {'C09_DROP': None, 'C09_POP': 'other', 'C09_ADDED': 'ambient', 'C09_NEW': '1'}, top, build),
        ('other-HOME-LANG', {'HOME': '/nonexistent', 'LANG': 'C', 'LC_ALL': 'C'}, top, build),
        ('cwd-builddir-relative', {}, build, '.'),
        ('cwd-elsewhere-relative', {'CC': 'clang'}, os.path.join(top, 'elsewhere'), '../build'),
        ('path-reordered', {'PATH': base_path + ':' + fake, 'CC': 'clang'}, top, build),
    ]
    # every environment variable name that bfg9000's own source looks up (harvested from the tree under test) set to an
    # ambient value at once: none of them may reach the regenerated files (DESTDIR, LDFLAGS, AR, MAKE, ...)
    perturbations.append(('all-variables-bfg9000-reads', {k: 'ambient_' + k.lower() for k in harvested_variable_names()
                                                           if k not in ('PATH', 'HOME', 'PYTHONPATH')}, top, build))
    if which_probe:
        perturbations.append(('path-without-configured-tool', {'PATH': base_path}, top, build))
    kinds = list(REGEN_KINDS)
    rng.shuffle(kinds)
    for pi, (name, delta, cwd, barg) in enumerate(perturbations):
        e = dict(e0)
        for k, v in delta.items():
            if v is None:
                e.pop(k, None)
            else:
                e[k] = v
        n += 1
        how = kinds[pi % len(kinds)]
        if how.startswith('make') and ' ' in srcname:
            how = 'lazy' + how[len('make'):]
        if how.endswith('touched-script') or how.endswith('touched-toolchain'):
            time.sleep(0.02)
            os.utime(tc if how.endswith('toolchain') else os.path.join(src, 'build.bfg'), None)
        if how.startswith('make'):
            p = subprocess.run(['make', '--no-print-directory', '-C', os.path.join(cwd, barg), 'Makefile'], env=e, cwd=cwd,
                               capture_output=True, text=True, timeout=120)
            if p.returncode == 0 and 'regenerate --lazy' not in p.stdout:
                problems.append(((), 'make did not start the regeneration after the %s was touched: %s' % (
                    how.split('-')[-1], p.stdout[-300:])))
        else:
            p = run_bfg(['regenerate'] + (['--lazy'] if how.startswith('lazy') else []) + [barg], e, cwd)
        name = '%s (%s)' % (name, how)
        KIND_COUNTS[how] = KIND_COUNTS.get(how, 0) + 1
        cls = ('toolchain-which-ambient-path',) if name.startswith('path-without-configured-tool') else ()
        if p.returncode != 0:
            problems.append((cls, 'regenerate under %s failed: %s' % (name, (p.stderr or p.stdout)[-400:])))
            continue
        got = read_outputs(build)
        for fn in OUTPUTS:
            if got[fn] != ref[fn]:
                a, b = (ref[fn] or b'').decode(errors='replace').split('\n'), (got[fn] or b'').decode(errors='replace').split('\n')
                d = [(x, y) for x, y in zip(a, b) if x != y][:2]
                fcls = cls
                if fn == '.bfg_environ' and ref[fn] and got[fn]:
                    d = json_leaf_diff(json.loads(ref[fn].decode()), json.loads(got[fn].decode()))
                    # known finding (narrow): a directory that only the toolchain file names, written there without a
                    # trailing separator, is saved as a non-directory path and comes back as a directory path; nothing else
                    slash_only = [x for x in d if len(x[0]) == 4 and x[0][:2] == ['data', 'install_dirs'] and x[0][3] == 0 and
                                  x[0][2] in tc_dirs and x[0][2] not in cli_dirs and isinstance(x[1], str) and x[2] == x[1] + '/']
                    if slash_only:
                        problems.append((('toolchain-install-dir-saved-as-non-directory',),
                                         '.bfg_environ differs after regenerate under %s: install directory given only by the toolchain '
                                         'file without a trailing separator is saved as a file path and re-saved as a directory path: %r'
                                         % (name, slash_only)))
                        d = [x for x in d if x not in slash_only]
                        if not d:
                            ref[fn] = got[fn]       # from here on compare with the re-saved form
                            continue
                    d = d[:4]
                problems.append((fcls, '%s differs after regenerate under %s (toolchain %r, command line %r): %r' % (
                    fn, name, lines, sorted(cli_dirs.items()), d)))
        genv = run_bfg(['env', barg], e, cwd).stdout
        if genv != refenv:
            problems.append((cls, '`bfg9000 env` differs under %s' % name))
        if name.startswith('path-without-configured-tool') or any(not c for c, _ in problems):
            break       # later comparisons would only repeat this difference
    return problems, n


def stage_system(rep, rng, n):
    bad = 0
    runs = 0
    for i in range(n):
        top = common.scratch('c09sys')
        try:
            probe = (i % 3 == 2)
            problems, k = system_case(rng, top, probe)
            runs += k
            rep.case('sys:%d:%d' % (rep.seed, i), True)
            rep.count('system.project' + (':which-probe' if probe else ''))
            for cls, msg in problems:
                msg = msg.replace(top, '<top>')
                if rep.fail('system: ' + msg, {'kind': 'system', 'which_probe': probe, 'message': msg}, classes=cls):
                    bad += 1
        finally:
            shutil.rmtree(top, ignore_errors=True)
    rep.traces += runs
    for k, v in sorted(KIND_COUNTS.items()):
        rep.count('system.regeneration:' + k, v)
    KIND_COUNTS.clear()
    rep.stage('system:regenerate-under-perturbed-ambient', projects=n, regenerations=runs, failures=bad)
    return bad


# ----------------------------------------------------------------------------- run
def run(rep):
    rng = random.Random(rep.seed)
    thorough = rep.tier == 'thorough'
    rep.proof_stage(coqchk=thorough)
    n = 3000 if thorough else 500
    dis, cases = stage_w_store(rep, rng, n)
    new, gone = stage_ambient_sites(rep)
    npath, nenv = (2000, 600) if thorough else (400, 80)
    pdis, pbad = stage_w_path(rep, rng, npath)
    if pdis and not pbad:          # the tie broke: search the implementation with a 10x budget
        pbad = stage_w_path(rep, rng, 10 * npath)[1]
    ubad = stage_upgrade(rep, rng, 120 if thorough else 30)
    edis, ebad = stage_w_env(rep, rng, nenv)
    ebad += ubad
    if edis and not ebad:
        ebad = stage_upgrade(rep, rng, 300) + stage_w_env(rep, rng, 10 * nenv)[1]
    sbad = stage_system(rep, rng, (12 if thorough else 3) * (4 if (new or gone or edis or dis) else 1))
    if pdis and not pbad:
        i, call, iv, mv = pdis[0]
        rep.fail('W:pathjson - model and Path.from_json/to_json disagree (%d cases), e.g. %s on %r: impl %r, model %r' % (
            len(pdis), call[0], d_json(common.parse_sx(common.enc(call[1]))), iv, mv),
            {'obligation': 'W:pathjson', 'call': call[0], 'json': d_json(common.parse_sx(common.enc(call[1]))),
             'impl': iv, 'model': mv, 'n_disagreements': len(pdis)}, found_input=False)
    if edis and not ebad and not sbad:
        i, call, iv, mv, doc = edis[0]
        rep.fail('W:envjson - model and Environment.load/save disagree (%d cases), e.g. %s: impl %r, model %r' % (
            len(edis), call[0], iv, mv),
            {'obligation': 'W:envjson', 'call': call[0], 'document': doc, 'impl': iv, 'model': mv,
             'n_disagreements': len(edis)}, found_input=False)
    found = stage_oracle_store(rep, rng, cases, n * (10 if dis else 1))
    if dis and not rep.n_with_input:
        i, call, iv, mv = dis[0]
        rep.fail('W:envstore - model and EnvVarDict disagree (%d cases), e.g. on %r: impl %r, model %r' % (
            len(dis), cases[i], iv, mv),
            {'obligation': 'W:envstore', 'case': cases[i], 'impl': iv, 'model': mv, 'n_disagreements': len(dis)},
            found_input=False)
    if (new or gone) and not sbad:
        rep.fail('W:ambient_sites - the reads of ambient state in bfg9000 differ from the recorded list: new %r, gone %r' % (
            new, gone), {'obligation': 'W:ambient_sites', 'new': new, 'gone': gone}, found_input=False)


def replay(rep, path):
    r = json.load(open(path))
    print(json.dumps(r, indent=1)[:3000])
    if r.get('kind') == 'store':
        case = tup(r['case'])
        case = (case[0], list(case[1]))
        msg = check_store_property(case, r.get('every_step', True))
        if msg:
            rep.fail('EnvVarDict: ' + msg, {'kind': 'store', 'case': case, 'every_step': r.get('every_step', True)})
        return
    if r.get('kind') == 'path':
        from bfg9000.path import Path
        p = Path.from_json(r['json'])
        q = Path.from_json(json.loads(json.dumps(p.to_json())))
        if c_path(p) != c_path(q):
            rep.fail('Path %r is reloaded from its JSON form %r as %r' % (c_path(p), p.to_json(), c_path(q)),
                     {'kind': 'path', 'json': r['json']})
        return
    if r.get('kind') == 'env':
        tmp = common.scratch('c09env')
        try:
            res, env, exc = impl_load(r['document'], tmp)
            msg = check_env_roundtrip(env, tmp) if env is not None else 'saved document no longer loads: %s' % exc
            if msg:
                rep.fail('Environment: ' + msg, {'kind': 'env', 'document': r['document']})
        finally:
            shutil.rmtree(tmp, ignore_errors=True)
        return
    if r.get('kind') == 'upgrade':
        tmp = common.scratch('c09up')
        try:
            fails = upgrade_failures(r['document'], r['expected'], tmp)
            if fails:
                report_upgrade_failure(rep, r['version'], r['document'], r['expected'], fails)
        finally:
            shutil.rmtree(tmp, ignore_errors=True)
        return
    if r.get('kind') == 'system':
        stage_system(rep, random.Random(r.get('seed', 0)), 6)
        return
    run(rep)
