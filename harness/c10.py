"""C10 - Interrupted or failed regeneration never leaves silently stale build files.

Stages (see run()):
  variant             which builtins/find.py is under test (harness/regenvariant.py, behavioural probe): F1 = find_check_cache
                      distrusts a cache newer than the build file, F2 = write_depfile renames a .tmp into place; selects the
                      model variant (State/Crash.v `variant`) and which finding classes may still count as known
  proofs              coq/props/C10.v (crash model State/Crash.v)
  W:run_ops           the real mutation sequence of configure / regenerate (recorded by harness/inject/sitecustomize.py in
                      the bfg9000 process; os.replace / os.rename are mutation points) against the model's run_ops (of the
                      detected variant) on the same abstract project
  oracle:crash        fault injection at EVERY mutation point of the recorded run (raise / kill, before / after), then one
                      or two real `make` runs; oracle: exit status != 0 or files byte-equal to a fresh configure
  W:outcome           the same experiments against the model's prediction (crash n ; attempt ; attempt), including the state
                      of .bfg_find_deps and .bfg_find_deps.tmp right after the fault
  oracle:script_raise a build script (or a rule emission) that raises leaves the previous build file byte-identical
  toolchain files     (spec['tc']) the project is configured with --toolchain FILE; edit = 'toolchain' rewrites that file (an
                      explicit regeneration input that no build script names); in oracle:script_raise the edited toolchain
                      file raises, and every failing history is continued: the mistake is corrected and the next make must
                      succeed with files equal to a fresh configure of the corrected tree; the toolchain file may set an
                      additional variable (spec['tc_extra']: only before the edit, only after it, always), a failing history
                      may edit the toolchain file AND break build.bfg / a rule emission (the attempt then fails after the
                      environment was saved), and its correction may take the toolchain edit back (spec['tc_backout'])
  failures by environment (spec['envfail']) a tool chosen at configure time - a CC= / CXX= wrapper (C and C++ project), a
                      program that build.bfg finds with system_executable(), a program the toolchain file looks up with
                      which() / compiler(strict=True) through the saved PATH - stops working or disappears before the
                      regeneration: the regeneration must fail visibly, make must fail, and once the tool is repaired
                      (nothing else changes) the next make regenerates and equals a fresh configure; the exception a
                      raising script / toolchain file raises is drawn from RAISE_EXCS (OSErrors with and without errno ...)
  oracle:exit_status  real `bfg9000 configure / regenerate / regenerate --lazy` of a minimal project whose build.bfg,
                      options.bfg or toolchain file raises each exception of RAISE_EXCS: exit status != 0
  W:exit_status       driver.handle_reload_exception on constructed exceptions, passed through sys.exit, against the model
                      State/ExitStatus.v (theorem C10_failed_run_exit_nonzero)
  oracle:regen_inputs every recorded project (build directory after the regeneration and the fresh configure): the inputs of
                      the regeneration step persisted in .bfg_find_cache (what `regenerate --lazy` compares) are the same
                      set as the prerequisites of the build file's regeneration rule (what make / ninja compares)
  history `options`   (edit = 'options') nothing in the tree changes: the existing build directory is configured AGAIN with other
                      options (prefix, library mode), that run is faulted at every mutation point, and the next regeneration
                      attempt is the backend's own command `bfg9000 regenerate --lazy` (then make); the reference is a fresh
                      configure with the options that .bfg_environ holds after the fault
"""
import concurrent.futures
import json
import os
import random
import shutil
import subprocess
import time
import traceback

from . import common, project, regenvariant

LEVEL = 'proof'
RULE = ('projects are drawn from the feature grid find_files yes/no x 0..2 pkg_config calls (2 immediate files each) x '
        'install/test rules x compdb on/off x configured with --toolchain FILE or not (the file sets an additional '
        'variable CPPFLAGS / LDLIBS / LDFLAGS / a longer CFLAGS never / only before the edit / only after it / always) x edit kind (new file in a watched '
        'directory / build.bfg edited / both / only the toolchain file edited) x '
        'how the regeneration is started (make-triggered regenerate --lazy, bfg9000 regenerate, configure-into over the '
        'existing build directory, also with OTHER configure options and an unedited tree, followed up by regenerate --lazy run '
        'by hand); for each project EVERY mutation point n of the recorded run (incl. the rename of the depfile) is '
        'faulted (exhaustive), in '
        'the variants kill/raise x before/after; a case = (project, n, variant, follow-up index); non-trivial when the run '
        'was really cut (fault fired) and distinct by (project features, abstract crash state, follow-up index); scripts, rule '
        'emissions and toolchain files that raise are continued by correcting the mistake and regenerating again (make, or '
        'regenerate --lazy by hand and then make), compared with a fresh configure of the corrected tree; failing histories '
        'with two edits at once (toolchain file gains or loses the variable while build.bfg / a rule emission fails after the '
        'environment was saved) whose correction keeps the toolchain edit or takes it back; failing histories by ENVIRONMENT: a '
        'tool chosen at configure time (CC= / CXX= wrapper in a C / C+C++ project, a program found by system_executable() in '
        'build.bfg, by which() / compiler(strict) in the toolchain file) breaks (exits 127) or is removed before the '
        'regeneration (make / regenerate / regenerate --lazy) and is repaired afterwards; the exception class of raising '
        'scripts and toolchain files is drawn from 14 (plain errors, OSErrors with errno, message-only OSErrors, exit codes), '
        'and each of them in build.bfg / options.bfg / the toolchain file of a minimal project must make configure, '
        'regenerate and regenerate --lazy exit non-zero; handle_reload_exception on 300 constructed exceptions; for every recorded '
        'project the inputs persisted in .bfg_find_cache are compared with the prerequisites of the regeneration rule')
TRUSTED = ('the history `options`: which options a build directory holds is read off the prefix saved in .bfg_environ',
           'GNU Make 4.3 as the consumer of the Makefile (real tool, run on every crash state)',
           'harness/inject/sitecustomize.py: the recorder / fault injector (wraps builtins.open for write modes, os.remove, '
           'os.utime, os.makedirs, os.replace, os.rename inside the bfg9000 process); a fault before a close leaves the file '
           'empty (torn writes inside one write are not modelled); a rename is one atomic mutation point',
           'harness/regenvariant.py: the behavioural probe that selects the model variant (old / repaired find.py)',
           'compiler, linker and archiver are replaced by the argv recorder during make runs (the property is about build '
           'files, not about compilation)')
EXPLANATION = ''

INJECT = os.path.join(common.VERIF, 'harness', 'inject')
WINDOW_CLASS = 'crash-between-findcache-save-and-buildfile-write'
DEPFILE_CLASS = 'crash-while-find-depfile-truncated'
COMPDB_CLASS = 'crash-after-buildfile-write-before-compdb-complete'
# re-configure with other options cut after .bfg_environ holds the new options and before this run touched the find cache:
# the lazy follow-up finds the old, trusted cache and unchanged results, touches the outputs and exits 0
RECONF_CLASS = 'reconfigure-cut-after-environ-save-before-findcache-save'
# regenerate --lazy run by hand over a build file that the cut run had opened (truncated) but not written: the find
# cache is not newer than that file, results are unchanged: skip, exit 0, the build file stays empty (make fails on it)
TRUNC_CLASS = 'lazy-by-hand-skips-over-truncated-buildfile'
OLD_OPTIONS = ['--prefix=/opt/c10old', '--enable-shared', '--disable-static']
NEW_OPTIONS = ['--prefix=/opt/c10new', '--disable-shared', '--enable-static']
# the model variant [cal, adeps (F2), dnc (F1)] of State/Crash.v that mirrors the tree under test; set by select_variant()
VARIANT = [False, False, False]


# ----------------------------------------------------------------------------- projects
def bfg_text(spec, v2):
    L = ["project('proj', '1.0')"]
    if spec['find']:
        L.append("srcs = find_files('src/*.c')")
    else:
        L.append("srcs = ['src/a.c'%s]" % (", 'src/b.c'" if v2 and spec['edit'] in ('script', 'both') else ''))
    # header_directory(include=...) is a find_files call of its own: only for projects that use find_files
    L.append("hdr = header_directory('include'%s)" % (", include='*.h'" if spec['find'] else ''))
    L.append("lib = library('hello', files=srcs, includes=[hdr])")
    L.append("prog = executable('prog', files=['main.c'], libs=[lib])")
    if v2 and spec['edit'] in ('script', 'both'):
        L.append("extra = executable('extra', files=['extra.c'])")
    if spec['inst']:
        L.append("install(lib, hdr, prog)")
        L.append("test(prog)")
    for i in range(spec['pkg']):
        L.append("pkg_config('hello%d', version='1.%d', includes=[hdr], libs=[lib]%s)" % (
            i, 1 if v2 and spec['edit'] in ('script', 'both') else 0, '' if spec['inst'] else ', auto_fill=False'))
    if spec.get('cxx'):
        L.append("xlib = library('hellox', files=['src/x.cpp'])")
    if spec.get('envfail') == 'script-tool':
        # a program looked up when the script runs (PATH as saved at configure time)
        L.append("tool = system_executable('c10tool')")
        L.append("command('runtool', cmd=[tool, 'arg'])")
    if v2 and spec.get('script_raise') == 'script':
        L.append("raise %s" % spec.get('raise_exc', "RuntimeError('C10 injected script failure')"))
    if v2 and spec.get('script_raise') == 'emit':
        # a failure of rule emission (inside backend.write, after the script finished): two steps with one output
        L.append("command('dup', cmd=['touch', 'dup'])")
        L.append("build_step('dup', cmd=['touch', 'dup'])")
    return '\n'.join(L) + '\n'


TC_VARS = {'CPPFLAGS': '-DC10_TC_EXTRA=1', 'LDLIBS': '-lm', 'LDFLAGS': '-Wl,--as-needed', 'CFLAGS': None}


def tc_text(gen, broken=False, extra=None):
    """The toolchain file (configure --toolchain FILE): generation `gen` of its options; extra: a variable it sets in
    addition (environ[NAME] = ...; 'CFLAGS': a second compile option, i.e. a longer value of the variable it always sets);
    broken: it raises."""
    t = "compile_options(['-DTC=%d'%s], 'c')\n" % (gen, ", '-DC10_TC_EXTRA=2'" if extra == 'CFLAGS' else '')
    if extra and extra != 'CFLAGS':
        t += "environ[%r] = %r\n" % (extra, TC_VARS[extra])
    return t + ("raise RuntimeError('C10 injected toolchain failure')\n" if broken else '')


def tc_file(spec, stage):
    """Text of the toolchain file at a stage; spec['envfail'] = 'tc-which' / 'tc-compiler': the file looks a program up
    (strictly) each time it is executed."""
    gen, broken, extra = tc_state(spec, stage)
    t = tc_text(gen, False, extra)
    if spec.get('envfail') == 'tc-which':
        t += "environ['C10TOOL'] = which('c10tool')\n"
    elif spec.get('envfail') == 'tc-compiler':
        t += "compiler('c10cc', 'c', strict=True)\n"
    if broken:
        t += "raise %s\n" % spec.get('raise_exc', "RuntimeError('C10 injected toolchain failure')")
    return t


# ---- tools chosen at configure time (spec['envfail']): wrappers and programs in <root>/tools, next to src and build
ENV_TOOLS = {'c10cc': '#!/bin/sh\nexec cc "$@"\n', 'c10cxx': '#!/bin/sh\nexec c++ "$@"\n',
             'c10tool': '#!/bin/sh\nexit 0\n'}
ENV_BROKEN = '#!/bin/sh\necho "%s: toolchain not installed" >&2\nexit 127\n'
# mode -> (the tool, how it fails: 'broken' = still there but exits 127, 'missing' = removed)
ENV_MODES = {'cc-broken': ('c10cc', 'broken'), 'cxx-broken': ('c10cxx', 'broken'), 'script-tool': ('c10tool', 'missing'),
             'tc-which': ('c10tool', 'missing'), 'tc-compiler': ('c10cc', 'missing')}


def tools_dir(src):
    return os.path.join(os.path.dirname(src), 'tools')


def write_tool(src, name, text):
    d = tools_dir(src)
    os.makedirs(d, exist_ok=True)
    path = os.path.join(d, name)
    with open(path, 'w') as f:
        f.write(text)
    os.chmod(path, 0o755)


def conf_env(spec, src):
    """The environment of every configure of the project: the tool-selecting variables."""
    mode = spec.get('envfail')
    if not mode:
        return None
    d = tools_dir(src)
    if mode == 'cc-broken':
        return {'CC': os.path.join(d, 'c10cc')}
    if mode == 'cxx-broken':
        return {'CXX': os.path.join(d, 'c10cxx')}
    return {'PATH': d + os.pathsep + common.impl_env()['PATH']}


def set_tools(spec, src, working):
    mode = spec.get('envfail')
    if not mode:
        return
    tool, how = ENV_MODES[mode]
    for name, text in ENV_TOOLS.items():
        if name == tool and not working:
            if how == 'broken':
                write_tool(src, name, ENV_BROKEN % name)
            elif os.path.exists(os.path.join(tools_dir(src), name)):
                os.remove(os.path.join(tools_dir(src), name))
        else:
            write_tool(src, name, text)


def tc_state(spec, stage):
    """(gen, broken, extra) of the toolchain file at stage 'v1' | 'v2' (after the edit) | 'final' (after the correction of a
    failing history).  spec['tc_extra']: None | 'v1' (only the first version sets the additional variable: the edit drops
    the line) | 'v2' (the edit adds the line) | 'both'; spec['tc_var'] names the variable; spec['tc_backout']: the
    correction of a failing history takes the whole toolchain edit back instead of repairing it."""
    when = spec.get('tc_extra')
    var = spec.get('tc_var', 'CPPFLAGS')
    if stage == 'v1' or (stage == 'final' and spec.get('tc_backout')):
        return (1, False, var if when in ('v1', 'both') else None)
    return (2 if spec['edit'] == 'toolchain' else 1, stage == 'v2' and spec.get('script_raise') == 'toolchain',
            var if when in ('v2', 'both') else None)


def v1_tree(spec):
    t = {'build.bfg': bfg_text(spec, False), 'src/a.c': 'int a(){return 1;}\n', 'main.c': 'int main(){return 0;}\n',
         'include/a.h': '#define A\n', 'extra.c': 'int main(){return 1;}\n'}
    if spec.get('cxx'):
        t['src/x.cpp'] = 'int x(){return 3;}\n'
    if spec.get('tc'):
        t['tc.bfg'] = tc_file(spec, 'v1')
    return t


def apply_edit(spec, src):
    files = {}
    if spec['edit'] == 'options':
        return              # the tree stays as it is; the command line of the second configure differs
    set_tools(spec, src, False)
    if spec.get('tc') and tc_state(spec, 'v2') != tc_state(spec, 'v1'):
        files['tc.bfg'] = tc_file(spec, 'v2')
    if spec['edit'] == 'toolchain':
        pass
    elif spec['edit'] == 'touch':
        files['src/NOTES.txt'] = 'not matched by any pattern\n'
    elif spec['edit'] in ('dir', 'both') or not spec['find']:
        files['src/b.c'] = 'int b(){return 2;}\n'
    if spec['edit'] in ('script', 'both') or spec.get('script_raise') in ('script', 'emit'):
        files['build.bfg'] = bfg_text(spec, True)
    project.write_tree(src, files)


def apply_correction(spec, src):
    """The mistake of a history whose regeneration raises is corrected: the edited file as it was meant."""
    files = {}
    if spec.get('tc') and tc_state(spec, 'final') != tc_state(spec, 'v2'):
        files['tc.bfg'] = tc_file(spec, 'final')
    if spec.get('script_raise') not in ('toolchain', 'env'):
        files['build.bfg'] = bfg_text(dict(spec, script_raise=None), True)
    set_tools(spec, src, True)
    project.write_tree(src, files)


def spec_key(spec):
    return 'find=%d pkg=%d inst=%d compdb=%d edit=%s runner=%s%s%s' % (
        spec['find'], spec['pkg'], spec['inst'], spec['compdb'], spec['edit'], spec['runner'],
        ' followup=' + spec['followup'] if spec.get('followup', 'make') != 'make' else '',
        (' tool-chosen-at-configure-time-fails=' + spec['envfail'] + (' c++' if spec.get('cxx') else '')
         if spec.get('envfail') else '') +
        ((' toolchain-file' + (' extra-variable(%s)=%s' % (spec.get('tc_var', 'CPPFLAGS'), spec['tc_extra'])
                               if spec.get('tc_extra') else '')
          + (' toolchain-edit-backed-out' if spec.get('tc_backout') else '')) if spec.get('tc') else ''))


def gen_specs(rng, n, fixed=()):
    specs = [dict(s) for s in fixed]
    while len(specs) < n:
        find = rng.random() < 0.75
        s = {'find': find, 'pkg': rng.choice([0, 1, 1, 2]), 'inst': rng.random() < 0.6, 'compdb': rng.random() < 0.75,
             'edit': rng.choice(['dir', 'dir', 'script', 'both']) if find else 'script',
             'runner': rng.choice(['make', 'make', 'regen', 'configure']), 'backend': 'make'}
        if rng.random() < 0.35:
            # configured with --toolchain FILE; half of these histories edit that file instead
            s['tc'] = True
            if rng.random() < 0.5:
                s['edit'] = 'toolchain'
            # the additional variable of the toolchain file: never / dropped by the edit / added by the edit / always
            s['tc_extra'] = rng.choice([None, 'v1', 'v1', 'v2', 'both'])
            s['tc_var'] = rng.choice(sorted(TC_VARS))
        if spec_key(s) not in [spec_key(x) for x in specs]:
            specs.append(s)
    return specs


# ----------------------------------------------------------------------------- running the implementation
def verif_env(build, trace=None, fault=None, only=None, probe=None):
    e = {'BFG9000_VERIF': '1', 'PYTHONPATH': INJECT + ':' + common.REPO, 'BFG9000_VERIF_ROOT': build}
    if trace:
        e['BFG9000_VERIF_TRACE'] = trace
    if fault:
        e['BFG9000_VERIF_FAULT'] = fault
    if only:
        e['BFG9000_VERIF_ONLY'] = only
    if probe:
        e['BFG9000_VERIF_PROBE'] = probe
    return e


def conf_args(spec, new=False, src=None):
    a = [] if spec['compdb'] else ['--disable-compdb']
    if spec.get('tc'):
        a = a + ['--toolchain', os.path.join(src, 'tc.bfg')]
    if spec['edit'] == 'options':
        a = a + (NEW_OPTIONS if new else OLD_OPTIONS)
    return a


def read_trace(path):
    procs = []
    if not os.path.exists(path):
        return procs
    for line in open(path):
        r = json.loads(line)
        if 'proc' in r:
            procs.append({'argv': r['proc'], 'ops': []})
        elif procs:
            procs[-1]['ops'].append(r)
    return procs


class Bench:
    """One scratch location holding src + build (configured from v1, built, edited to v2), a snapshot of both to
    restore from, and a fresh configure of the edited tree as the reference."""

    def __init__(self, spec):
        self.spec = spec

    def __enter__(self):
        spec = self.spec
        self.root = common.scratch('c10')
        try:
            self.src = os.path.join(self.root, 'src')
            self.build = os.path.join(self.root, 'build')
            self.snap = os.path.join(self.root, 'snap')
            self.fresh = os.path.join(self.root, 'fresh')
            self.trace = os.path.join(self.root, 'trace.jsonl')
            os.mkdir(self.src)
            project.write_tree(self.src, v1_tree(spec))
            set_tools(spec, self.src, True)
            rc, out = project.configure(self.src, self.build, backend=spec['backend'], extra_args=conf_args(spec, src=self.src),
                                        extra_env=conf_env(spec, self.src))
            if rc != 0:
                raise RuntimeError('configure of v1 failed: ' + out[-600:])
            if spec['backend'] == 'make' and spec.get('built', True):      # built=False: configured, never built (no stamp yet)
                rc, _, out = project.make(self.build, [], stub_tools=True)
                if rc != 0:
                    raise RuntimeError('build of v1 failed: ' + out[-600:])
            self.v1 = self.contents(self.build)
            time.sleep(0.03)
            apply_edit(spec, self.src)
            time.sleep(0.03)
            os.mkdir(self.snap)
            subprocess.run(['cp', '-a', self.src, self.build, self.snap], check=True)
            # reference: fresh configure of the edited tree (not for scripts that raise: there is no uninterrupted result)
            self.ref = None
            if not spec.get('script_raise'):
                rc, out = project.configure(self.src, self.fresh, backend=spec['backend'], extra_args=conf_args(spec, True, src=self.src),
                                            extra_env=conf_env(spec, self.src))
                if rc != 0:
                    raise RuntimeError('fresh configure of v2 failed: ' + out[-600:])
                self.ref = self.contents(self.fresh)
                self.restore()
        except BaseException:
            shutil.rmtree(self.root, ignore_errors=True)
            raise
        return self

    def __exit__(self, *a):
        shutil.rmtree(self.root, ignore_errors=True)
        return False

    def restore(self):
        shutil.rmtree(self.src, ignore_errors=True)
        shutil.rmtree(self.build, ignore_errors=True)
        subprocess.run(['cp', '-a', os.path.join(self.snap, 'src'), os.path.join(self.snap, 'build'), self.root], check=True)
        if os.path.exists(self.trace):
            os.remove(self.trace)

    def watched(self):
        """The files the property speaks about: the build file, the declared outputs of the regeneration step (immediate
        files), and compile_commands.json (reported separately)."""
        names = ['Makefile' if self.spec['backend'] == 'make' else 'build.ninja']
        for i in range(self.spec['pkg']):
            names += ['pkgconfig/hello%d.pc' % i, 'pkgconfig/hello%d-uninstalled.pc' % i]
        if self.spec['compdb']:
            names.append('compile_commands.json')
        return names

    def contents(self, d):
        out = {}
        for n in self.watched():
            p = os.path.join(d, n)
            if os.path.exists(p):
                out[n] = open(p, 'rb').read().replace(d.encode(), b'@BUILDDIR@')
            else:
                out[n] = None
        return out

    def classify(self):
        """file -> 'new' | 'old' | 'empty' | 'absent' | 'other' relative to the fresh configure / the v1 state."""
        cur = self.contents(self.build)
        res = {}
        for n, c in cur.items():
            if c is None:
                res[n] = 'absent'
            elif self.ref is not None and c == self.ref[n]:
                res[n] = 'new'
            elif c == self.v1[n]:
                res[n] = 'old'
            elif c == b'':
                res[n] = 'empty'
            else:
                res[n] = 'other'
        return res

    def start_regeneration(self, extra_env):
        """Start the regeneration the way spec['runner'] says.  Returns (rc, output)."""
        r = self.spec['runner']
        if r == 'make':
            rc, _, out = project.make(self.build, [], stub_tools=True, extra_env=extra_env)
            return rc, out
        if r == 'regen':
            return project.run_bfg(['regenerate', self.build], cwd=self.build, extra_env=extra_env)
        if r == 'regen_lazy':
            return project.run_bfg(['regenerate', '--lazy', self.build], cwd=self.build, extra_env=extra_env)
        if r == 'configure':
            return project.configure(self.src, self.build, backend=self.spec['backend'], extra_args=conf_args(self.spec, True, src=self.src),
                                     extra_env=dict(conf_env(self.spec, self.src) or {}, **extra_env))
        raise ValueError(r)

    def traced_run(self):
        """Uninterrupted traced regeneration from the snapshot state.  Returns (rc, ops of the bfg9000 process, probe)."""
        self.restore()
        probe = os.path.join(self.root, 'probe')
        rc, out = self.start_regeneration(verif_env(self.build, trace=self.trace, probe=probe))
        procs = read_trace(self.trace)
        ops = procs[0]['ops'] if procs else []
        pr = open(probe).read().split() if os.path.exists(probe) else []
        state = self.classify()
        return rc, out, procs, ops, pr, state


def regen_inputs(src, build, backend):
    """(inputs of the regeneration step as persisted in .bfg_find_cache, prerequisites of the regeneration rule in the build
    file), both as sorted lists of absolute paths; None when there is no find cache / no such rule."""
    try:
        data = json.load(open(os.path.join(build, '.bfg_find_cache')))['data']['regen_files']['inputs']
    except (OSError, ValueError, KeyError):
        return None
    roots = {'srcdir': src, 'builddir': build}
    saved = sorted(os.path.normpath(p if r == 'absolute' else os.path.join(roots[r], p)) for p, r, _ in data)
    text = open(os.path.join(build, 'Makefile' if backend == 'make' else 'build.ninja')).read()
    lines = text.split('\n')
    rule = None
    if backend == 'make':
        for i, line in enumerate(lines):
            if line.startswith('\t') and 'regenerate --lazy' in line and i and ':' in lines[i - 1]:
                rule = lines[i - 1].split(':', 1)[1].split()
    else:
        for line in lines:
            if line.startswith('build ') and ': regenerate' in line:
                rule = line.split(': regenerate', 1)[1].replace('|', ' ').split()
    if rule is None:
        return None
    out = []
    for w in rule:
        for var in ('$(srcdir)', '${srcdir}', '$srcdir'):
            w = w.replace(var, src)
        out.append(os.path.normpath(w if os.path.isabs(w) else os.path.join(build, w)))
    return saved, sorted(out)


def environ_state(build):
    """which options .bfg_environ holds: 'old' | 'new' | 'unreadable' (only meaningful for the history `options`)"""
    try:
        d = json.load(open(os.path.join(build, '.bfg_environ')))['data']
        pre = d['install_dirs']['prefix'][0]
    except Exception:
        return 'unreadable'
    return 'new' if pre.rstrip('/') == NEW_OPTIONS[0].split('=', 1)[1] else 'old'


def aux_state(build):
    """.bfg_find_deps and its temporary file after the fault: absent | empty | full (their bytes are the same in both
    generations when only a file was added to a watched directory, so old / new is not distinguished)."""
    out = {}
    for name, key in (('.bfg_find_deps', 'deps'), ('.bfg_find_deps.tmp', 'depstmp')):
        p = os.path.join(build, name)
        out[key] = 'absent' if not os.path.lexists(p) else ('empty' if os.path.getsize(p) == 0 else 'full')
    return out


def abstract_file(spec, path):
    """Trace path -> model file id."""
    if path == '.bfg_environ':
        return ('env',)
    if path == '.bfg_find_deps':
        return ('deps',)
    if path == '.bfg_find_deps.tmp':
        return ('depstmp',)
    if path == '.bfg_find_cache':
        return ('cache',)
    if path in ('Makefile', 'build.ninja'):
        return ('build',)
    if path == 'compile_commands.json':
        return ('compdb',)
    if path == 'pkgconfig':
        return ('immdir',)
    if path == '.':
        return ('builddir',)
    for i in range(spec['pkg']):
        if path == 'pkgconfig/hello%d.pc' % i:
            return ('imm', 2 * i)
        if path == 'pkgconfig/hello%d-uninstalled.pc' % i:
            return ('imm', 2 * i + 1)
    return ('other', path)


def abstract_ops(spec, ops):
    return [(o['op'],) + abstract_file(spec, o['path']) + (abstract_file(spec, o['dst']) if 'dst' in o else ())
            for o in ops]


# ----------------------------------------------------------------------------- one worker: a list of fault points
def run_points(spec, points, followups=2):
    """points: list of (n, kind).  Returns list of result dicts (one per point)."""
    results = []
    try:
        with Bench(spec) as b:
            for n, kind in points:
                b.restore()
                r = {'n': n, 'kind': kind, 'spec': spec}
                env = verif_env(b.build, trace=b.trace, fault='%d:%s' % (n, kind))
                rc, out = b.start_regeneration(env)
                procs = read_trace(b.trace)
                ops = procs[0]['ops'] if procs else []
                r['fault_rc'] = rc
                r['fault_out'] = out[-400:]
                r['fired'] = any('fault' in o for p in procs for o in p['ops'])
                r['fault_ops'] = abstract_ops(spec, ops)
                r['after_fault'] = b.classify()
                r['after_fault_aux'] = aux_state(b.build)
                bf = b.watched()[0]
                r['build_identical'] = b.contents(b.build)[bf] == b.v1[bf]
                r['same'] = {n: b.ref[n] == b.v1[n] for n in b.ref} if b.ref is not None else {}
                r['env_state'] = environ_state(b.build)
                r['attempts'] = []
                for k in range(followups):
                    probe = os.path.join(b.root, 'probe')
                    if os.path.exists(probe):
                        os.remove(probe)
                    if os.path.exists(b.trace):
                        os.remove(b.trace)
                    if k == 0 and spec.get('followup') == 'lazy':
                        # the backend's own regeneration command, run by hand
                        rc, out = project.run_bfg(['regenerate', '--lazy', b.build], cwd=b.build,
                                                  extra_env=verif_env(b.build, probe=probe, trace=b.trace))
                    else:
                        rc, _, out = project.make(b.build, [], stub_tools=True,
                                                  extra_env=verif_env(b.build, probe=probe, trace=b.trace))
                    pr = sorted(set(open(probe).read().split())) if os.path.exists(probe) else []
                    regen = [abstract_ops(spec, p['ops']) for p in read_trace(b.trace) if 'regenerate' in p['argv']]
                    r['attempts'].append({'rc': rc, 'state': b.classify(), 'out': out[-400:], 'bfg_from': pr,
                                          'regen_ops': regen})
                results.append(r)
    except Exception:
        results.append({'error': traceback.format_exc(), 'spec': spec, 'points': points})
    return results


def pool_map(jobs, workers=14):
    """jobs: list of (spec, points). Runs run_points in a process pool; returns flat list of results."""
    out = []
    with concurrent.futures.ProcessPoolExecutor(max_workers=workers) as ex:
        futs = [ex.submit(run_points, spec, pts) for spec, pts in jobs]
        for f in futs:
            out.extend(f.result())
    return out


def split(points, k):
    k = max(1, min(k, len(points)))
    return [points[i::k] for i in range(k)]


# ----------------------------------------------------------------------------- oracle
def idx(aops, op, *f):
    for i, o in enumerate(aops):
        if o[0] == op and tuple(o[1:]) == f:
            return i
    return None


def crash_state(n, kind):
    """Number of mutations that took effect: the model's crash index."""
    return n + (1 if kind.endswith('after') else 0)


def classify_failure(spec, aops, c, stale):
    """Finding classes of a silently-stale outcome: predicates on the input (project features + crash state c = number of
    mutations of the uninterrupted run `aops` that took effect) and on which files are stale."""
    cls = []
    cc, bc = idx(aops, 'close', 'cache'), idx(aops, 'close', 'build')
    do, dc = idx(aops, 'open', 'deps'), idx(aops, 'close', 'deps')
    bf = 'Makefile' if spec['backend'] == 'make' else 'build.ninja'
    script_untouched = spec['edit'] in ('dir', 'touch')      # build.bfg itself is not newer than the build file
    if spec['find'] and script_untouched and cc is not None and bc is not None and cc < c <= bc and bf in stale:
        cls.append(WINDOW_CLASS)
    if spec['find'] and script_untouched and spec['backend'] == 'make' and do is not None and c == do + 1 \
            and dc == do + 1 and bf in stale:
        cls.append(DEPFILE_CLASS)
    if bc is not None and c > bc and set(stale) == {'compile_commands.json'}:
        cls.append(COMPDB_CLASS)
    return tuple(cls)


def classify_reconfigure(spec, aops, c, k, state, stale):
    """Finding classes of the history `options` (input predicate: project features, crash state, which follow-up; failure
    signature: which files are stale and how)."""
    cls = []
    ec, co = idx(aops, 'close', 'env'), idx(aops, 'open', 'cache')
    bo, bc = idx(aops, 'open', 'build'), idx(aops, 'close', 'build')
    bf = 'Makefile' if spec['backend'] == 'make' else 'build.ninja'
    # the new options are saved, this run has not touched the find cache yet
    if co is None:
        # the uninterrupted run never wrote the cache file: the window then ends before the find hook's last depfile
        # mutation (once the depfile is complete the cache save - no mutation here - is over as well, and from there on a
        # correct implementation has left its marker)
        dl = [i for i, o in enumerate(aops) if o[0] in ('open', 'close', 'rename') and o[-1] in ('deps', 'depstmp')]
        co = dl[-1] if dl else None
    if spec['find'] and ec is not None and co is not None and ec < c <= co and state.get(bf) == 'old':
        cls.append(RECONF_CLASS)
    if spec['find'] and spec.get('followup') == 'lazy' and k == 0 and bo is not None and bc is not None and bo < c <= bc \
            and state.get(bf) == 'empty' and set(stale) <= {bf, 'compile_commands.json'}:
        cls.append(TRUNC_CLASS)
    if bc is not None and c > bc and set(stale) == {'compile_commands.json'}:
        cls.append(COMPDB_CLASS)
    return tuple(cls)


def judge(rep, r, aops):
    """Apply the property to one experiment.  Returns number of (unknown) violations."""
    spec = r['spec']
    c = crash_state(r['n'], r['kind'])
    bad = 0
    # the history `options`: the next regeneration uses the options that .bfg_environ holds; when the cut came before the new
    # options were saved that is the old configuration, and the files of the old configure are the uninterrupted result
    expect = 'new'
    if spec['edit'] == 'options' and r.get('env_state') == 'old':
        expect = 'old'
    for k, a in enumerate(r['attempts']):
        stale = sorted(f for f, s in a['state'].items() if s != expect and not (expect == 'old' and r.get('same', {}).get(f)))
        if spec['edit'] == 'options' and not a['regen_ops']:
            continue        # nothing in the tree changed: a make that does not start bfg9000 is no regeneration attempt
        if a['rc'] == 0 and stale:
            cls = classify_reconfigure(spec, aops, c, k, a['state'], stale) if spec['edit'] == 'options' else \
                classify_failure(spec, aops, c, stale)
            what = ('%s; regeneration cut after %d of %d mutations (%s at mutation %d = %s); follow-up #%d (%s) exits 0 while %s%s'
                    % (spec_key(spec), c, len(aops), r['kind'], r['n'],
                       ' '.join(map(str, aops[r['n']])) if r['n'] < len(aops) else '-',
                       k + 1, 'regenerate --lazy' if k == 0 and spec.get('followup') == 'lazy' else 'make',
                       ', '.join('%s is %s' % (f, a['state'][f]) for f in stale),
                       ' (.bfg_environ holds the %s options)' % r.get('env_state') if spec['edit'] == 'options' else ''))
            rep.count('silently-stale:' + (cls[0] if cls else 'UNCLASSIFIED'))
            if rep.fail(what, {'spec': spec, 'n': r['n'], 'kind': r['kind'], 'crash_state': c, 'attempt': k + 1,
                               'ops': [list(o) for o in aops], 'stale': {f: a['state'][f] for f in stale},
                               'make_output': a['out'], 'replay_hint': './check C10 --replay <this file>'}, classes=cls):
                bad += 1
            break       # one report per experiment
    # a failure (exception) before the build file is opened must leave it byte-identical
    bo = idx(aops, 'open', 'build')
    if r['kind'].startswith('raise') and bo is not None and c <= bo and not r['build_identical']:
        if rep.fail('%s; an exception after %d mutations (before the build file is opened) changed the build file'
                    % (spec_key(spec), c), {'spec': spec, 'n': r['n'], 'kind': r['kind'], 'ops': [list(o) for o in aops]}):
            bad += 1
    return bad


# ----------------------------------------------------------------------------- model side
OPN = {0: 'open', 1: 'close', 2: 'remove', 3: 'utime', 4: 'makedirs', 5: 'rename'}
FILEN = {0: ('env',), 2: ('deps',), 3: ('cache',), 4: ('build',), 5: ('stamp',), 6: ('compdb',), 7: ('builddir',),
         8: ('immdir',), 9: ('depstmp',)}
STATE = {0: 'absent', 1: 'empty', 2: 'old', 3: 'new'}
AUX = {0: 'absent', 1: 'empty', 2: 'full', 3: 'full'}
EDITS = {'dir': [False, True, False], 'script': [True, False, False], 'both': [True, True, False],
         'touch': [False, False, True],
         # the toolchain file is an explicit input of the regeneration step like the scripts: e_script = some explicit input is
         # newer than the outputs
         'toolchain': [True, False, False]}


def dec_op(r):
    """[op, file...] (a rename carries two files; an immediate file is [1, k])"""
    out, i = (OPN[r[0]],), 1
    while i < len(r):
        if r[i] == 1:
            out += ('imm', r[i + 1])
            i += 2
        else:
            out += FILEN[r[i]]
            i += 1
    return out


def m_proj(spec):
    return [spec['find'], 2 * spec['pkg'], spec['compdb']]


def m_kind(spec):
    if spec['runner'] == 'configure':
        return 1
    if spec['edit'] == 'touch' and spec['runner'] in ('make', 'regen_lazy'):
        return 2
    return 0


def canon_state(spec, same, names, mstates):
    """Model states (build, imm list, compdb) -> {file name: class}; Old and New coincide for a file whose bytes are the
    same in both generations."""
    build, imm, compdb = mstates
    codes = [build] + list(imm) + ([compdb] if spec['compdb'] else [])
    out = {}
    for n, c in zip(names, codes):
        s = STATE[c]
        if s == 'old' and same.get(n):
            s = 'new'
        out[n] = s
    return out


def model_outcomes(spec, same, names, cs, k=2):
    """For crash states cs: [(crash state classes, [(ok, regen started, {file: class})...], safe?)]."""
    calls = [('crash.outcome', [list(VARIANT), m_proj(spec), EDITS[spec['edit']], c, k]) for c in cs]
    raw = common.model_batch(calls)
    out = []
    for r in raw:
        st0 = canon_state(spec, same, names, (r[0][0], r[0][1], r[0][2]))
        aux = {'deps': AUX[r[0][3]], 'depstmp': AUX[r[0][4]]}
        atts = [(bool(a[0]), bool(a[1]), canon_state(spec, same, names, (a[2], a[3], a[4]))) for a in r[1]]
        out.append((st0, atts, bool(r[2]), aux))
    return calls, raw, out


def reconf_tie(spec, rs, tr):
    """W:outcome for the history `options` (State/Crash.v reconf_followup): for every experiment the state right after the
    cut (incl. which options .bfg_environ holds), the by-hand lazy follow-up (exit status, states) and, from the point at
    which the new options are saved, the verdict (reconf_ok) and the classification (reconf_bad = the two open findings)."""
    dis = []
    shift = 1 if spec['runner'] == 'configure' else 0
    cs = [max(0, crash_state(r['n'], r['kind']) - shift) for r in rs]
    calls = [('crash.reconf', [list(VARIANT), m_proj(spec), c]) for c in cs]
    raw = common.model_batch(calls)
    envn = {0: 'unreadable', 1: 'unreadable', 2: 'old', 3: 'new'}
    for r, c, m in zip(rs, cs, raw):
        st0 = canon_state(spec, tr['same'], tr['names'], (m[0][0], m[0][1], m[0][2]))
        real0 = (r['after_fault'], r['env_state'])
        if real0 != (st0, envn[m[0][3]]):
            dis.append(('crash.reconf/after-fault', spec, (r['n'], r['kind']), real0, (st0, envn[m[0][3]])))
        a = r['attempts'][0]
        mod = (bool(m[1][0]), canon_state(spec, tr['same'], tr['names'], (m[1][1], m[1][2], m[1][3])))
        if c == 0:
            # .bfg_environ still holds the OLD options: whatever the follow-up writes is written with them (the model's
            # generation New means `written with the new options`, so only the exit status and the real files - all as the
            # old configure left them - are compared)
            if a['rc'] != 0 or not mod[0] or any(v != 'old' and not tr['same'].get(f) for f, v in a['state'].items()):
                dis.append(('crash.reconf/followup-old-options', spec, (r['n'], r['kind']), (a['rc'] == 0, a['state']), mod[0]))
        elif (a['rc'] == 0, a['state']) != mod:
            dis.append(('crash.reconf/followup', spec, (r['n'], r['kind']), (a['rc'] == 0, a['state']), mod))
        if c >= 2:
            real_ok = a['rc'] != 0 or all(v == 'new' for f, v in a['state'].items() if f != 'compile_commands.json')
            if real_ok != bool(m[2]):
                dis.append(('crash.reconf/reconf_ok', spec, (r['n'], r['kind']), real_ok, bool(m[2])))
            if spec['find'] and VARIANT[2] and not VARIANT[0] and bool(m[2]) == bool(m[3]):
                dis.append(('crash.reconf/classified', spec, (r['n'], r['kind']), bool(m[2]), bool(m[3])))
    return dis, calls, raw


# ----------------------------------------------------------------------------- stages
def stage_trace(rep, specs):
    """W:run_ops - the recorded mutation sequence of the real run against the model's list."""
    dis = []
    traces = {}
    calls, raws = [], []
    with concurrent.futures.ProcessPoolExecutor(max_workers=16) as ex:
        futs = [ex.submit(trace_one, s) for s in specs]
        outs = [f.result() for f in futs]
    for spec, o in zip(specs, outs):
        key = spec_key(spec) + ' backend=' + spec['backend']
        if 'error' in o:
            rep.fail('cannot record the run of ' + key, {'obligation': 'W:run_ops', 'spec': spec, 'error': o['error']},
                     found_input=False)
            continue
        aops = [tuple(x) for x in o['aops']]
        traces[spec_key(spec)] = (aops, o)
        call = ('crash.run_ops', [list(VARIANT), m_kind(spec), m_proj(spec)])
        raw = common.model_batch([call])[0]
        calls.append(call); raws.append(raw)
        mops = [dec_op(r) for r in raw]
        rep.case('trace:' + key, len(aops) > 2)
        rep.count('trace:runner=%s,kind=%d,backend=%s' % (spec['runner'], m_kind(spec), spec['backend']))
        rep.traces += 1
        if mops != aops:
            dis.append(('crash.run_ops', spec, aops, mops))
        if not all(p.startswith(common.REPO + os.sep) for p in o['probe']) or not o['probe']:
            rep.fail('the bfg9000 started during the run is not the one under test: %r' % (o['probe'],),
                     {'obligation': 'probe', 'spec': spec, 'probe': o['probe']}, found_input=False)
        # an uninterrupted regeneration must succeed and equal the fresh configure (sanity of the reference)
        if o['rc'] != 0 or any(v != 'new' for v in o['state'].values()):
            rep.fail('%s: the uninterrupted regeneration exits %d with %r (expected 0 and files equal to a fresh configure)'
                     % (key, o['rc'], o['state']), {'spec': spec, 'rc': o['rc'], 'state': o['state'], 'out': o['out']})
        # oracle:regen_inputs - what `regenerate --lazy` compares is what the build tool compares
        for which, ri in sorted(o.get('regen_inputs', {}).items()):
            if ri is None:
                continue
            rep.case('regen_inputs:%s:%s' % (key, which), len(ri[1]) > 1)
            rep.count('regen_inputs:%d' % len(ri[1]))
            if ri[0] != ri[1]:
                rep.fail('%s (%s build directory): the regeneration rule of the build file has the prerequisites %r, the inputs '
                         'persisted in .bfg_find_cache for `regenerate --lazy` are %r: an edit of %r starts a lazy regeneration '
                         'that sees nothing newer' % (key, which, ri[1], ri[0], sorted(set(ri[1]) - set(ri[0]))),
                         {'spec': spec, 'which': which, 'rule_prerequisites': ri[1], 'saved_inputs': ri[0]})
    rep.sample({'stage': 'W:run_ops', 'spec': spec_key(specs[0]), 'ops': [' '.join(map(str, x)) for x in
                                                                            traces.get(spec_key(specs[0]), ([], 0))[0]]})
    n, ok, detail = common.vm_crosscheck(calls, raws, limit=40)
    rep.stage('W:run_ops', traces=len(specs), disagreements=len(dis), vm_compute_rechecked=n, vm_agrees=ok)
    if not ok:
        rep.fail('extraction glue: ' + detail, {'obligation': 'vm_compute == extracted model', 'detail': detail},
                 found_input=False)
    return traces, dis


def trace_one(spec):
    try:
        with Bench(spec) as b:
            rc, out, procs, ops, pr, state = b.traced_run()
            return {'rc': rc, 'out': out[-500:], 'aops': abstract_ops(spec, ops), 'probe': sorted(set(pr)), 'state': state,
                    'same': {n: b.ref[n] == b.v1[n] for n in b.ref}, 'names': b.watched(),
                    'regen_inputs': {'regenerated': regen_inputs(b.src, b.build, spec['backend']),
                                     'fresh': regen_inputs(b.src, b.fresh, spec['backend'])}}
    except Exception:
        return {'error': traceback.format_exc()}


def stage_crash(rep, specs, traces, kinds, followups=2):
    """oracle:crash (the property itself on the real code, every mutation point) and W:outcome (the same experiments
    against the model)."""
    jobs = []
    for spec in specs:
        if spec_key(spec) not in traces:
            continue
        aops, _ = traces[spec_key(spec)]
        pts = corpus_points(spec, aops) if spec.get('points') else \
            [(n, k) for n in range(len(aops)) for k in kinds]
        jobs += [(spec, p) for p in split(pts, max(1, 14 // len(specs)))]
    res = pool_map(jobs)
    dis, bad, calls_all, raw_all = [], 0, [], []
    by_spec = {}
    for r in res:
        if 'error' in r:
            rep.fail('fault-injection worker failed', {'obligation': 'oracle:crash', 'error': r['error'], 'spec': r['spec']},
                     found_input=False)
            continue
        by_spec.setdefault(spec_key(r['spec']), []).append(r)
    for spec in specs:
        rs = sorted(by_spec.get(spec_key(spec), []), key=lambda r: (r['n'], r['kind']))
        if not rs:
            continue
        aops, tr = traces[spec_key(spec)]
        for r in rs:
            c = crash_state(r['n'], r['kind'])
            for k, a in enumerate(r['attempts']):
                rep.case('crash:%s c=%d state=%s a=%d' % (spec_key(spec), c, sorted(r['after_fault'].items()), k), r['fired'])
            rep.count('fault:' + r['kind'])
            rep.count('followup-1:' + ('visible-failure' if r['attempts'][0]['rc'] else
                                       ('all-new' if all(v == 'new' for v in r['attempts'][0]['state'].values())
                                        else 'exit0-stale')))
            if not r['fired']:
                rep.fail('fault %d:%s did not fire' % (r['n'], r['kind']), {'obligation': 'oracle:crash', 'r': r},
                         found_input=False)
            bad += judge(rep, r, aops)
        # model side (not for lazy-skip runs: their mutation list is skip_ops, crash states of run_ops do not apply)
        if spec['edit'] == 'options':
            if spec.get('followup') == 'lazy':
                d, calls, raw = reconf_tie(spec, rs, tr)
                dis += d
                calls_all += calls; raw_all += raw
            continue
        if m_kind(spec) == 2:
            continue
        shift = 1 if spec['runner'] == 'configure' else 0
        cs = [max(0, crash_state(r['n'], r['kind']) - shift) for r in rs]
        calls, raw, outs = model_outcomes(spec, tr['same'], tr['names'], cs, k=followups)
        calls_all += calls; raw_all += raw
        for r, (st0, atts, safe, aux) in zip(rs, outs):
            real0 = r['after_fault']
            # the depfile and its temporary file right after the fault (ties Open/WriteClose/Rename on them)
            if r['after_fault_aux'] != aux:
                dis.append(('crash.outcome/depfile', spec, (r['n'], r['kind']), r['after_fault_aux'], aux))
            real = [(a['rc'] == 0, bool(a['regen_ops']), a['state']) for a in r['attempts']]
            if real0 != st0 or real != atts:
                dis.append(('crash.outcome', spec, (r['n'], r['kind']), (real0, real), (st0, atts)))
            # the model's verdict and the oracle's verdict on the declared outputs must agree as well
            real_safe = all((not ok) or all(v == 'new' for f, v in st.items() if f != 'compile_commands.json')
                            for ok, _, st in real)
            if real_safe != safe:
                dis.append(('crash.outcome/safe_at', spec, (r['n'], r['kind']), real_safe, safe))
        rep.sample({'stage': 'oracle:crash', 'spec': spec_key(spec), 'points': len(rs),
                    'example': {'n': rs[len(rs) // 2]['n'], 'kind': rs[len(rs) // 2]['kind'],
                                'after_fault': rs[len(rs) // 2]['after_fault'],
                                'followups': [(a['rc'], a['state']) for a in rs[len(rs) // 2]['attempts']]}})
    n, ok, detail = common.vm_crosscheck(calls_all, raw_all, limit=60)
    rep.stage('oracle:crash', experiments=len(res), unknown_failures=bad)
    rep.stage('W:outcome', cases=len(calls_all), disagreements=len(dis), vm_compute_rechecked=n, vm_agrees=ok)
    if not ok:
        rep.fail('extraction glue: ' + detail, {'obligation': 'vm_compute == extracted model', 'detail': detail},
                 found_input=False)
    return bad, dis


def raise_one(spec):
    """A regeneration whose script (or rule emission) raises: exit status, build file identical?, then one make."""
    try:
        with Bench(spec) as b:
            b.restore()
            bf = b.watched()[0]
            rc, out = b.start_regeneration(verif_env(b.build, trace=b.trace))
            procs = read_trace(b.trace)
            ops = abstract_ops(spec, procs[0]['ops']) if procs else []
            same1 = b.contents(b.build)[bf] == b.v1[bf]
            rc2, _, out2 = project.make(b.build, [], stub_tools=True)
            same2 = b.contents(b.build)[bf] == b.v1[bf]
            # fail-then-correct: the mistake is repaired and the regeneration started again, by make or (a project with a find
            # cache may take the lazy short cut) by the backend's own command run by hand and then make
            time.sleep(0.03)
            apply_correction(spec, b.src)
            time.sleep(0.03)
            rcf, o = project.configure(b.src, b.fresh, backend=spec['backend'], extra_args=conf_args(spec, True, src=b.src),
                                       extra_env=conf_env(spec, b.src))
            if rcf != 0:
                raise RuntimeError('fresh configure of the corrected tree failed: ' + o[-600:])
            b.ref = b.contents(b.fresh)
            rc3, out3 = 0, ''
            if spec.get('followup') == 'lazy':
                rc3, out3 = project.run_bfg(['regenerate', '--lazy', b.build], cwd=b.build)
            if rc3 == 0:
                rc3, _, out3 = project.make(b.build, [], stub_tools=True)
            return {'rc': rc, 'out': out[-500:], 'ops': ops, 'identical': same1, 'rc2': rc2, 'identical2': same2,
                    'out2': out2[-300:], 'rc3': rc3, 'state3': b.classify(), 'out3': out3[-400:],
                    'regen_inputs': regen_inputs(b.src, b.build, spec['backend'])}
    except Exception:
        return {'error': traceback.format_exc()}


# what a script, a toolchain file or bfg9000 itself may raise: ordinary errors, OSErrors WITH an errno (a failed system
# call) and OSErrors carrying only a message (what shell.which / choose_builder raise when a tool lookup fails), exit codes
RAISE_EXCS = ["RuntimeError('C10 injected failure')", "ValueError('C10 injected failure')", "KeyError('c10')",
              "FileNotFoundError('C10: unable to find executable (message only)')", "OSError('C10 message only')",
              "PermissionError('C10 message only')", "FileNotFoundError(2, 'C10 with errno', 'c10file')",
              "OSError(28, 'C10 no space left')", "NotADirectoryError()", "TimeoutError('C10')", "AssertionError()",
              "Exception()", "SystemExit(3)", "SystemExit('C10 text status')"]
# open finding C10-script-exit-code-multiple-of-256: exit(256) in a script is a failure (truthy code: ScriptExitError) whose
# code the driver hands to sys.exit unchanged - the process status is 256 mod 256 = 0.  Class: the exception is a script exit
# with a non-zero multiple of 256 AND the status is 0; probed by the exit-status law only
EXIT256_CLASS = 'script-exit-code-multiple-of-256'
EXIT256_EXCS = ["SystemExit(256)", "SystemExit(512)"]
# finding C10-options-filenotfounderror-swallowed (repaired by 1b55cd9; a fixed entry suppresses nothing): build._execute_options caught FileNotFoundError around the whole
# execution of options.bfg (meant for a missing file), so a FileNotFoundError raised INSIDE options.bfg ends the script
# silently and the run goes on.  Class: options.bfg raises FileNotFoundError AND the run exits 0 AND wrote the build file
OPTS_FNF_CLASS = 'options-file-filenotfounderror-swallowed'


def exit_law_classes(exc, place, rc, out, written):
    c = []
    if exc in EXIT256_EXCS and 'failed with exit status %s' % exc[11:-1] in out and not written:
        c.append(EXIT256_CLASS)
    if place == 'options.bfg' and exc.startswith('FileNotFoundError(') and rc == 0 and written:
        c.append(OPTS_FNF_CLASS)
    return tuple(c)


def exit_law_one(exc):
    """The exit status of the driver: a configure / a regeneration (plain and --lazy) whose build.bfg or toolchain file raises
    `exc` must end with a non-zero status.  Returns [(command, place, rc, output tail)]."""
    res = []
    try:
        with project.Scratch('c10x') as sc:
            tc = os.path.join(sc.root, 'tc.bfg')
            good = {'build.bfg': "project('p', '1.0')\n", 'options.bfg': "argument('name')\n"}
            project.write_tree(sc.src, good)
            with open(tc, 'w') as f:
                f.write("environ['C10X'] = '1'\n")
            rc, out = project.configure(sc.src, sc.build, extra_args=['--toolchain', tc])
            if rc != 0:
                return {'error': 'configure of the sound project failed: ' + out[-400:]}
            for place in ('build.bfg', 'toolchain file', 'options.bfg'):
                path = tc if place == 'toolchain file' else os.path.join(sc.src, place)
                keep = open(path).read()
                with open(path, 'w') as f:
                    f.write(keep + 'raise %s\n' % exc)
                for cmd in ('regenerate', 'regenerate --lazy', 'configure'):
                    mk = os.path.join(sc.root, 'b2' if cmd == 'configure' else 'build', 'Makefile')
                    before = os.stat(mk).st_mtime_ns if os.path.exists(mk) else None
                    if cmd == 'configure':
                        rc, out = project.configure(sc.src, os.path.join(sc.root, 'b2'), extra_args=['--toolchain', tc])
                    else:
                        rc, out = project.run_bfg(cmd.split() + [sc.build], cwd=sc.build)
                    written = os.path.exists(mk) and os.stat(mk).st_mtime_ns != before
                    shutil.rmtree(os.path.join(sc.root, 'b2'), ignore_errors=True)
                    res.append((cmd, place, rc, out[-300:], written))
                with open(path, 'w') as f:
                    f.write(keep)
        return {'exc': exc, 'runs': res}
    except Exception:
        return {'error': traceback.format_exc()}


def status_of(r):
    """What sys.exit(r) makes the parent see."""
    if r is None:
        return 0
    if isinstance(r, int):
        return r & 0xFF
    return 1


def stage_w_exit(rep, rng, n):
    """W:exit_status - the value driver.handle_reload_exception returns for an exception (ScriptExitError with integer / text
    codes, OSError subclasses with and without errno, other exceptions), passed through sys.exit, against the model
    exit_status; direct law: a failed run never has status 0."""
    import logging
    from bfg9000 import driver, build as bbuild
    from bfg9000.environment import EnvVersionError
    oserrs = [OSError, FileNotFoundError, PermissionError, NotADirectoryError, IsADirectoryError, FileExistsError,
              TimeoutError, ConnectionError, BlockingIOError]
    others = [RuntimeError, ValueError, TypeError, KeyError, AttributeError, NameError, IndexError, AssertionError,
              ZeroDivisionError, Exception, EnvVersionError, UnicodeError, NotImplementedError, StopIteration]
    cases = []
    for code in [1, 2, 3, 127, 255, 256, 512, 'text', 'x']:
        cases.append(([0, [0, code] if isinstance(code, int) else [1, True]], bbuild.ScriptExitError('build.bfg', code)))
    for _ in range(n):
        k = rng.random()
        if k < 0.25:
            code = rng.randrange(1, 256)
            cases.append(([0, [0, code]], bbuild.ScriptExitError('build.bfg', code)))
        elif k < 0.7:
            cls = rng.choice(oserrs)
            if rng.random() < 0.5:
                cases.append(([1, []], cls(rng.choice(['unable to find executable', 'no working c compiler found', '']))))
            else:
                errno_ = rng.choice([1, 2, 13, 17, 20, 21, 28, 30, rng.randrange(1, 132)])
                cases.append(([1, [errno_]], OSError(errno_, os.strerror(errno_), 'some/file')))
        else:
            cases.append(([2], rng.choice(others)('message')))
    calls, res = [], []
    bad = 0
    logging.disable(logging.CRITICAL)
    try:
        for arg, e in cases:
            r = driver.handle_reload_exception(e, suggest_rerun=rng.random() < 0.5)
            st = status_of(r)
            rep.case('exit:%r:%r' % (type(e).__name__, getattr(e, 'errno', None) or getattr(e, 'code', None)), True)
            rep.count('exit:' + ('script-exit' if arg[0] == 0 else 'other' if arg[0] == 2 else
                                 'oserror-errno' if arg[1] else 'oserror-message-only'))
            calls.append(('exit.status', arg)); res.append(st)
            if st == 0:
                if rep.fail('exit status: a regeneration that ends with %s(%s) makes bfg9000 exit with status 0 '
                            '(handle_reload_exception returns %r): make takes the failed regeneration step for a success'
                            % (type(e).__name__, ', '.join(repr(a) for a in e.args), r),
                            {'kind': 'handler-status', 'exception': type(e).__name__, 'args': [repr(a) for a in e.args],
                             'returned': repr(r)},
                            classes=(EXIT256_CLASS,) if (arg[0] == 0 and isinstance(r, int) and r != 0 and r % 256 == 0
                                                         and r == getattr(e, 'code', None)) else ()):
                    bad += 1
    finally:
        logging.disable(logging.NOTSET)
    dis = common.compare_model(rep, 'W:exit_status', calls, res, lambda name, raw: raw)
    return bad, [('exit_status', {}, c[1], iv, mv) for _, c, iv, mv in dis]


def stage_script_raise(rep, rng, thorough):
    """oracle:script_raise - a build script that raises (and a rule emission that raises) leaves the previously
    generated build file untouched and the failure is visible; W:raise - the mutations performed before the exception
    are a prefix of pre_ops (model: until_raise (run_events p j))."""
    specs = []
    for how in ('script', 'emit'):
        for runner in (('make', 'regen', 'configure') if thorough else ('make', 'regen')):
            specs.append({'find': rng.random() < 0.7, 'pkg': rng.choice([0, 1, 2]) if thorough else 1, 'inst': True,
                          'compdb': True, 'edit': 'script', 'runner': runner, 'backend': 'make', 'script_raise': how,
                          'tc': rng.random() < 0.3, 'followup': rng.choice(['make', 'lazy'])})
    # the edited toolchain file raises; with and without a find cache; corrected, then make / regenerate --lazy by hand
    for runner, find, followup in ((('make', True, 'make'), ('regen_lazy', True, 'lazy'), ('make', False, 'make'),
                                    ('regen', True, 'lazy'), ('configure', True, 'make')) if thorough else
                                   (('make', True, 'make'), ('regen_lazy', True, 'lazy'), ('make', False, 'make'))):
        specs.append({'find': find, 'pkg': rng.choice([0, 1, 2]), 'inst': rng.random() < 0.6, 'compdb': True,
                      'edit': 'toolchain', 'runner': runner, 'backend': 'make', 'script_raise': 'toolchain', 'tc': True,
                      'followup': followup})
    # two edits at once: the toolchain file gains / loses an additional variable (or changes a value) while build.bfg or a
    # rule emission fails - the attempt fails AFTER the environment was saved; the correction repairs the script and either
    # keeps the toolchain edit or takes it back (the variable line is gone again); then make / regenerate --lazy / regenerate
    combos = [('script', 'make', 'make', 'v2', True), ('emit', 'regen', 'lazy', 'v2', True),
              ('script', 'regen_lazy', 'make', 'v1', True), ('emit', 'make', 'make', 'v2', False)]
    if thorough:
        combos += [(how, runner, fu, ex, bo) for how in ('script', 'emit') for runner in ('make', 'regen', 'configure')
                   for fu in ('make', 'lazy') for ex in ('v1', 'v2', 'both') for bo in (True, False)][::3]
    for how, runner, followup, extra, backout in combos:
        specs.append({'find': rng.random() < 0.7, 'pkg': rng.choice([0, 1, 2]), 'inst': rng.random() < 0.6, 'compdb': True,
                      'edit': rng.choice(['script', 'toolchain']), 'runner': runner, 'backend': 'make', 'script_raise': how,
                      'tc': True, 'followup': followup, 'tc_extra': extra,
                      'tc_var': rng.choice(sorted(v for v in TC_VARS if TC_VARS[v])), 'tc_backout': backout})
    # the edited toolchain file itself raises after setting the additional variable; the edit is taken back
    specs.append({'find': True, 'pkg': 1, 'inst': True, 'compdb': True, 'edit': 'toolchain', 'runner': 'make', 'backend': 'make',
                  'script_raise': 'toolchain', 'tc': True, 'followup': 'make', 'tc_extra': 'v2',
                  'tc_var': rng.choice(sorted(TC_VARS)), 'tc_backout': True})
    # the class of the exception a raising script / toolchain file raises varies
    for sp in specs:
        if sp['script_raise'] in ('script', 'toolchain'):
            sp['raise_exc'] = rng.choice(RAISE_EXCS)
    # failures by ENVIRONMENT: a tool chosen at configure time (CC= / CXX= wrapper, a program that build.bfg or the toolchain
    # file looks up) stops working or disappears before the regeneration; later it is repaired and nothing else changes
    envs = [('cc-broken', 'make', 'dir', 'make'), ('cxx-broken', 'make', 'dir', 'make'), ('script-tool', 'make', 'script', 'lazy'),
            ('tc-which', 'regen_lazy', 'dir', 'make'), ('tc-compiler', 'make', 'toolchain', 'make'),
            ('cc-broken', 'regen', 'script', 'make')]
    if thorough:
        envs += [(m, r, e, f) for m in sorted(ENV_MODES) for r in ('make', 'regen', 'regen_lazy', 'configure')
                 for e in ('dir', 'script') for f in ('make', 'lazy')][::4]
    else:
        rng.shuffle(envs)
        envs = envs[:5]
    for mode, runner, edit, followup in envs:
        specs.append({'find': True, 'pkg': rng.choice([0, 1, 1, 2]), 'inst': rng.random() < 0.6, 'compdb': rng.random() < 0.7,
                      'edit': edit, 'runner': runner, 'backend': 'make', 'script_raise': 'env', 'envfail': mode,
                      'cxx': mode == 'cxx-broken' or rng.random() < 0.3, 'tc': mode.startswith('tc-') or rng.random() < 0.2,
                      'followup': followup})
    excs = (RAISE_EXCS if thorough else RAISE_EXCS[:1] + rng.sample(RAISE_EXCS[1:], 7)) + [rng.choice(EXIT256_EXCS)]
    bad, dis = 0, []
    with concurrent.futures.ProcessPoolExecutor(max_workers=14) as ex:
        law = [ex.submit(exit_law_one, e) for e in excs]
        outs = list(ex.map(raise_one, specs))
        law = [f.result() for f in law]
    nlaw = 0
    for e, o in zip(excs, law):
        if 'error' in o:
            rep.fail('cannot run the exit-status law for ' + e, {'obligation': 'oracle:exit_status', 'error': o['error']},
                     found_input=False)
            continue
        for cmd, place, rc, out, written in o['runs']:
            nlaw += 1
            rep.case('exit-status:%s:%s:%s' % (e, place, cmd), True)
            if rc == 0:
                if rep.fail('exit status: `bfg9000 %s` of a project whose %s raises %s exits 0 %s (a failed %s must be visible to '
                            'whoever started it: make touches the stamp / keeps the old build file and never retries)'
                            % (cmd, place, e, 'and writes the build file as if nothing had happened' if written else
                               'without writing the build file', 'configure' if cmd == 'configure' else 'regeneration'),
                            {'kind': 'exit-status', 'exc': e, 'place': place, 'command': cmd, 'rc': rc, 'output': out,
                             'build_file_written': written},
                            classes=exit_law_classes(e, place, rc, out, written)):
                    bad += 1
    rep.stage('oracle:exit_status', runs=nlaw, exception_classes=len(excs))
    for spec, o in zip(specs, outs):
        key = spec_key(spec) + ' raise=' + spec['script_raise'] + (' (%s)' % spec['raise_exc'] if spec.get('raise_exc') else '')
        if 'error' in o:
            rep.fail('cannot run ' + key, {'obligation': 'oracle:script_raise', 'error': o['error']}, found_input=False)
            continue
        rep.case('raise:' + key, True)
        rep.count('raise:' + spec['script_raise'] + (':' + spec['envfail'] if spec.get('envfail') else ''))
        if spec.get('envfail') and o['rc'] != 0 and not any(t in o['out'] for t in ('unable to find', 'no working')):
            rep.fail('%s: the regeneration failed, but not because of the tool: %s' % (key, o['out'][-300:]),
                     {'obligation': 'oracle:script_raise', 'spec': spec, 'result': o}, found_input=False)
        if o['rc'] == 0 or not o['identical'] or o['rc2'] == 0 or not o['identical2']:
            if rep.fail('%s: the failing regeneration exits %d (build file identical: %s); the next make exits %d (identical: %s)'
                        % (key, o['rc'], o['identical'], o['rc2'], o['identical2']), {'spec': spec, 'result': o}):
                bad += 1
        # fail-then-correct: once the mistake is repaired the next attempt must fail visibly or bring every file up to date
        rep.case('raise-corrected:' + key, True)
        rep.count('raise-corrected:followup=' + spec.get('followup', 'make'))
        stale = sorted(f for f, v in o['state3'].items() if v != 'new')
        if o['rc3'] == 0 and stale:
            if rep.fail('%s: the regeneration failed (exit %d), the mistake was corrected, and the next attempt (%s) exits 0 '
                        'while %s (compared with a fresh configure of the corrected tree)'
                        % (key, o['rc'], 'regenerate --lazy, then make' if spec.get('followup') == 'lazy' else 'make',
                           ', '.join('%s is %s' % (f, o['state3'][f]) for f in stale)),
                        {'spec': spec, 'result': o, 'stale': {f: o['state3'][f] for f in stale}}):
                bad += 1
        elif o['rc3'] != 0:
            if rep.fail('%s: after the mistake was corrected the regeneration still fails (exit %d): %s'
                        % (key, o['rc3'], o['out3'][-300:]), {'spec': spec, 'result': o}):
                bad += 1
        # model: the mutations before the exception are a prefix of pre_ops and do not contain the build file
        shift = 1 if spec['runner'] == 'configure' else 0
        j = len(o['ops']) - shift
        raw = common.model_batch([('crash.raise', [list(VARIANT), m_proj(spec), max(j, 0)])])[0]
        mops = [dec_op(r) for r in raw[0]]
        if mops != [tuple(x) for x in o['ops'][shift:]] or STATE[raw[1]] != 'old':
            dis.append(('crash.raise', spec, o['ops'], mops))
    rep.stage('oracle:script_raise', runs=len(specs), failures=bad, disagreements=len(dis))
    return bad, dis


QUICK_FIXED = (
    # the design's scenario: find_files + pkg_config + install/test, a new matching source file, make-triggered
    {'find': True, 'pkg': 1, 'inst': True, 'compdb': True, 'edit': 'dir', 'runner': 'make', 'backend': 'make'},
    # build.bfg edited, plain regenerate, no stamp indirection
    {'find': True, 'pkg': 0, 'inst': False, 'compdb': True, 'edit': 'script', 'runner': 'regen', 'backend': 'make'},
)
# the existing build directory is configured again with other options (tree unedited); every mutation point faulted; the
# next regeneration attempt is `bfg9000 regenerate --lazy` by hand, then make
RECONFIGURE = (
    {'find': True, 'pkg': 1, 'inst': True, 'compdb': True, 'edit': 'options', 'runner': 'configure', 'backend': 'make',
     'followup': 'lazy'},
    {'find': True, 'pkg': 0, 'inst': True, 'compdb': False, 'edit': 'options', 'runner': 'configure', 'backend': 'make',
     'followup': 'lazy'},
    {'find': False, 'pkg': 2, 'inst': True, 'compdb': True, 'edit': 'options', 'runner': 'configure', 'backend': 'make',
     'followup': 'lazy'},
    {'find': True, 'pkg': 2, 'inst': False, 'compdb': True, 'edit': 'options', 'runner': 'configure', 'backend': 'make',
     'followup': 'make', 'built': False},
)
TRACE_ONLY = (
    {'find': False, 'pkg': 0, 'inst': True, 'compdb': False, 'edit': 'script', 'runner': 'make', 'backend': 'make'},
    {'find': True, 'pkg': 2, 'inst': True, 'compdb': True, 'edit': 'both', 'runner': 'configure', 'backend': 'make'},
    {'find': True, 'pkg': 1, 'inst': True, 'compdb': True, 'edit': 'touch', 'runner': 'make', 'backend': 'make'},
    {'find': True, 'pkg': 1, 'inst': False, 'compdb': True, 'edit': 'dir', 'runner': 'regen_lazy', 'backend': 'ninja'},
    {'find': False, 'pkg': 1, 'inst': True, 'compdb': True, 'edit': 'script', 'runner': 'regen', 'backend': 'ninja'},
    # configured with --toolchain FILE, that file edited: started by make / by hand (lazy) on the Ninja backend
    {'find': True, 'pkg': 1, 'inst': True, 'compdb': True, 'edit': 'toolchain', 'runner': 'make', 'backend': 'make', 'tc': True},
    {'find': True, 'pkg': 0, 'inst': False, 'compdb': True, 'edit': 'toolchain', 'runner': 'regen_lazy', 'backend': 'ninja',
     'tc': True},
    # the toolchain edit drops / adds a whole variable (a line environ[NAME] = ...), alone and together with a script edit
    {'find': True, 'pkg': 1, 'inst': True, 'compdb': True, 'edit': 'toolchain', 'runner': 'make', 'backend': 'make', 'tc': True,
     'tc_extra': 'v1', 'tc_var': 'CPPFLAGS'},
    {'find': False, 'pkg': 0, 'inst': True, 'compdb': True, 'edit': 'toolchain', 'runner': 'regen', 'backend': 'make', 'tc': True,
     'tc_extra': 'v2', 'tc_var': 'LDLIBS'},
    {'find': True, 'pkg': 1, 'inst': False, 'compdb': True, 'edit': 'both', 'runner': 'regen_lazy', 'backend': 'ninja', 'tc': True,
     'tc_extra': 'v1', 'tc_var': 'LDFLAGS'},
)


def stage_r_make(rep):
    """R:make_attempt - the two facts about GNU Make the model uses beyond what the crash experiments exercise: a Makefile
    that includes a missing .bfg_find_deps fails, a missing Makefile fails."""
    spec = dict(QUICK_FIXED[1])
    bad = 0
    with Bench(spec) as b:
        b.restore()
        os.remove(os.path.join(b.build, '.bfg_find_deps'))
        rc1, _, out1 = project.make(b.build, [], stub_tools=True)
        b.restore()
        os.remove(os.path.join(b.build, 'Makefile'))
        rc2, _, out2 = project.make(b.build, [], stub_tools=True)
    rep.case('R:make missing depfile', True)
    rep.case('R:make missing Makefile', True)
    for what, rc, out in (('a missing included .bfg_find_deps', rc1, out1), ('a missing Makefile', rc2, out2)):
        if rc == 0:
            bad += 1
            rep.fail('R:make_attempt - the model says make fails on %s, the real make exits 0' % what,
                     {'obligation': 'R:make_attempt', 'what': what, 'out': out[-400:]}, found_input=False)
    rep.stage('R:make_attempt', cases=2, disagreements=bad)


def corpus_points(spec, aops):
    """The listed points of a corpus entry were recorded against the mutation sequence of the old find.py (depfile written
    in place).  With F2 the sequence has one more mutation (the rename onto .bfg_find_deps): later indices shift by one, and
    both sides of the rename are added."""
    pts = [tuple(x) for x in spec['points']]
    r = [i for i, o in enumerate(aops) if o[0] == 'rename']
    if not r:
        return pts
    r = r[0]
    out = [(n if n < r else n + 1, k) for n, k in pts] + [(r, 'kill_before'), (r, 'kill_after')]
    return sorted(set(out))


def load_corpus():
    d = os.path.join(common.VERIF, 'corpus', 'C10')
    out = []
    if os.path.isdir(d):
        for fn in sorted(os.listdir(d)):
            if fn.endswith('.json'):
                out.append(json.load(open(os.path.join(d, fn))))
    return out


def load_own_findings(rep):
    """known_findings.json is merged from findings.d by the coordinator; until then use our own entries too."""
    p = os.path.join(common.VERIF, 'findings.d', 'C10.json')
    if os.path.exists(p):
        have = {k['id'] for k in rep.known}
        rep.known += [k for k in json.load(open(p)) if k.get('status') == 'open' and k['id'] not in have]


def select_variant(rep):
    """Detects which find.py is under test, selects the model variant, and decides per variant which of the two repaired
    findings may still count as known:
      * a finding whose repair is present in the tree under test is never known (its class is a VIOLATION again);
      * a finding whose repair is absent is known only while it is recorded as open, or - transitional - while its `fixed`
        entry still says "commit": "PENDING" AND the tree shows neither repair (= /repo before the two fix commits land).
        Once the commit hashes are filled in, or when only one of the two repairs is missing, the old behaviour is a
        regression: VIOLATION with the crash point as replay."""
    v = regenvariant.detect()
    regenvariant.report(rep, v)
    VARIANT[:] = [False, v['adeps'], v['dnc']]
    p = os.path.join(common.VERIF, 'findings.d', 'C10.json')
    own = {k['id']: k for k in json.load(open(p))} if os.path.exists(p) else {}
    neither = not v['adeps'] and not v['dnc']
    closed = []
    for fid, present in ((regenvariant.F1_ID, v['dnc']), (regenvariant.F2_ID, v['adeps'])):
        e = own.get(fid)
        listed_open = any(k['id'] == fid for k in rep.known)
        tolerated = (not present) and (
            (e is None and listed_open) or (e is not None and e.get('status') == 'open') or
            (e is not None and e.get('status') == 'fixed' and e.get('commit') == 'PENDING' and neither))
        orig = [k for k in rep.known if k['id'] == fid]
        rep.known = [k for k in rep.known if k['id'] != fid]
        if tolerated:
            k = dict(e) if e is not None else dict(orig[0])
            k['status'] = 'open'
            rep.known.append(k)
        else:
            closed.append(fid)
    rep.stage('known-classes', model_variant={'cal': False, 'adeps': v['adeps'], 'dnc': v['dnc']},
              counted_as_known=sorted(k['id'] for k in rep.known), violations_again=closed)
    return v


def run(rep):
    rng = random.Random(rep.seed)
    thorough = rep.tier == 'thorough'
    load_own_findings(rep)
    select_variant(rep)
    rep.proof_stage(coqchk=thorough)
    fault_specs = gen_specs(rng, 16 if thorough else 3, fixed=QUICK_FIXED)
    have = [spec_key(x) for x in fault_specs]
    fault_specs += [c for c in load_corpus() if spec_key(c) not in have]      # past witnesses: listed points only
    fault_specs += [dict(s) for s in (RECONFIGURE if thorough else RECONFIGURE[:1])]
    if thorough:
        fault_specs.append(dict(TRACE_ONLY[2]))          # lazy skip run, faulted too
        fault_specs.append(dict(TRACE_ONLY[0]))          # no find_files at all
        fault_specs.append(dict(TRACE_ONLY[5]))          # the toolchain file edited, every mutation point faulted
    trace_specs = fault_specs + [dict(s) for s in TRACE_ONLY if spec_key(s) not in [spec_key(x) for x in fault_specs]]
    traces, dis = stage_trace(rep, trace_specs)
    kinds = ('kill_before', 'kill_after', 'raise_before', 'raise_after')
    stage_r_make(rep)
    bad, dis2 = stage_crash(rep, fault_specs, traces, kinds)
    bad3, dis3 = stage_script_raise(rep, rng, thorough)
    bad4, dis4 = stage_w_exit(rep, rng, 1500 if thorough else 300)
    dis = dis + dis2 + dis3
    if dis4 and not (bad or bad3 or bad4):
        d = dis4[0]
        rep.fail('W:exit_status - model and implementation disagree (%d cases), e.g. %r: impl %r, model %r' % (
            len(dis4), d[2], d[3], d[4]), {'obligation': 'W:exit_status', 'n_disagreements': len(dis4),
                                            'first': [repr(x) for x in d]}, found_input=False)
    if dis and not (bad or bad3):
        d = dis[0]
        rep.fail('W:%s - model and implementation disagree (%d cases), e.g. %s at %r: impl %r, model %r' % (
            d[0], len(dis), spec_key(d[1]), d[2] if len(d) > 4 else '', d[-2], d[-1]),
            {'obligation': 'W:' + d[0], 'n_disagreements': len(dis), 'first': [repr(x) for x in d],
             'all': [(x[0], spec_key(x[1]), repr(x[2])) for x in dis[:40]]}, found_input=False)


def replay(rep, path):
    r = json.load(open(path))
    load_own_findings(rep)
    select_variant(rep)
    if r.get('kind') == 'exit-status':
        o = exit_law_one(r['exc'])
        for cmd, place, rc, out, written in o.get('runs', []):
            print(cmd, place, rc, written)
            if rc == 0:
                rep.fail('exit status: `bfg9000 %s` of a project whose %s raises %s still exits 0' % (cmd, place, r['exc']),
                         {'kind': 'exit-status', 'exc': r['exc'], 'place': place, 'command': cmd, 'rc': rc, 'output': out},
                         classes=exit_law_classes(r['exc'], place, rc, out, written))
        return
    if 'spec' in r and r['spec'].get('script_raise') and 'n' not in r:
        o = raise_one(r['spec'])
        print(json.dumps({k: v for k, v in o.items() if k != 'ops'}, indent=1, default=str)[:3000])
        if 'error' not in o and (o['rc'] == 0 or not o['identical'] or o['rc2'] == 0 or (o['rc3'] == 0 and any(
                v != 'new' for v in o['state3'].values()))):
            rep.fail('%s: the failing regeneration exits %d, the next make %d, after the correction %d with %r' % (
                spec_key(r['spec']), o['rc'], o['rc2'], o['rc3'], o['state3']), {'spec': r['spec'], 'result': o})
        return
    if 'spec' not in r or 'n' not in r:
        print(json.dumps(r, indent=1)[:3000])
        return run(rep)
    spec = r['spec']
    t = trace_one(spec)
    aops = [tuple(x) for x in t['aops']]
    res = run_points(spec, [(r['n'], r['kind'])])
    for x in res:
        if 'error' in x:
            rep.fail('replay failed to run', {'obligation': 'replay', 'error': x['error']}, found_input=False)
            continue
        print(json.dumps({'after_fault': x['after_fault'], 'fault_rc': x['fault_rc'],
                          'followups': [(a['rc'], a['state'], a['out'][-200:]) for a in x['attempts']]}, indent=1))
        rep.case('replay', True)
        judge(rep, x, aops)
