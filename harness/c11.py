"""C11 - find_files returns exactly the files the documented glob semantics select."""
import fnmatch
import itertools
import json
import os
import random
import re
import shutil
import warnings

from . import common
from .common import d_bool, d_opt

LEVEL = 'proof'
RULE = ('component patterns: strings over a weighted alphabet of letters, glob metacharacters, bracket-expression '
        'corner characters (! ] [ ^ - backslash), dots, spaces, hidden/backup markers and non-ASCII, plus a corpus; '
        'path globs: 1..5 components drawn from literals / * / ** / a* / ? / bracket forms with optional base prefix, '
        'trailing slash and type f/d/*; paths: 0..5 components over a small name pool so that matches are frequent; '
        'trees: random real directory trees under /var/tmp (depth <= 4, symlinked dirs, hidden and backup names, names '
        'with metacharacters and spaces); filters: 1..3 includes x extra x exclude x filter_fn x type; '
        'exhaustive sweep: all patterns of <= 4 (quick: 3) components over {a,b,*,**,a*,?} x all paths of depth <= 4 '
        '(quick: 3) over {a,b,ab} x file/dir.  A case is non-trivial when the pattern has a glob component and the path '
        'is non-empty; distinct by (pattern, type, path).')
TRUSTED = ('brute-force Python reading of the documented glob rules (spec_match in harness/c11.py) used as the direct oracle',
           'Python fnmatch.fnmatchcase as the reference for one component',
           'path normalisation (Path.__init__/append/split) is taken from the implementation (owned by C12)')
EXPLANATION = ''

warnings.simplefilter('ignore', FutureWarning)

ROOTV = {'srcdir': 1, 'builddir': 2, 'absolute': 3}
TYPEV = {'f': 1, 'd': 2, '*': 3}
RES = {0: 'yes', 1: 'no', 2: 'never'}
FRES = {0: 'include', 1: 'not_now', 2: 'exclude', 3: 'exclude_recursive'}


# ----------------------------------------------------------------------------- helpers (implementation side)
def enc_path(p):
    """bfg9000 Path -> model path [root, comps, isdir]"""
    return [p.root.value, p.split(), bool(p.directory)]


def enc_type(t):
    return [] if t is None else [TYPEV[t]]


def impl_component(pat, name):
    """what PathGlob/NameGlob do for one component"""
    return bool(re.compile(fnmatch.translate(pat)).match(name))


def is_glob(s):
    return any(c in s for c in '*?[')


# the documented rules, written directly (independent of the model and of glob.py)
def spec_comp(pc, c):
    return fnmatch.fnmatchcase(c, pc) if is_glob(pc) else pc == c


def spec_match(pat, comps):
    if not pat:
        return not comps
    if pat[0] == '**':
        return spec_match(pat[1:], comps) or (bool(comps) and spec_match(pat, comps[1:]))
    return bool(comps) and spec_comp(pat[0], comps[0]) and spec_match(pat[1:], comps[1:])


def spec_pathglob(gpath, gtype, p, skip_base):
    """gpath: pattern Path; gtype: resolved Glob.Type chars 'f','d','*'; p: Path."""
    bits = gpath.split()
    k = next(i for i, b in enumerate(bits) if is_glob(b))
    base, pat = bits[:k], bits[k:]
    comps = p.split()
    if not skip_base:
        if p.root != gpath.root or comps[:len(base)] != base:
            return False
    if not spec_match(pat, comps[len(base):]):
        return False
    return gtype == '*' or (gtype == 'd') == bool(p.directory)


# ----------------------------------------------------------------------------- generators
FN_ALPHA = [('a', 10), ('b', 8), ('c', 4), ('z', 2), ('A', 1), ('*', 8), ('?', 5), ('[', 7), (']', 7), ('!', 5), ('-', 7),
            ('^', 2), ('\\', 2), ('.', 3), ('~', 1), ('#', 1), (' ', 1), ('é', 1), ('&', 1), ('|', 1), ('\n', 1), ('0', 1)]
NAME_ALPHA = [('a', 10), ('b', 8), ('c', 4), ('z', 2), ('A', 1), ('*', 1), ('?', 1), ('[', 2), (']', 2), ('!', 2), ('-', 3),
              ('^', 1), ('.', 3), ('~', 1), ('#', 1), (' ', 1), ('é', 1), ('&', 1), ('|', 1), ('\n', 1), ('0', 1), ('\\', 1)]
FN_CORPUS = ['', '*', '?', '**', 'a*', '*a', '*a*', 'a?b', '[', ']', '[]', '[]]', '[!]', '[!]]', '[a', '[a]', '[!a]', '[a-c]',
             '[c-a]', '[!c-a]', '[a-]', '[-a]', '[a-c-e]', '[a--]', '[--a]', '[b-ab-a]', '[b-a!]', '[b-a!x]', '[b-a!-z]',
             '[]-a]', '[]-!!]', '[\\-a]', '[[-a]', '[&-a]', '[^a]', '[!^a]', '[a^]', '[[]', '[a[b]', '[[:alpha:]]', '[!-a]',
             '[!a-c]', '[!!]', '[!!-a]', '[a-cx-z]', '[a-bb-a]', '[z-ab-a-]', '[a\\]', '[\\]', 'a[bc]*', '*[!a]', '[a-c]?[!b]*',
             '***', 'a**b', '.*#', '*~', '#*#', '.#*', '[a-a]', '[a-b-]', '[a-b-a]', '[-]', '[--]', '[---]', '[!-]', '[!--]',
             '[a|b]', '[a||b]', '[a&&b]', '[~~]', '[a-z&&[^b]]', '[b-a]', '[!b-a]', '[ca-a]', '[b-ac-b]', '[b-ac]', '[cb-a]']
NAME_CORPUS = ['', 'a', 'b', 'c', 'ab', 'abc', '-', '!', ']', '[', '^', '\\', 'a]', '.a', 'a~', '#a#', '.#a', 'z', 'é', '\n', 'a\n',
               '|', '&', '~', 'x', 'ba', 'aa', 'a-c', 'b]', ':', 'A']


def wstr(rng, alpha, maxlen):
    n = rng.choice([0, 1, 1, 2, 2, 3, 3, 4, 5, 6, maxlen])
    chars, weights = zip(*alpha)
    return ''.join(rng.choices(chars, weights, k=n))


def gen_fnpat(rng):
    r = rng.random()
    if r < 0.25:
        return rng.choice(FN_CORPUS)
    if r < 0.55:   # a bracket expression with surroundings
        body = wstr(rng, [('a', 6), ('b', 5), ('c', 4), ('z', 2), ('-', 9), ('!', 4), (']', 1), ('[', 1), ('^', 1), ('\\', 1),
                          ('*', 1), ('0', 1), ('~', 1), ('&', 1)], 7)
        return wstr(rng, FN_ALPHA, 2) + '[' + rng.choice(['', '', '!', ']', '!]']) + body + ']' + wstr(rng, FN_ALPHA, 2)
    return wstr(rng, FN_ALPHA, 8)


def gen_name(rng):
    return rng.choice(NAME_CORPUS) if rng.random() < 0.4 else wstr(rng, NAME_ALPHA, 5)


POOL = ['a', 'b', 'ab', 'c', 'a.c', 'b.c', '.a', 'a~', 'a b', 'a*', '[a]', 'src', 'x']
PCOMPS = ['a', 'b', 'ab', 'c', 'src', 'x', '*', '*', '**', '**', 'a*', '?', '*.c', '[ab]', '[!a]', '?b', '*b', '.*', '*~', 'a[*]',
          '[[]a]', '*a*']


def gen_pattern(rng, rep=None):
    """-> (pattern string, type or None, root name)"""
    n = rng.choice([1, 1, 2, 2, 3, 3, 4, 5])
    comps = [rng.choice(PCOMPS) for _ in range(n)]
    if rng.random() < 0.15:
        comps[rng.randrange(n)] = gen_fnpat(rng).replace('/', '') or '*'
    if rng.random() < 0.4:
        comps = [rng.choice(POOL[:6]) for _ in range(rng.randint(1, 2))] + comps
    s = '/'.join(comps)
    if rng.random() < 0.25:
        s += '/'
    t = rng.choice([None, None, None, 'f', 'd', '*'])
    root = rng.choice(['srcdir', 'srcdir', 'srcdir', 'builddir'])
    return s, t, root


def gen_pathstr(rng):
    n = rng.choice([0, 1, 1, 2, 2, 3, 3, 4, 5])
    comps = [rng.choice(POOL) if rng.random() < 0.9 else (gen_name(rng).replace('/', '').replace('\\', '') or 'a')
             for _ in range(n)]
    comps = [c for c in comps if c not in ('.', '..', '~') and not c.startswith('~')]
    return '/'.join(comps), rng.random() < 0.4


# ----------------------------------------------------------------------------- stages
def dec_res(name, r):
    return d_opt(lambda v: RES[v], r)


def stage_w_fnmatch(rep, rng, n):
    pairs = [(p, s) for p in FN_CORPUS for s in NAME_CORPUS]
    for _ in range(n):
        pairs.append((gen_fnpat(rng), gen_name(rng)))
    calls, impl = [], []
    for p, s in pairs:
        calls.append(('glob.fnmatch', [p, s]))
        v = impl_component(p, s)
        impl.append(v)
        rep.case('fn:%r:%r' % (p, s), is_glob(p))
        rep.count('fn:' + ('bracket' if '[' in p else 'star' if '*' in p else 'q' if '?' in p else 'literal') +
                  (':match' if v else ':nomatch'))
        if v != fnmatch.fnmatchcase(s, p):
            rep.fail('re.compile(fnmatch.translate(p)).match differs from fnmatch.fnmatchcase on %r / %r' % (p, s),
                     {'obligation': 'R:fnmatch', 'pattern': p, 'name': s}, found_input=False)
    rep.sample({'stage': 'W:fnmatch', 'pattern': pairs[-1][0], 'name': pairs[-1][1], 'impl': impl[-1]})
    return common.compare_model(rep, 'W:fnmatch', calls, impl, lambda nm, r: d_bool(r))


def make_glob(pat, t, root):
    from bfg9000.glob import PathGlob
    from bfg9000.path import Path, Root
    try:
        return PathGlob(pat, t, Root[root])
    except Exception:
        return None


def stage_w_pathglob(rep, rng, n):
    """PathGlob.match against the model and against the brute-force reading of the documented rules;
    never-soundness checked on the implementation over all generated extensions."""
    from bfg9000.path import Path, Root
    calls, impl = [], []
    failures = 0
    for _ in range(n):
        pat, t, root = gen_pattern(rng)
        try:
            gp = Path.ensure(pat, Root[root])
        except Exception:
            continue
        g = make_glob(pat, t, root)
        spec = [enc_path(gp), enc_type(t)]
        paths = []
        for _ in range(6):
            s, isdir = gen_pathstr(rng)
            try:
                paths.append(Path(s, rng.choice([Root[root]] * 5 + [Root.builddir]), directory=isdir))
            except Exception:
                continue
        # extensions of generated paths, so that never-soundness has something to bite on
        for p in list(paths)[:3]:
            s, isdir = gen_pathstr(rng)
            if s:
                paths.append(Path(s, p.root, directory=isdir) if not p.suffix else p.append(s).as_directory()
                             if isdir else p.append(s))
        for p in paths:
            for skip in (False, True):
                calls.append(('glob.pmatch', [spec, enc_path(p), skip]))
                if g is None:
                    impl.append(None)
                    rep.count('pg:ctor-error')
                    continue
                r = g.match(p, skip)
                impl.append(r.name)
                rep.count('pg:' + r.name)
                rep.case('pg:%s:%s:%s:%s:%s' % (pat, t, p.suffix, p.directory, skip), bool(p.suffix))
                want = spec_pathglob(gp, g.type.to_char(), p, skip)
                if (r.name == 'yes') != want:
                    failures += 1
                    rep.fail('PathGlob(%r, %r).match(%r dir=%r, skip_base=%r) = %s but the documented rules say %s' % (
                        pat, t, p.suffix, p.directory, skip, r.name, want),
                        {'kind': 'pathglob', 'pattern': pat, 'type': t, 'root': root, 'path': p.suffix,
                         'path_root': p.root.name, 'dir': bool(p.directory), 'skip': skip}, classes=())
        if g is not None:
            failures += never_sound_impl(rep, g, pat, t, root, paths)
    rep.sample({'stage': 'W:pathglob', 'call': calls[-1][1], 'impl': impl[-1]})
    dis = common.compare_model(rep, 'W:pathglob', calls, impl, dec_res)
    rep.stage('oracle:pathglob', failures=failures)
    return dis, failures


def never_sound_impl(rep, g, pat, t, root, paths):
    """If match(d) is never, no generated path strictly below d may match."""
    bad = 0
    for skip in (False, True):
        nevers = [p for p in paths if p.directory and g.match(p, skip).name == 'never']
        for d in nevers:
            db = d.split()
            for q in paths:
                qb = q.split()
                if q.root == d.root and len(qb) > len(db) and qb[:len(db)] == db and g.match(q, skip).name == 'yes':
                    bad += 1
                    rep.fail('PathGlob(%r).match(%r) is never but %r below it matches' % (pat, d.suffix, q.suffix),
                             {'kind': 'never', 'pattern': pat, 'type': t, 'root': root, 'dir_path': d.suffix,
                              'below': q.suffix, 'below_dir': bool(q.directory), 'skip': skip}, classes=())
    return bad


def stage_w_nameglob(rep, rng, n):
    from bfg9000.glob import NameGlob
    from bfg9000.path import Path, Root
    calls, impl = [], []
    for _ in range(n):
        pat = gen_fnpat(rng) + rng.choice(['', '', '', '/', '//', '\\', '/\n', '\n'])
        t = rng.choice([None, None, 'f', 'd', '*'])
        try:
            g = NameGlob(pat, t)
        except Exception:
            g = None
        for _ in range(3):
            s, isdir = gen_pathstr(rng)
            try:
                p = Path(s, Root.srcdir, directory=isdir)
            except Exception:
                continue
            calls.append(('glob.nmatch', [[pat, enc_type(t)], enc_path(p)]))
            v = None if g is None else bool(g.match(p))
            impl.append(v)
            rep.count('ng:%s' % v)
            rep.case('ng:%r:%s:%s:%s' % (pat, t, p.suffix, p.directory), True)
            if g is not None:
                stripped = re.sub(r'[\\/]+$', '', pat)
                want = fnmatch.fnmatchcase(p.basename(), stripped) and (
                    g.type.to_char() == '*' or (g.type.to_char() == 'd') == bool(p.directory))
                if v != want:
                    rep.fail('NameGlob(%r, %r).match(%r) = %r, documented rules say %r' % (pat, t, p.suffix, v, want),
                             {'kind': 'nameglob', 'pattern': pat, 'type': t, 'path': p.suffix, 'dir': bool(p.directory)},
                             classes=())
    return common.compare_model(rep, 'W:nameglob', calls, impl, lambda nm, r: d_opt(d_bool, r))


def report_dis(rep, dis, found):
    if dis and not found:
        i, call, iv, mv = dis[0]
        rep.fail('W:%s - model and implementation disagree (%d cases), e.g. %r: impl %r, model %r' % (
            call[0], len(dis), call[1], iv, mv),
            {'obligation': 'W:' + call[0], 'call': call, 'impl': iv, 'model': mv, 'n_disagreements': len(dis)},
            found_input=False)


def run(rep):
    rng = random.Random(rep.seed)
    thorough = rep.tier == 'thorough'
    rep.proof_stage(coqchk=thorough)
    n = 6000 if thorough else 1200
    dis = stage_w_fnmatch(rep, rng, n)
    report_dis(rep, dis, 0)
    dis, found = stage_w_pathglob(rep, rng, n // 2)
    report_dis(rep, dis, found)
    dis = stage_w_nameglob(rep, rng, n // 2)
    report_dis(rep, dis, 0)


def replay(rep, path):
    r = json.load(open(path))
    print(json.dumps(r, indent=1)[:2000])
    run(rep)
