"""C11 - find_files returns exactly the files the documented glob semantics select."""
import fnmatch
import itertools
import json
import os
import random
import re
import shutil
import warnings

from . import common
from .common import d_bool, d_opt

LEVEL = 'proof'
RULE = ('component patterns: strings over a weighted alphabet of letters, glob metacharacters, bracket-expression '
        'corner characters (! ] [ ^ - backslash), dots, spaces, hidden/backup markers and non-ASCII, plus a corpus; '
        'path globs: 1..5 components drawn from literals / * / ** / a* / ? / bracket forms with optional base prefix, '
        'trailing slash and type f/d/*; paths: 0..5 components over a small name pool so that matches are frequent; '
        'trees: random real directory trees under /var/tmp (depth <= 4, symlinked dirs, hidden and backup names, names '
        'with metacharacters and spaces, file and directory names ending in one or more dots, made of three or four dots, or '
        'starting with two dots, and patterns whose last component ends in a dot); filters: 1..3 includes x extra x exclude x filter_fn x type; '
        'near-prefix families: trees holding a directory X, sub-directories of X (two levels), siblings X<c>.. and X/sub<c>.. '
        'for characters <c> on both sides of the separator (- . space + ! # , $ & quote parentheses % tab newline | 0 2 _ a ~ = @ ; '
        'non-ASCII), unrelated directories, optionally below a parent with its own near-prefix sibling, and lists of 2..4 '
        'include patterns whose bases are drawn from the family (a base, something below it, a name-continuing sibling; '
        'random subsets; repeated bases, the tree root, missing directories), in shuffled order; '
        'exhaustive sweep: all patterns of <= 4 (quick: 3) components over {a,b,*,**,a*,?} x all paths of depth <= 4 '
        'over {a,b,ab} x file/dir.  A case is non-trivial when the pattern has a glob component and the path '
        'is non-empty; distinct by (pattern, type, path).')
TRUSTED = ('brute-force Python reading of the documented glob rules (spec_match in harness/c11.py) used as the direct oracle',
           'brute-force choice of the walk roots (spec_bases in harness/c11.py: bases without a proper ancestor among the bases, '
           'ordered by root and component list) used as the direct oracle for FileFilter.bases()',
           'Python fnmatch.fnmatchcase as the reference for one component',
           'path normalisation (Path.__init__/append/split) is taken from the implementation (owned by C12); the model of '
           'FileFilter.bases() uses the path-algebra model of C12 (PathAlg.mk, PathAlg.uniquetrees) and is tied to the real '
           'bases() on every generated filter; that these roots form an antichain covering the include bases is proved '
           '(C11_bases_antichain, C11_bases_cover, from the key-level C12_uniquetrees_keys, no guard) and discharges the '
           'hypothesis of C11_walk_roots_no_duplicates: C11_find_files_of_no_duplicates has none; the roots oracle still '
           'checks it on every generated filter')
EXPLANATION = ('Model: coq/theories/Find/{Glob,Filter,Walk}.v mirror glob.py (fnmatch.translate incl. bracket expressions, '
               '_compile_glob, _match_base, _match_glob_run(s) with the greedy offset loop, match, NameGlob) and builtins/find.py '
               '(FindResult, FileFilter._match_globs/match/__eq__, _find_files with in-place pruning over path.walk, find_from_filter '
               'with FindCache and dist registration; cache-hit branch switchable, fixed = repo commit 491a34f); Find/Bases.v models '
               'FileFilter.bases() = path.uniquetrees of the PathGlob bases through Path/PathAlg.v, and the W:find / W:session '
               'ties let the model choose the walk roots. Stages: W:fnmatch, '
               'W:pathglob, W:nameglob, W:find (real temp trees), W:session (real BuildContext), W:sweep (exhaustive); oracles: '
               'brute-force documented rules for match and for find (unpruned walk + match), never-soundness on the implementation, '
               'FileFilter.bases() is a minimal covering antichain of the pattern bases, _find_files / find() / find_from_filter '
               'return exactly the brute-force selection walked from the brute-force roots (as lists: no entry twice), '
               'found entries exist, dist contains found and extra, cache does not change results; name probe for entry names that '
               'Path.append rewrites (known findings).')

warnings.simplefilter('ignore', FutureWarning)

ROOTV = {'srcdir': 1, 'builddir': 2, 'absolute': 3}
TYPEV = {'f': 1, 'd': 2, '*': 3}
RES = {0: 'yes', 1: 'no', 2: 'never'}
FRES = {0: 'include', 1: 'not_now', 2: 'exclude', 3: 'exclude_recursive'}


# ----------------------------------------------------------------------------- helpers (implementation side)
def enc_path(p):
    """bfg9000 Path -> model path [root, comps, isdir]"""
    return [p.root.value, p.split(), bool(p.directory)]


def enc_type(t):
    return [] if t is None else [TYPEV[t]]


def impl_component(pat, name):
    """what PathGlob/NameGlob do for one component"""
    return bool(re.compile(fnmatch.translate(pat)).match(name))


def is_glob(s):
    return any(c in s for c in '*?[')


# the documented rules, written directly (independent of the model and of glob.py)
def spec_comp(pc, c):
    return fnmatch.fnmatchcase(c, pc) if is_glob(pc) else pc == c


def spec_match(pat, comps):
    if not pat:
        return not comps
    if pat[0] == '**':
        return spec_match(pat[1:], comps) or (bool(comps) and spec_match(pat, comps[1:]))
    return bool(comps) and spec_comp(pat[0], comps[0]) and spec_match(pat[1:], comps[1:])


class Ent:
    """a directory entry for the documented-rules oracle: root, components, is-a-directory (what os.listdir / os.path.isdir
    say), independent of the Path constructor"""

    def __init__(self, root, comps, directory):
        self.root, self.comps, self.directory = root, list(comps), directory

    def split(self):
        return list(self.comps)


def spec_pathglob(gpath, gtype, p, skip_base):
    """gpath: pattern Path; gtype: resolved Glob.Type chars 'f','d','*'; p: Path."""
    bits = gpath.split()
    k = next(i for i, b in enumerate(bits) if is_glob(b))
    base, pat = bits[:k], bits[k:]
    comps = p.split()
    if not skip_base:
        if p.root != gpath.root or comps[:len(base)] != base:
            return False
    if not spec_match(pat, comps[len(base):]):
        return False
    return gtype == '*' or (gtype == 'd') == bool(p.directory)


# ----------------------------------------------------------------------------- generators
FN_ALPHA = [('a', 10), ('b', 8), ('c', 4), ('z', 2), ('A', 1), ('*', 8), ('?', 5), ('[', 7), (']', 7), ('!', 5), ('-', 7),
            ('^', 2), ('\\', 2), ('.', 3), ('~', 1), ('#', 1), (' ', 1), ('é', 1), ('&', 1), ('|', 1), ('\n', 1), ('0', 1)]
NAME_ALPHA = [('a', 10), ('b', 8), ('c', 4), ('z', 2), ('A', 1), ('*', 1), ('?', 1), ('[', 2), (']', 2), ('!', 2), ('-', 3),
              ('^', 1), ('.', 3), ('~', 1), ('#', 1), (' ', 1), ('é', 1), ('&', 1), ('|', 1), ('\n', 1), ('0', 1), ('\\', 1)]
FN_CORPUS = ['', '*', '?', '**', 'a*', '*a', '*a*', 'a?b', '[', ']', '[]', '[]]', '[!]', '[!]]', '[a', '[a]', '[!a]', '[a-c]',
             '[c-a]', '[!c-a]', '[a-]', '[-a]', '[a-c-e]', '[a--]', '[--a]', '[b-ab-a]', '[b-a!]', '[b-a!x]', '[b-a!-z]',
             '[]-a]', '[]-!!]', '[\\-a]', '[[-a]', '[&-a]', '[^a]', '[!^a]', '[a^]', '[[]', '[a[b]', '[[:alpha:]]', '[!-a]',
             '[!a-c]', '[!!]', '[!!-a]', '[a-cx-z]', '[a-bb-a]', '[z-ab-a-]', '[a\\]', '[\\]', 'a[bc]*', '*[!a]', '[a-c]?[!b]*',
             '***', 'a**b', '.*#', '*~', '#*#', '.#*', '[a-a]', '[a-b-]', '[a-b-a]', '[-]', '[--]', '[---]', '[!-]', '[!--]',
             '[a|b]', '[a||b]', '[a&&b]', '[~~]', '[a-z&&[^b]]', '[b-a]', '[!b-a]', '[ca-a]', '[b-ac-b]', '[b-ac]', '[cb-a]']
NAME_CORPUS = ['', 'a', 'b', 'c', 'ab', 'abc', '-', '!', ']', '[', '^', '\\', 'a]', '.a', 'a~', '#a#', '.#a', 'z', 'é', '\n', 'a\n',
               '|', '&', '~', 'x', 'ba', 'aa', 'a-c', 'b]', ':', 'A', 'a.', 'a..', '...', '..a', '.a.', 'a.b.']


def wstr(rng, alpha, maxlen):
    n = rng.choice([0, 1, 1, 2, 2, 3, 3, 4, 5, 6, maxlen])
    chars, weights = zip(*alpha)
    return ''.join(rng.choices(chars, weights, k=n))


def gen_fnpat(rng):
    r = rng.random()
    if r < 0.25:
        return rng.choice(FN_CORPUS)
    if r < 0.55:   # a bracket expression with surroundings
        body = wstr(rng, [('a', 6), ('b', 5), ('c', 4), ('z', 2), ('-', 9), ('!', 4), (']', 1), ('[', 1), ('^', 1), ('\\', 1),
                          ('*', 1), ('0', 1), ('~', 1), ('&', 1)], 7)
        return wstr(rng, FN_ALPHA, 2) + '[' + rng.choice(['', '', '!', ']', '!]']) + body + ']' + wstr(rng, FN_ALPHA, 2)
    return wstr(rng, FN_ALPHA, 8)


def gen_name(rng):
    return rng.choice(NAME_CORPUS) if rng.random() < 0.4 else wstr(rng, NAME_ALPHA, 5)


# names ending in dots, made of dots only (three or more), or starting with two dots are ordinary names
DOT_NAMES = ['a.', 'b..', '...', '..x', '.a.', 'a.c.', '....']
DOT_PCOMPS = ['*.', 'a.', '?.', '...', '*..', '.*.', '..*', '*.c.', '[ab].', 'a*.']
POOL = ['a', 'b', 'ab', 'c', 'a.c', 'b.c', '.a', 'a~', 'a b', 'a*', '[a]', 'src', 'x'] + DOT_NAMES[:5]
PCOMPS = ['a', 'b', 'ab', 'c', 'src', 'x', '*', '*', '**', '**', 'a*', '?', '*.c', '[ab]', '[!a]', '?b', '*b', '.*', '*~', 'a[*]',
          '[[]a]', '*a*'] + DOT_PCOMPS[:6]


def pattern_is_dir(s):
    """the documented reading of a pattern string: it names directories exactly when it ends with a separator (or its
    last component is . or ..); a last component that merely ends with a dot is an ordinary name pattern"""
    return s == '' or s[-1] in '/\\' or re.split(r'[/\\]', s)[-1] in ('.', '..')


def gen_pattern(rng, rep=None):
    """-> (pattern string, type or None, root name)"""
    n = rng.choice([1, 1, 2, 2, 3, 3, 4, 5])
    comps = [rng.choice(PCOMPS) for _ in range(n)]
    if rng.random() < 0.15:
        comps[rng.randrange(n)] = gen_fnpat(rng).replace('/', '') or '*'
    if rng.random() < 0.4:
        comps = [rng.choice(POOL[:6]) for _ in range(rng.randint(1, 2))] + comps
    s = '/'.join(comps)
    if rng.random() < 0.25:
        s += '/'
    if rng.random() < 0.04:
        s = '/' + s          # absolute pattern (root becomes Root.absolute)
    if re.match(r'^[/\\]{2}', s):
        # two leading separators make a UNC prefix (the share swallows the glob components, the constructor rejects the
        # rest as a drive-relative path): the path algebra of such strings is C12's subject, not a pattern
        s = '/' + s.lstrip('/\\')
    t = rng.choice([None, None, None, 'f', 'd', '*'])
    root = rng.choice(['srcdir', 'srcdir', 'srcdir', 'builddir'])
    return s, t, root


def gen_pathstr(rng):
    n = rng.choice([0, 1, 1, 2, 2, 3, 3, 4, 5])
    comps = [rng.choice(POOL) if rng.random() < 0.9 else (gen_name(rng).replace('/', '').replace('\\', '') or 'a')
             for _ in range(n)]
    comps = [c for c in comps if c not in ('.', '..', '~') and not c.startswith('~')]
    return '/'.join(comps), rng.random() < 0.4


# ----------------------------------------------------------------------------- stages
def dec_res(name, r):
    return d_opt(lambda v: RES[v], r)


def stage_w_fnmatch(rep, rng, n):
    pairs = [(p, s) for p in FN_CORPUS for s in NAME_CORPUS]
    for _ in range(n):
        pairs.append((gen_fnpat(rng), gen_name(rng)))
    calls, impl = [], []
    for p, s in pairs:
        calls.append(('glob.fnmatch', [p, s]))
        v = impl_component(p, s)
        impl.append(v)
        rep.case('fn:%r:%r' % (p, s), is_glob(p))
        rep.count('fn:' + ('bracket' if '[' in p else 'star' if '*' in p else 'q' if '?' in p else 'literal') +
                  (':match' if v else ':nomatch'))
        if v != fnmatch.fnmatchcase(s, p):
            rep.fail('re.compile(fnmatch.translate(p)).match differs from fnmatch.fnmatchcase on %r / %r' % (p, s),
                     {'obligation': 'R:fnmatch', 'pattern': p, 'name': s}, found_input=False)
    rep.sample({'stage': 'W:fnmatch', 'pattern': pairs[-1][0], 'name': pairs[-1][1], 'impl': impl[-1]})
    return common.compare_model(rep, 'W:fnmatch', calls, impl, lambda nm, r: d_bool(r))


def make_glob(pat, t, root):
    from bfg9000.glob import PathGlob
    from bfg9000.path import Path, Root
    try:
        return PathGlob(pat, t, Root[root])
    except Exception:
        return None


def stage_w_pathglob(rep, rng, n):
    """PathGlob.match against the model and against the brute-force reading of the documented rules;
    never-soundness checked on the implementation over all generated extensions."""
    from bfg9000.path import Path, Root
    calls, impl = [], []
    failures = 0
    cap = Capped(rep, 8)
    for _ in range(n):
        pat, t, root = gen_pattern(rng)
        try:
            gp = Path.ensure(pat, Root[root])
        except Exception:
            continue
        g = make_glob(pat, t, root)
        spec = [enc_path(gp), enc_type(t)]
        paths = []
        def entry(s, r, isdir, below=None):
            """the Path of a directory entry, as the walk builds it; a name that is not empty, . or .. is a file name"""
            try:
                if below is not None and below.suffix:
                    q = below.append(s)
                    return q.as_directory() if isdir else q
                return Path(s, r, directory=isdir)
            except Exception as e:
                if str(e) == 'expected a non-directory path' and s and re.split(r'[/\\]', s)[-1] not in ('', '.', '..'):
                    nonlocal failures
                    failures += 1
                    cap.fail('the entry name %r cannot be a file: Path(%r, directory=False) raises %s' % (s.split('/')[-1], s, e),
                             {'kind': 'entry-path', 'path': s, 'dir': isdir}, classes=())
                return None
        for _ in range(6):
            s, isdir = gen_pathstr(rng)
            q = entry(s, rng.choice([Root[root]] * 5 + [Root.builddir]), isdir)
            if q is not None:
                paths.append(q)
        # extensions of generated paths, so that never-soundness has something to bite on
        for p in list(paths)[:3]:
            s, isdir = gen_pathstr(rng)
            if s:
                q = entry(s, p.root, isdir, p)
                if q is not None:
                    paths.append(q)
        for p in paths:
            for skip in (False, True):
                calls.append(('glob.pmatch', [spec, enc_path(p), skip]))
                if g is None:
                    impl.append(None)
                    rep.count('pg:ctor-error')
                    continue
                r = g.match(p, skip)
                impl.append(r.name)
                rep.count('pg:' + r.name)
                rep.case('pg:%s:%s:%s:%s:%s' % (pat, t, p.suffix, p.directory, skip), bool(p.suffix))
                want = spec_pathglob(gp, t or ('d' if pattern_is_dir(pat) else 'f'), p, skip)
                if (r.name == 'yes') != want:
                    failures += 1
                    rep.fail('PathGlob(%r, %r).match(%r dir=%r, skip_base=%r) = %s but the documented rules say %s' % (
                        pat, t, p.suffix, p.directory, skip, r.name, want),
                        {'kind': 'pathglob', 'pattern': pat, 'type': t, 'root': root, 'path': p.suffix,
                         'path_root': p.root.name, 'dir': bool(p.directory), 'skip': skip}, classes=())
        if g is not None:
            failures += never_sound_impl(rep, g, pat, t, root, paths)
    rep.sample({'stage': 'W:pathglob', 'call': calls[-1][1], 'impl': impl[-1]})
    dis = common.compare_model(rep, 'W:pathglob', calls, impl, dec_res)
    rep.stage('oracle:pathglob', failures=failures)
    return dis, failures


def never_sound_impl(rep, g, pat, t, root, paths):
    """If match(d) is never, no generated path strictly below d may match."""
    bad = 0
    for skip in (False, True):
        nevers = [p for p in paths if p.directory and g.match(p, skip).name == 'never']
        for d in nevers:
            db = d.split()
            for q in paths:
                qb = q.split()
                if q.root == d.root and len(qb) > len(db) and qb[:len(db)] == db and g.match(q, skip).name == 'yes':
                    bad += 1
                    rep.fail('PathGlob(%r).match(%r) is never but %r below it matches' % (pat, d.suffix, q.suffix),
                             {'kind': 'never', 'pattern': pat, 'type': t, 'root': root, 'dir_path': d.suffix,
                              'below': q.suffix, 'below_dir': bool(q.directory), 'skip': skip}, classes=())
    return bad


def stage_w_nameglob(rep, rng, n):
    from bfg9000.glob import NameGlob
    from bfg9000.path import Path, Root
    calls, impl = [], []
    for _ in range(n):
        pat = gen_fnpat(rng) + rng.choice(['', '', '', '/', '//', '\\', '/\n', '\n'])
        t = rng.choice([None, None, 'f', 'd', '*'])
        try:
            g = NameGlob(pat, t)
        except Exception:
            g = None
        for _ in range(3):
            s, isdir = gen_pathstr(rng)
            try:
                p = Path(s, Root.srcdir, directory=isdir)
            except Exception:
                continue
            calls.append(('glob.nmatch', [[pat, enc_type(t)], enc_path(p)]))
            v = None if g is None else bool(g.match(p))
            impl.append(v)
            rep.count('ng:%s' % v)
            rep.case('ng:%r:%s:%s:%s' % (pat, t, p.suffix, p.directory), True)
            if g is not None:
                stripped = re.sub(r'[\\/]+$', '', pat)
                want = fnmatch.fnmatchcase(p.basename(), stripped) and (
                    g.type.to_char() == '*' or (g.type.to_char() == 'd') == bool(p.directory))
                if v != want:
                    rep.fail('NameGlob(%r, %r).match(%r) = %r, documented rules say %r' % (pat, t, p.suffix, v, want),
                             {'kind': 'nameglob', 'pattern': pat, 'type': t, 'path': p.suffix, 'dir': bool(p.directory)},
                             classes=())
    return common.compare_model(rep, 'W:nameglob', calls, impl, lambda nm, r: d_opt(d_bool, r))


# ----------------------------------------------------------------------------- trees, filters, walks
TREE_NAMES = ['a', 'b', 'ab', 'c', 'a.c', 'b.c', 'a.h', 'x.h', '.hid', '.a.c', 'a~', 'a.c~', '#a#', '.#a', 'a b', 'a*', '[a]',
              'a?b', 'sub', 'src', 'x', 'é.c', 'a\nb', '-', '!a', 'a]', '**', 'lib', 'b.h',
              'notes.', 'v1.2.', 'a.', '..x', '...', 'b..', '.a.', 'a.c.', '. .', '..a.c']
TREE_PCOMPS = ['*', '*', '**', '**', '*.c', '*.h', 'a*', '?', '[ab]*', 'sub', 'src', 'a', 'b', 'lib', '.*', '*~', '[!.]*', 'a[*]',
               '[[]a]', '*b*', '?.?', 'x*'] + DOT_PCOMPS
REALISTIC = ['*.', '**/*.', '*/*.', '**/*./**', 'a.c./*', '*', '**', '*.c', '**/*.c', '**/*.h', '*/*.c', '**/a*', 'sub/**', '**/sub/*', '*/*', '**/*', '**/*/*', 'a*/**/*.c',
             '**/[ab]*', '**/?', '**/*b*/**', '**/a/**/b*', '*/**/*.?', '**/**/a*', '**/*.c/**', '?*/**']
EXTRAS = [[], [], ['*.h'], ['*.h', 'x*'], ['sub/'], ['a*'], ['*'], ['[ab]/'], ['*.c'], ['*.'], ['*./']]
EXCLUDES = [[], [], ['sub'], ['a*'], ['*.c'], ['b/'], ['lib/', 'x'], ['*'], ['??'], ['*.'], ['*./']]
DEFAULT_EXCLUDE = ['.*#', '*~', '#*#']


def gen_tree(rng, depth, rep=None):
    """abstract tree: list of ('f', name) | ('d', name, children) | ('ld', name) | ('lf', name) | ('lb', name)"""
    n = rng.choice([0, 1, 2, 3, 4, 5, 6, 7, 8])
    names = rng.sample(TREE_NAMES, n)
    out = []
    for nm in names:
        r = rng.random()
        if depth > 0 and r < 0.42:
            out.append(('d', nm, gen_tree(rng, depth - 1, rep)))
        elif r < 0.47:
            out.append(('ld', nm))
        elif r < 0.5:
            out.append(('lf', nm))
        elif r < 0.53:
            out.append(('lb', nm))
        else:
            out.append(('f', nm))
        if rep is not None:
            rep.count('tree:' + out[-1][0])
    return out


def realise(tree, where, ext):
    os.makedirs(where, exist_ok=True)
    for t in tree:
        full = os.path.join(where, t[1])
        if t[0] == 'f':
            open(full, 'w').close()
        elif t[0] == 'd':
            realise(t[2], full, ext)
        elif t[0] == 'ld':
            os.symlink(os.path.join(ext, 'dir'), full)
        elif t[0] == 'lf':
            os.symlink(os.path.join(ext, 'file.c'), full)
        else:
            os.symlink(os.path.join(ext, 'missing'), full)


def scan(where):
    """the real directory as a model tree, children in os.listdir order"""
    out = []
    for n in os.listdir(where):
        full = os.path.join(where, n)
        if os.path.isdir(full):
            out.append([1, n, os.path.islink(full), scan(full)])
        elif os.path.islink(full) and not os.path.exists(full):
            out.append([0, n, 1])      # dangling link: listed, but path.exists is false
        else:
            out.append([0, n])
    return out


def mk_env(root):
    import types
    from bfg9000.path import Path, Root
    return types.SimpleNamespace(base_dirs={Root.srcdir: Path(root + '/src', Root.absolute),
                                            Root.builddir: Path(root + '/build', Root.absolute)})


def all_dirs(tree, prefix=()):
    for t in tree:
        if t[0] == 1:
            yield prefix + (t[1],)
            if not t[2]:
                yield from all_dirs(t[3], prefix + (t[1],))


def gen_filter_spec(rng, fstree, rep=None):
    """-> dict(include=[(pattern string, root name)], type, extra, exclude, fn or None)"""
    dirs = list(all_dirs(fstree))
    files = [k[1] for k in all_entries(fstree, 1) if k[1] not in set(dirs)][:50]
    incs = []
    for _ in range(rng.choice([1, 1, 1, 2, 2, 3])):
        if rng.random() < 0.55:
            comps = rng.choice(REALISTIC).split('/')
        else:
            comps = [rng.choice(TREE_PCOMPS) for _ in range(rng.choice([1, 1, 2, 2, 3, 4]))]
        r = rng.random()
        if r < 0.35 and dirs:
            comps = list(rng.choice(dirs)) + comps
        elif r < 0.42:
            comps = [rng.choice(['nonexistent', 'a.c', 'a'])] + comps
        elif r < 0.5 and files:
            comps = list(rng.choice(files)) + comps
        if not any(is_glob(c) for c in comps):
            comps.append('*')
        s = '/'.join(comps) + ('/' if rng.random() < 0.2 else '')
        incs.append((s, 'builddir' if rng.random() < 0.08 else 'srcdir'))
    t = rng.choice([None, None, None, 'f', 'd', '*', '*'])
    extra = rng.choice(EXTRAS)
    exclude = (DEFAULT_EXCLUDE if rng.random() < 0.7 else []) + rng.choice(EXCLUDES)
    fn = None
    if rng.random() < 0.35:
        fn = {'id': rng.randint(1, 3), 'seed': rng.randint(0, 10 ** 6), 'p': rng.choice([0.1, 0.3])}
    if rep is not None:
        rep.count('filter:includes=%d' % len(incs))
        rep.count('filter:type=%s' % t)
        rep.count('filter:extra=%d' % len(extra))
        rep.count('filter:fn=%s' % (fn is not None))
    return {'include': incs, 'type': t, 'extra': extra, 'exclude': exclude, 'fn': fn}


# ---- near-prefix families of pattern bases (the walk roots are chosen from the bases by path.uniquetrees)
# characters that sort before the separator '/' (0x2f) and may stand in a literal base component, and some after it
BEFORE_SEP = ['-', '.', ' ', '+', '!', '#', ',', '$', '&', "'", '(', ')', '%', '"', '\t', '\n']
AFTER_SEP = ['0', '2', '_', 'a', '~', '=', '@', ';', 'é', '{']
FAMILY_TAILS = ['*.c', '*.c', '*', '**/*.c', '**', '*/*.c', '*.h', '**/*', '*/', '**/', '?.c', '[ab].c', '*.', '**/*.', '*./']


def family_shape(all_bases):
    """some base B, a base strictly below B and a base continuing B's last component with a character sorting
    before the separator are all present (the shape where component order and string order of paths differ)"""
    bs = set(all_bases)
    for r, b in bs:
        if not b:
            continue
        if any(r2 == r and len(c) > len(b) and c[:len(b)] == b for r2, c in bs) and \
           any(r2 == r and len(c) >= len(b) and c[:len(b) - 1] == b[:-1] and c[len(b) - 1].startswith(b[-1]) and
               len(c[len(b) - 1]) > len(b[-1]) and c[len(b) - 1][len(b[-1])] < '/' for r2, c in bs):
            return True
    return False


def gen_family_job(rng, rep=None, nspecs=8):
    """A tree with a near-prefix family of directories - X, sub-directories of X (two levels), siblings X<c>... for
    characters <c> on both sides of the separator, the same one level further down (X/sub<c>...), unrelated
    directories, optionally everything below a parent (with its own near-prefix sibling) - every directory with
    matching files, and lists of 2..4 include patterns whose bases are drawn from the family.
    -> {'fsys': model-shape trees, 'specs': [filter spec]}"""
    X = rng.choice(['src', 'a', 'lib', 'x', 'ab', 'a.c'])
    parent = rng.choice([(), (), (), ('p',), ('p', 'q')])
    before = rng.sample(BEFORE_SEP, 3)
    after = rng.sample(AFTER_SEP, 2)
    sibs = [X + c + rng.choice(['gen', 'old', 'x', '']) for c in before[:2] + after[:1]]
    sub = rng.choice(['sub', 's', 'b'])
    subsibs = [sub + before[2] + rng.choice(['2', '']), sub + after[1]]
    dirs = [parent + (X,), parent + (X, sub), parent + (X, sub, 'deep'), parent + (X, 'other')]
    dirs += [parent + (n,) for n in sibs] + [parent + (sibs[0], sub), parent + (sibs[-1], sub)]
    dirs += [parent + (X, n) for n in subsibs]
    dirs += [('other',), ('other', sub)]
    if parent:
        dirs += [(parent[0] + rng.choice(BEFORE_SEP) + 'x',), (parent[0] + rng.choice(BEFORE_SEP) + 'x', X)]
    dirs = list(dict.fromkeys(dirs))

    def tree_of(dirset, depth=()):
        names = sorted(set(d[len(depth)] for d in dirset if len(d) > len(depth) and d[:len(depth)] == depth))
        out = [[1, n, False, tree_of(dirset, depth + (n,))] for n in names]
        if depth:
            out += [[0, f] for f in rng.sample(['a.c', 'b.c', 'x.h', 'a.h', 'c.c', 'n.', 'v1.2.', '...', '..x'], rng.randint(2, 5))
                    if f not in names]
        rng.shuffle(out)
        return out
    bdirs = [(X,), (X, sub), (sibs[0],)]
    fsys = [[1, tree_of(dirs)], [2, tree_of(bdirs)]]
    specs = []
    for _ in range(nspecs):
        r = rng.random()
        if r < 0.6:      # a base, something below it, a sibling continuing its name; optionally one more
            b = rng.choice([parent + (X,), parent + (X,), parent + (X, sub)] +
                           [d for d in dirs if any(len(e) > len(d) and e[:len(d)] == d for e in dirs)])
            below = rng.choice([e for e in dirs if len(e) > len(b) and e[:len(b)] == b])
            near = [e for e in dirs if len(e) >= len(b) and e[:len(b) - 1] == b[:-1] and e[len(b) - 1] != b[-1] and
                    e[len(b) - 1].startswith(b[-1])]
            early = [e for e in near if e[len(b) - 1][len(b[-1])] < '/']
            if early and rng.random() < 0.75:
                near = early
            chosen = [b, below] + ([rng.choice(near)] if near else []) + ([rng.choice(dirs)] if rng.random() < 0.4 else [])
        elif r < 0.8:
            chosen = rng.sample(dirs, rng.randint(2, 4))
        else:            # the same base twice, the root of the tree, a directory that does not exist
            chosen = rng.sample(dirs, 2)
            chosen.append(rng.choice([chosen[0], (), parent + ('missing',), chosen[1] + ('nope',)]))
        rng.shuffle(chosen)
        incs = []
        for i, d in enumerate(chosen[:4]):
            root = 'builddir' if (d in bdirs and rng.random() < 0.12) else 'srcdir'
            incs.append(('/'.join(d + (rng.choice(FAMILY_TAILS),)), root))
        t = rng.choice([None, None, None, None, '*', 'f', 'd'])
        if t == 'f':
            incs = [(s.rstrip('/'), r) for s, r in incs]
        spec = {'include': incs, 'type': t, 'extra': rng.choice([[], [], [], ['*.h'], [sub + '/']]),
                'exclude': rng.choice([[], DEFAULT_EXCLUDE, DEFAULT_EXCLUDE, DEFAULT_EXCLUDE + [sub], ['other']]),
                'fn': None if rng.random() < 0.85 else {'id': rng.randint(1, 3), 'seed': rng.randint(0, 10 ** 6), 'p': 0.1}}
        if rep is not None:
            rep.count('family:includes=%d' % len(incs))
        specs.append(spec)
    return {'fsys': fsys, 'specs': specs}


def all_entries(fstree, root_val, prefix=()):
    """every (root, comps) below a root"""
    for t in fstree:
        yield (root_val, prefix + (t[1],))
        if t[0] == 1:
            yield from all_entries(t[3], root_val, prefix + (t[1],))


def fn_table(fn, fsys):
    """the finite table behind a generated filter function: path key -> FindResult value (0 omitted)"""
    if fn is None:
        return None
    r = random.Random(fn['seed'])
    tab = {}
    keys = [(1, ())] + [k for rv, tr in fsys for k in all_entries(tr, rv)]
    for k in sorted(set(keys)):
        if r.random() < fn['p']:
            tab[k] = r.choice([1, 1, 2, 3])
    return tab


_FN_CACHE = {}


def fn_object(fn, tab):
    """one Python function object per table: FileFilter equality compares functions with =="""
    from bfg9000.builtins.find import FindResult
    key = id(tab)
    if key not in _FN_CACHE:
        def f(path, _tab=tab):
            return FindResult(_tab.get((path.root.value, tuple(path.split())), 0))
        _FN_CACHE[key] = (f, tab)     # keeps tab alive so that id(tab) stays unique
    return _FN_CACHE[key][0]


def build_filter(spec, tab):
    """-> (real FileFilter or None, model filter spec)"""
    from bfg9000.builtins.find import FileFilter
    from bfg9000.path import Path, Root
    inc_paths = [Path.ensure(s, Root[r]) for s, r in spec['include']]
    fnobj = fn_object(spec['fn'], tab) if spec['fn'] else None
    try:
        ff = FileFilter(inc_paths, spec['type'], spec['extra'], spec['exclude'], fnobj)
    except Exception:
        ff = None
    mfn = [] if spec['fn'] is None else [[spec['fn']['seed'] * 4 + spec['fn']['id'],
                                         [[[k[0], list(k[1])], v] for k, v in sorted(tab.items())]]]
    mspec = [[enc_path(p) for p in inc_paths], enc_type(spec['type']), spec['extra'], spec['exclude'], mfn]
    return ff, mspec


def dec_path(x):
    return (x[0], tuple(common.d_str(c) for c in x[1]), x[2] != 0)


def canon_path(p):
    return (p.root.value, tuple(p.split()), bool(p.directory))


def spec_bases(spec):
    """The walk roots by the documented reading, written directly (no path.uniquetrees, no PathGlob): the base of
    a pattern is its literal prefix (the components before the first one with a glob character); the roots are
    the bases that have no other base as a proper ancestor, each once, ordered by (root, component list).
    -> [(root value, component tuple)]"""
    from bfg9000.path import Path, Root
    keys = set()
    for s, r in spec['include']:
        gp = Path.ensure(s, Root[r])
        bits = gp.split()
        k = next(i for i, b in enumerate(bits) if is_glob(b))
        keys.add((gp.root.value, tuple(bits[:k])))

    def covered(k):
        return any(o != k and o[0] == k[0] and k[1][:len(o[1])] == o[1] for o in keys)
    return sorted(k for k in keys if not covered(k)), sorted(keys)


def roots_defects(got, want, allb):
    """what is wrong with the list of walk roots [(root, comps)] (empty = a minimal covering antichain of the bases)"""
    out = []

    def anc(a, b):     # a is b or an ancestor of b
        return a[0] == b[0] and b[1][:len(a[1])] == a[1]
    if len(set(got)) != len(got):
        out.append('a root is listed twice')
    if any(i != j and anc(a, b) for i, a in enumerate(got) for j, b in enumerate(got) if a != b):
        out.append('a root lies inside the tree of another root')
    if any(g not in allb for g in got):
        out.append('a root is not the base of any pattern')
    if any(not any(anc(g, b) for g in got) for b in allb):
        out.append('the base of a pattern is not covered by any root')
    if not out and got != want:
        out.append('the roots are not in (root, component list) order')
    return out


def dups(keys):
    seen, out = set(), []
    for k in keys:
        if k in seen and k not in out:
            out.append(k)
        seen.add(k)
    return out


def spec_selected(spec, tab, fsys, bases):
    """The documented rules, written directly over the scanned tree (no never-pruning, no glob.py):
    order of an unpruned walk from every base (given as (root value, components), see spec_bases); an entry is
    found iff some include selects it, no exclude name-pattern selects it or a directory between the base and it,
    and the filter function says include (and did not say exclude_recursive for a directory between the base and
    it)."""
    from bfg9000.path import Path, Root
    inc = []
    for s, r in spec['include']:
        gp = Path.ensure(s, Root[r])
        inc.append((gp, spec['type'] or ('d' if pattern_is_dir(s) else 'f')))
    single = len(inc) == 1

    def ng(pats, name, isdir):
        for p in pats:
            stripped = re.sub(r'[\\/]+$', '', p)
            t = spec['type'] or ('d' if stripped != p else 'f')
            if fnmatch.fnmatchcase(name, stripped) and (t == '*' or (t == 'd') == isdir):
                return True
        return False

    def fnval(key):
        return tab.get(key, 0) if tab is not None else 0

    def own(rootv, comps, isdir):
        name = comps[-1] if comps else ''
        if ng(spec['exclude'], name, isdir):
            return False
        p = Ent(Root(rootv), comps, isdir)       # the entry as the file system shows it (no Path construction)
        hit = any(spec_pathglob(gp, t, p, single) for gp, t in inc)
        return hit and fnval((rootv, tuple(comps))) == 0

    def blocked(rootv, comps):
        return ng(spec['exclude'], comps[-1], True) or fnval((rootv, tuple(comps))) == 3

    found = []

    def visit(rootv, comps, children):
        dirs = [c for c in children if c[0] == 1]
        files = [c for c in children if c[0] == 0]
        for c in dirs + files:
            if own(rootv, comps + [c[1]], c[0] == 1):
                found.append((rootv, tuple(comps + [c[1]]), c[0] == 1))
        for c in dirs:
            if not c[2] and not blocked(rootv, comps + [c[1]]):
                visit(rootv, comps + [c[1]], c[3])

    fsd = dict(fsys)
    for rootv, bits in bases:
        if own(rootv, list(bits), True):
            found.append((rootv, tuple(bits), True))
    for rootv, bits in bases:
        ch = fsd.get(rootv)
        bits = list(bits)
        for i, c in enumerate(bits):
            nxt = None
            for t in (ch or []):
                if t[1] == c:
                    nxt = t
            if nxt is None:
                ch = None
                break
            ch = nxt[3] if nxt[0] == 1 else ([] if i == len(bits) - 1 and len(nxt) == 2 else None)
            if ch is None:
                break
        if ch is not None:
            visit(rootv, bits, ch)
    return found


def realise_fsys(children, where, extroot, counter):
    """re-create a scanned tree (model shape) on disk"""
    os.makedirs(where, exist_ok=True)
    for t in children:
        full = os.path.join(where, t[1])
        if t[0] == 0:
            if len(t) > 2 and t[2]:
                os.symlink(os.path.join(extroot, 'missing'), full)
            else:
                open(full, 'w').close()
        elif t[2]:
            counter[0] += 1
            target = os.path.join(extroot, 'l%d' % counter[0])
            realise_fsys(t[3], target, extroot, counter)
            os.symlink(target, full)
        else:
            realise_fsys(t[3], full, extroot, counter)


def load_corpus():
    d = os.path.join(common.VERIF, 'corpus', 'C11')
    out = []
    if os.path.isdir(d):
        for fn in sorted(os.listdir(d)):
            if fn.endswith('.json'):
                out.append(json.load(open(os.path.join(d, fn))))
    return out


class Scene:
    """a real temp tree (src + build + a link target outside), scanned into the model's shape"""

    def __init__(self, rng, rep=None, fsys=None):
        self.root = common.scratch('c11')
        ext = os.path.join(self.root, 'ext')
        os.makedirs(os.path.join(ext, 'dir', 'sub'))
        for n in ['a.c', 'x.h', 'sub/b.c']:
            open(os.path.join(ext, 'dir', n), 'w').close()
        open(os.path.join(ext, 'file.c'), 'w').close()
        if fsys is not None:     # a recorded tree (corpus / replay)
            counter = [0]
            for r, tr in fsys:
                realise_fsys(tr, os.path.join(self.root, 'src' if r == 1 else 'build'), ext, counter)
            for d in ('src', 'build'):
                os.makedirs(os.path.join(self.root, d), exist_ok=True)
        else:
            realise(gen_tree(rng, rng.choice([2, 3, 3, 4]), rep), os.path.join(self.root, 'src'), ext)
            realise(gen_tree(rng, 1), os.path.join(self.root, 'build'), ext)
        self.fsys = [(1, scan(os.path.join(self.root, 'src'))), (2, scan(os.path.join(self.root, 'build')))]
        self.mfsys = [[r, t] for r, t in self.fsys]
        self.env = mk_env(self.root)

    def close(self):
        shutil.rmtree(self.root, ignore_errors=True)


class Capped:
    """forwards at most [cap] failing inputs of one stage to the report (each one writes a replay file holding the tree)"""

    def __init__(self, rep, cap=12):
        self.rep, self.cap, self.n = rep, cap, 0

    def fail(self, *args, **kw):
        self.n += 1
        if self.n <= self.cap:
            return self.rep.fail(*args, **kw)
        self.rep.count('failing-inputs-not-reported-individually')
        return True


def stage_walk(rep, rng, ntrees, nfilters, recorded=()):
    """FileFilter.match and _find_files on real trees against the model (policy 0), the model's pruning
    policies against each other, and the implementation against the documented rules (direct oracle)."""
    from bfg9000.builtins.find import _find_files, find
    from bfg9000.path import Path, Root
    calls, impl, meta = [], [], []
    failures = 0
    cap = Capped(rep)
    ecap = Capped(rep, 3)
    for job in list(recorded) + [None] * ntrees:
        sc = Scene(rng, rep, fsys=job['fsys'] if job else None)
        try:
            for spec in (job['specs'] if job else [None] * nfilters):
                if spec is None:
                    spec = gen_filter_spec(rng, sc.fsys[0][1], rep)
                tab = fn_table(spec['fn'], sc.fsys)
                ff, mspec = build_filter(spec, tab)
                if ff is None:
                    calls.append(('find.find', [mspec, sc.mfsys, 0]))
                    impl.append(None)
                    meta.append(None)
                    rep.count('walk:ctor-error')
                    continue
                bases = ff.bases()
                seen = []
                try:
                    ents = list(_find_files(sc.env, ff, seen))
                except Exception as e:
                    failures += 1
                    cap.fail('_find_files raised %s: %s (filter %r)' % (type(e).__name__, e, spec),
                             {'kind': 'find', 'spec': spec, 'fsys': sc.fsys, 'raised': repr(e)}, classes=())
                    continue
                got = ([(canon_path(p), m.name) for p, m in ents], [canon_path(p) for p in seen])
                # the model chooses the walk roots itself (Find/Bases.v: Path constructor + uniquetrees of PathAlg.v)
                calls.append(('find.bases', [mspec]))
                impl.append([canon_path(b) for b in bases])
                meta.append('bases')
                calls.append(('find.find', [mspec, sc.mfsys, 0]))
                impl.append(got)
                meta.append(None)
                found = [k for k, m in got[0] if m == 'include']
                rep.case('walk:%r:%r' % (spec, sc.fsys), bool(got[0]))
                rep.count('walk:found=%s' % min(len(found), 5))
                rep.count('walk:pruned=%d' % min(sum(1 for k, m in got[0] if k[2] and m == 'exclude_recursive'), 3))
                for k, m in got[0]:
                    rep.count('fres:' + m)
                # direct oracle 1: FileFilter.bases() is a minimal covering antichain of the pattern bases
                want_roots, all_bases = spec_bases(spec)
                got_roots = [(b.root.value, tuple(b.split())) for b in bases]
                rep.count('roots:patterns=%d,bases=%d,roots=%d' % (len(spec['include']), len(all_bases), len(want_roots)))
                if family_shape(all_bases):
                    rep.count('roots:near-prefix-family')
                rd = roots_defects(got_roots, want_roots, all_bases)
                if rd:
                    failures += 1
                    cap.fail('FileFilter.bases() of %r is %r, the minimal covering roots of the pattern bases are %r: %s' % (
                        [i[0] for i in spec['include']], got_roots, want_roots, '; '.join(rd)),
                        {'kind': 'find', 'what': 'bases', 'spec': spec, 'fsys': sc.fsys, 'bases': got_roots,
                         'want': want_roots}, classes=())
                # direct oracle 2: the documented rules over the unpruned tree, walked from the minimal roots;
                # equal as lists, hence every selected entry exactly once
                want = spec_selected(spec, tab, sc.fsys, want_roots)
                if want != found:
                    failures += 1
                    twice = dups(found)
                    cap.fail('_find_files found %r, the documented rules select %r%s (filter %r)' % (
                        found[:6], want[:6], '; returned more than once: %r' % (twice[:4],) if twice else '', spec),
                        {'kind': 'find', 'spec': spec, 'fsys': sc.fsys, 'found': found, 'want': want,
                         'returned_twice': twice}, classes=())
                # direct oracle 3: the public entry point find() (no filter function there)
                if spec['fn'] is None:
                    try:
                        pub = [canon_path(p) for p in find(sc.env, [Path.ensure(s, Root[r]) for s, r in spec['include']],
                                                           spec['type'], spec['extra'], spec['exclude'])]
                    except Exception as e:
                        pub = 'raised %s: %s' % (type(e).__name__, e)
                    if pub != want and want == found:
                        failures += 1
                        twice = dups(pub) if isinstance(pub, list) else []
                        cap.fail('find(%r) returned %r, the documented rules select %r%s' % (
                            [i[0] for i in spec['include']], pub[:6], want[:6],
                            '; returned more than once: %r' % (twice[:4],) if twice else ''),
                            {'kind': 'find', 'what': 'find()', 'spec': spec, 'fsys': sc.fsys, 'found': pub, 'want': want,
                             'returned_twice': twice}, classes=())
                # every found entry exists (a base that matches itself is covered by the literal-prefix guard)
                for k in found:
                    full = os.path.join(sc.root, 'src' if k[0] == 1 else 'build', *k[1])
                    if not os.path.lexists(full) and not any(canon_path(b) == k for b in bases):
                        failures += 1
                        cap.fail('_find_files returned %r which does not exist' % (k,),
                                 {'kind': 'find-exists', 'spec': spec, 'fsys': sc.fsys, 'entry': k}, classes=())
                # the model's documented-exclusions-only policy must find the same (theorem, re-checked on data)
                calls.append(('find.find', [mspec, sc.mfsys, 1]))
                impl.append(found)
                meta.append('found-only')
                # FileFilter.match on entries of the tree, as file and as directory
                keys = sorted(set(k for rv, tr in sc.fsys for k in all_entries(tr, rv)))[:40]
                paths = []
                for k in keys:
                    for d in (False, True):
                        try:
                            paths.append(Path('/'.join(k[1]), Root(k[0]), directory=d))
                        except ValueError as e:
                            failures += 1
                            ecap.fail('the entry %r of the tree cannot be a %s: Path(%r, directory=%r) raises %s' % (
                                k[1][-1], 'directory' if d else 'file', '/'.join(k[1]), d, e),
                                {'kind': 'entry-path', 'path': '/'.join(k[1]), 'dir': d}, classes=())
                calls.append(('find.fmatch', [mspec, [enc_path(p) for p in paths]]))
                impl.append([ff.match(p).name for p in paths])
                meta.append(None)
        finally:
            sc.close()

    def dec(name, r):
        i = dec.i
        dec.i += 1
        if name == 'find.fmatch':
            return d_opt(lambda v: [FRES[x] for x in v], r)
        v = d_opt(lambda x: x, r)
        if v is None:
            return None
        if meta[i] == 'bases':
            return d_opt(lambda l: [dec_path(p) for p in l], v)
        if not v:
            return None      # a base could not be constructed
        ents = [(dec_path(e[0]), FRES[e[1]]) for e in v[0]]
        if meta[i] == 'found-only':
            return [k for k, m in ents if m == 'include']
        return (ents, [dec_path(p) for p in v[1]])
    dec.i = 0
    rep.sample({'stage': 'W:find', 'filter': calls[0][1][0] if calls else None})
    dis = common.compare_model(rep, 'W:find', calls, impl, dec, vm_limit=30)
    rep.stage('oracle:find', failures=failures)
    return dis, failures


def stage_session(rep, rng, ntrees, ncalls, recorded=()):
    """find_from_filter with a real BuildContext: results, dist registration, find_dirs, cache hits."""
    from bfg9000.environment import Environment
    from bfg9000.build_inputs import BuildInputs
    from bfg9000.builtins import builtin, init as binit
    from bfg9000.builtins.find import find_from_filter, _find_files
    from bfg9000.path import Path, Root, InstallRoot, abspath
    binit()
    calls, impl = [], []
    failures = 0
    cap = Capped(rep)
    for job in list(recorded) + [None] * ntrees:
        sc = Scene(rng, fsys=job['fsys'] if job else None)
        try:
            env = Environment(abspath(sc.root + '/bfgdir'), None, None, abspath(sc.root + '/src'),
                              abspath(sc.root + '/build'))
            env.finalize({InstallRoot.prefix: abspath(sc.root + '/prefix')}, (False, False), False)
            build = BuildInputs(env, Path('build.bfg', Root.srcdir))
            context = builtin.BuildContext(env, build, None)
            context.path_stack.append(builtin.BuildContext.PathEntry(build.bfgpath))
            specs = job['specs'] if job else [gen_filter_spec(rng, sc.fsys[0][1]) for _ in range(max(2, ncalls // 2))]
            tabs = []
            for s in specs:     # extras make the dist part interesting
                if not job and rng.random() < 0.6 and not s['extra']:
                    s['extra'] = ['*.h']
                tabs.append(fn_table(s['fn'], sc.fsys))
            mcalls, results = [], []
            # call histories: random ones, and in most sessions a directed beginning - the same search first WITHOUT
            # registering for the distribution and then with it (the second is served from the cache filled by the first),
            # or twice with registration
            plan = []
            if rng.random() < 0.8:
                i0 = rng.randrange(len(specs))
                plan += [(i0, rng.random() < 0.25, True), (i0, True, True)]
            while len(plan) < ncalls:
                plan.append((rng.randrange(len(specs)), rng.random() < 0.75, rng.random() < 0.8))
            for i, dist, cache in plan:
                spec, tab = specs[i], tabs[i]
                ff, mspec = build_filter(spec, tab)
                rep.count('session:dist=%s,cache=%s' % (dist, cache))
                if ff is None:
                    mcalls.append([mspec, [], dist, cache])
                    results.append(None)
                    continue
                hit = cache and ff in build['find_cache']
                rep.count('session:cache-hit=%s' % hit)
                try:
                    res = find_from_filter(context, ff, dist=dist, cache=cache)
                except Exception as e:
                    failures += 1
                    cap.fail('find_from_filter raised %s: %s (filter %r)' % (type(e).__name__, e, spec),
                             {'kind': 'find', 'spec': spec, 'fsys': sc.fsys, 'raised': repr(e)}, classes=())
                    break
                mcalls.append([mspec, [], dist, cache])      # no start paths: the model chooses the roots
                results.append([canon_path(f.path) for f in res])
                rep.case('session:%r:%s:%s:%s' % (spec, dist, cache, hit), True)
                # direct oracle on the implementation: exactly the documented selection, every entry once
                want = spec_selected(spec, tab, sc.fsys, spec_bases(spec)[0])
                if want != results[-1]:
                    failures += 1
                    twice = dups(results[-1])
                    cap.fail('find_from_filter%s returned %r, the documented rules select %r%s (patterns %r)' % (
                        ' (cache hit)' if hit else '', results[-1][:6], want[:6],
                        '; returned more than once: %r' % (twice[:4],) if twice else '', [i[0] for i in spec['include']]),
                        {'kind': 'cache', 'what': 'find_from_filter', 'spec': spec, 'fsys': sc.fsys, 'cache_hit': hit,
                         'found': results[-1], 'want': want, 'returned_twice': twice}, classes=())
                # direct oracle on the implementation: everything found (and every extra) is in the dist
                if dist:
                    want = [p for p, m in _find_files(sc.env, ff) if m.name in ('include', 'not_now')
                            and p.root == Root.srcdir]
                    missing = [canon_path(p) for p in want if p not in build._sources]
                    if missing:
                        failures += 1
                        cap.fail('find_from_filter(dist=True%s) did not register %r for the source distribution' % (
                            ', cache hit' if hit else '', missing[:5]),
                            {'kind': 'dist', 'spec': spec, 'fsys': sc.fsys, 'cache_hit': hit, 'missing': missing},
                            classes=())
                    # and the cache never changes the returned list
                    fresh = [canon_path(p) for p, m in _find_files(sc.env, ff) if m.name == 'include']
                    if fresh != results[-1]:
                        failures += 1
                        cap.fail('find_from_filter%s returned %r, an uncached search gives %r' % (
                            ' (cache hit)' if hit else '', results[-1][:5], fresh[:5]),
                            {'kind': 'cache', 'spec': spec, 'fsys': sc.fsys, 'cache_hit': hit}, classes=())
            calls.append(('find.session', [True, sc.mfsys, mcalls]))
            impl.append((results, [(p.root.value, tuple(p.split())) for p in build._sources],
                         sorted(set(canon_path(p) for p in build['find_dirs']))))
        finally:
            sc.close()

    def dec(name, r):
        outs = [d_opt(lambda v: [dec_path(p) for p in v], o) for o in r[0]]
        return (outs, [(k[0], tuple(common.d_str(c) for c in k[1])) for k in r[1]],
                sorted(set(dec_path(p) for p in r[2])))
    dis = common.compare_model(rep, 'W:session', calls, impl, dec, vm_limit=10)
    rep.stage('oracle:dist', failures=failures)
    return dis, failures


def stage_sweep(rep, maxp, maxd):
    """exhaustive: all patterns of <= maxp components over {a,b,*,**,a*,?} x all paths of depth <= maxd over
    {a,b,ab} x file/dir: implementation = model = documented rules; never-soundness on the implementation."""
    from bfg9000.glob import PathGlob
    from bfg9000.path import Path, Root
    paths = []
    for d in range(0, maxd + 1):
        for comps in itertools.product(['a', 'b', 'ab'], repeat=d):
            for isdir in (False, True):
                if comps or isdir:
                    paths.append(Path('/'.join(comps), Root.srcdir, directory=isdir))
    ppaths = [(p, p.split(), bool(p.directory)) for p in paths]
    mpaths = [enc_path(p) for p in paths]
    below = {}
    for i, (p, c, d) in enumerate(ppaths):
        below[i] = [j for j, (q, qc, qd) in enumerate(ppaths) if len(qc) > len(c) and qc[:len(c)] == c]
    calls, impl = [], []
    failures = 0
    ncases = 0
    for n in range(1, maxp + 1):
        for pc in itertools.product(['a', 'b', '*', '**', 'a*', '?'], repeat=n):
            if not any(is_glob(c) for c in pc):
                continue
            pat = '/'.join(pc)
            for t in (None, 'd'):
                g = PathGlob(pat, t)
                gp = Path(pat, Root.srcdir)
                k = next(i for i, b in enumerate(pc) if is_glob(b))
                base, gl = list(pc[:k]), list(pc[k:])
                res = [g.match(p).name for p in paths]
                calls.append(('glob.pmatch_many', [[enc_path(gp), enc_type(t)], False, mpaths]))
                impl.append(res)
                ncases += len(paths)
                ty = t or 'f'
                for i, (p, c, d) in enumerate(ppaths):
                    want = c[:len(base)] == base and spec_match(gl, c[len(base):]) and ((ty == 'd') == d)
                    if (res[i] == 'yes') != want:
                        failures += 1
                        rep.fail('PathGlob(%r, %r).match(%r dir=%r) = %s, documented rules say %s' % (
                            pat, t, p.suffix, d, res[i], want),
                            {'kind': 'pathglob', 'pattern': pat, 'type': t, 'root': 'srcdir', 'path': p.suffix,
                             'path_root': 'srcdir', 'dir': d, 'skip': False}, classes=())
                    if res[i] == 'never' and d:
                        for j in below[i]:
                            if res[j] == 'yes':
                                failures += 1
                                rep.fail('PathGlob(%r).match(%r) is never but %r below it matches' % (
                                    pat, p.suffix, ppaths[j][0].suffix),
                                    {'kind': 'never', 'pattern': pat, 'type': t, 'root': 'srcdir', 'dir_path': p.suffix,
                                     'below': ppaths[j][0].suffix, 'below_dir': ppaths[j][2], 'skip': False}, classes=())
    rep.evaluations += ncases
    rep.count('sweep:cases', ncases)
    rep.count('sweep:patterns', len(calls))
    dis = common.compare_model(rep, 'W:sweep', calls, impl,
                               lambda nm, r: d_opt(lambda v: [RES[x] for x in v], r), vm_limit=3)
    rep.stage('oracle:sweep', cases=ncases, failures=failures)
    return dis, failures


def stage_name_probe(rep):
    """Names that Path.append rewrites (outside the model's domain): checked directly on the implementation."""
    from bfg9000.builtins.find import find
    root = common.scratch('c11n')
    try:
        # (name, finding class, the outcome the finding describes: the entry is never found / find raises the drive error);
        # any other outcome on the same directory is a different violation
        for name, cls, predicted in (('a\\b', 'entry-name-with-backslash', ['ok.c']), ('~', 'entry-name-leading-tilde', ['ok.c']),
                                     ('c:x', 'entry-name-drive-like',
                                      'raised ValueError: relative paths with drives not supported')):
            src = os.path.join(root, 'src')
            shutil.rmtree(src, ignore_errors=True)
            os.makedirs(src)
            open(os.path.join(src, name), 'w').close()
            open(os.path.join(src, 'ok.c'), 'w').close()
            try:
                got = sorted(p.suffix for p in find(mk_env(root), '*'))
            except Exception as e:
                got = 'raised %s: %s' % (type(e).__name__, e)
            rep.case('name:' + name, True)
            if got != sorted([name, 'ok.c']):
                rep.fail('a directory containing a file named %r: find_files("*") gives %r instead of both files' % (name, got),
                         {'kind': 'name', 'name': name, 'got': got}, classes=(cls,) if got == predicted else ())
        # an absolute pattern whose first glob component sits directly under the root
        from bfg9000.glob import PathGlob
        rep.case('name:/*.c', True)
        try:
            PathGlob('/*.c')
        except Exception as e:
            rep.fail('PathGlob("/*.c") raises %s: %s' % (type(e).__name__, e), {'kind': 'name', 'pattern': '/*.c'},
                     classes=('absolute-root-level-glob',) if (isinstance(e, ValueError) and str(e) == "'' is not absolute") else ())
    finally:
        shutil.rmtree(root, ignore_errors=True)


def report_dis(rep, dis, found):
    if dis and not rep.n_with_input:
        i, call, iv, mv = dis[0]
        rep.fail('W:%s - model and implementation disagree (%d cases), e.g. %r: impl %r, model %r' % (
            call[0], len(dis), call[1], iv, mv),
            {'obligation': 'W:' + call[0], 'call': call, 'impl': iv, 'model': mv, 'n_disagreements': len(dis)},
            found_input=False)


def run(rep):
    rng = random.Random(rep.seed)
    thorough = rep.tier == 'thorough'
    rep.proof_stage(coqchk=thorough)
    n = 10000 if thorough else 1600
    dis = stage_w_fnmatch(rep, rng, n)
    report_dis(rep, dis, 0)
    dis, found = stage_w_pathglob(rep, rng, n // 2)
    swept = False
    if dis and not rep.n_with_input:
        swept = True
        found = stage_sweep(rep, 4, 4)[1]
    report_dis(rep, dis, found)
    dis = stage_w_nameglob(rep, rng, n // 2)
    report_dis(rep, dis, 0)
    recorded = [c for c in load_corpus() if c.get('kind') == 'find']
    families = [gen_family_job(rng, rep) for _ in range(80 if thorough else 12)]
    dis, found = stage_walk(rep, rng, 150 if thorough else 25, 12 if thorough else 10, recorded + families)
    if dis and not rep.n_with_input:
        rng2 = random.Random(rep.seed + 1)
        found = stage_walk(rep, rng2, 250, 12, [gen_family_job(rng2) for _ in range(120)])[1]
    report_dis(rep, dis, found)
    dis, found = stage_session(rep, rng, 100 if thorough else 15, 8, recorded + families[:30 if thorough else 6])
    report_dis(rep, dis, found)
    if not swept:
        dis, found = stage_sweep(rep, 4 if thorough else 3, 4)
        report_dis(rep, dis, found)
    stage_name_probe(rep)


def replay(rep, path):
    """re-run the recorded failing case against the implementation"""
    from bfg9000.path import Path, Root
    r = json.load(open(path))
    kind = r.get('kind')
    print(json.dumps({k: v for k, v in r.items() if k != 'fsys'}, indent=1, default=str)[:1500])
    rep.proof_stage()
    if kind == 'pathglob':
        g = make_glob(r['pattern'], r['type'], r['root'])
        gp = Path.ensure(r['pattern'], Root[r['root']])
        p = Path(r['path'], Root[r['path_root']], directory=r['dir'])
        got = g.match(p, r['skip']).name
        want = spec_pathglob(gp, g.type.to_char(), p, r['skip'])
        rep.case('replay', True)
        if (got == 'yes') != want:
            rep.fail('PathGlob(%r, %r).match(%r dir=%r, skip_base=%r) = %s but the documented rules say %s' % (
                r['pattern'], r['type'], r['path'], r['dir'], r['skip'], got, want), r, classes=())
    elif kind == 'never':
        g = make_glob(r['pattern'], r['type'], r['root'])
        d = Path(r['dir_path'], Root[r['root']], directory=True)
        q = Path(r['below'], Root[r['root']], directory=r['below_dir'])
        rep.case('replay', True)
        if g.match(d, r['skip']).name == 'never' and g.match(q, r['skip']).name == 'yes':
            rep.fail('PathGlob(%r).match(%r) is never but %r below it matches' % (r['pattern'], r['dir_path'], r['below']),
                     r, classes=())
    elif kind in ('find', 'find-exists'):
        stage_walk(rep, random.Random(rep.seed), 0, 0, [{'fsys': r['fsys'], 'specs': [r['spec']]}])
    elif kind in ('dist', 'cache'):
        stage_session(rep, random.Random(rep.seed), 0, 6, [{'fsys': r['fsys'], 'specs': [r['spec']]}])
    elif kind == 'name':
        stage_name_probe(rep)
    elif kind == 'entry-path':
        rep.case('replay', True)
        try:
            Path(r['path'], Root.srcdir, directory=r['dir'])
        except ValueError as e:
            rep.fail('Path(%r, directory=%r) raises %s' % (r['path'], r['dir'], e), r, classes=())
    else:
        run(rep)
