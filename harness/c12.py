"""C12 - Path algebra: normalised, root-confined, invertible, separator-agnostic."""
import itertools
import json
import os
import posixpath
import random
import re

from . import common
from .common import d_str, d_bool, d_opt, d_list

LEVEL = 'proof'
RULE = ('path strings are assembled from component classes (empty, ., .., 1-/2-/n-char names, dotted names, leading-dot '
        'names, names with spaces, drive-like names with a colon, a non-ASCII name) joined by /, \\ or doubled separators, '
        'with optional trailing separator and a prefix form (relative, /, \\, //, ///, X:/, X:\\, X: , UNC //s/h/, '
        '//?/UNC/s/h/); every root (3 Root + 7 InstallRoot members) or a base path as root; destdir/directory in '
        '{None, True, False}; method chains (parent, append, addext, stripext, reroot, json round trip, as_directory) of '
        'depth <= 3 are applied to both PosixPath and WindowsPath and to the model. Thorough tier adds the exhaustive sweep '
        'of all strings with <= 4 components over a 7-component alphabet x 3 prefix forms x 2 separators x trailing. A case '
        'is non-trivial when the string contains a special component (empty, ., ..), a backslash, a drive or a trailing '
        'separator; distinct by exact text of the expression.')
TRUSTED = ('the model mirrors ntpath.splitdrive/isabs of CPython 3.12 and the documented posixpath.normpath; the '
           'correspondence stage re-validates this against the running interpreter on every run',
           'os.path.expanduser is outside the model (no generated string starts with a tilde)',
           'direct law checks on the implementation use posixpath.normpath/join of the running interpreter as the notion of '
           'ordinary path joining')
EXPLANATION = ''

# ------------------------------------------------------------------------------------------------ generators
COMP_CLASSES = {
    'empty': [''],
    'dot': ['.'],
    'dotdot': ['..'],
    'one': ['a', 'b', 'x'],
    'two': ['ab', 'b1', 'xy'],
    'name': ['foo', 'bar', 'main', 'src', 'include'],
    'dotted': ['a.b', 'foo.c', 'x.tar.gz', 'foo.', 'a..b'],
    'leaddot': ['.hid', '..x', '...', '.a.b'],
    'space': ['a b', ' ', 'my file.txt'],
    'colon': ['c:d', 'C:', 'a:', 'ab:c', ':', '::'],
    'uni': ['\u00e9t\u00e9', '\u65e5'],
}
COMP_WEIGHTS = [('empty', 6), ('dot', 8), ('dotdot', 14), ('one', 12), ('two', 8), ('name', 22), ('dotted', 10),
                ('leaddot', 5), ('space', 5), ('colon', 4), ('uni', 3)]
PREFIX_FORMS = [('rel', '', 48), ('abs', '/', 12), ('absbs', '\\', 4), ('abs2', '//', 2), ('abs3', '///', 2),
                ('drive', 'C:/', 6), ('drivebs', 'c:\\', 4), ('drive2', 'C://', 1), ('driverel', 'C:', 2),
                ('unc', '//srv/share/', 4), ('uncbs', '\\\\srv\\share\\', 2), ('unc_short', '//srv/', 1),
                ('unc2', '//srv/share//', 1), ('uncdev', '//?/UNC/srv/share/', 1), ('uncdev2', '\\\\?\\unc\\s\\h\\', 1),
                ('dotslash', './', 5), ('dotdotslash', '../', 4)]


def wchoice(rng, table):
    tot = sum(w for *_, w in table)
    x = rng.random() * tot
    for item in table:
        x -= item[-1]
        if x < 0:
            return item
    return table[-1]


def gen_comps(rng, rep=None, maxn=5):
    n = rng.choice([0, 1, 1, 2, 2, 2, 3, 3, 4, maxn])
    out = []
    for _ in range(n):
        cls, _w = wchoice(rng, COMP_WEIGHTS)
        if rep is not None:
            rep.count('comp:' + cls)
        out.append(rng.choice(COMP_CLASSES[cls]))
    return out


def gen_relstring(rng, rep=None, maxn=5):
    comps = gen_comps(rng, rep, maxn)
    seps = [rng.choice(['/', '/', '/', '\\', '\\', '//', '/\\']) for _ in comps]
    s = ''
    for i, c in enumerate(comps):
        s += c
        if i + 1 < len(comps):
            s += seps[i]
    if comps and rng.random() < 0.25:
        s += rng.choice(['/', '\\', '//'])
        if rep is not None:
            rep.count('trailing-sep')
    return s


def gen_string(rng, rep=None, relonly=False):
    name, pre, _w = wchoice(rng, [f for f in PREFIX_FORMS if not relonly or f[0] in ('rel', 'dotslash', 'dotdotslash')])
    if rep is not None:
        rep.count('form:' + name)
    s = pre + gen_relstring(rng, rep)
    if s.startswith('~'):
        s = 'x' + s
    return s


NROOTS = 10


def gen_optbool(rng, pnone=0.6):
    x = rng.random()
    if x < pnone:
        return []
    return [x < pnone + (1 - pnone) / 2]


def gen_mk(rng, rep=None, depth=1):
    s = gen_string(rng, rep)
    if depth > 0 and rng.random() < 0.2:
        ra = [1, gen_expr(rng, rep, depth - 1)]
        if rep is not None:
            rep.count('root:path')
    else:
        r = rng.choice([0, 0, 0, 1, 1, 1, 2, 2, 3, 4, 5, 6, 7, 8, 9])
        ra = [0, r]
        if rep is not None:
            rep.count('root:%d' % r)
    return [0, s, ra, gen_optbool(rng, 0.7), gen_optbool(rng, 0.6)]


EXTS = ['.o', '.c', '', '.tar.gz', '.', 'x', '/y', '.a/b', '\\z', '..', '/..', '/../..']


def gen_expr(rng, rep=None, depth=2):
    if depth <= 0 or rng.random() < 0.45:
        return gen_mk(rng, rep, depth)
    op = rng.choice([1, 1, 2, 2, 2, 3, 4, 4, 5, 6, 6, 7])
    if rep is not None:
        rep.count('op:%d' % op)
    e = gen_expr(rng, rep, depth - 1)
    if op == 2:
        return [2, e, gen_string(rng, rep)]
    if op == 3:
        return [3, e, rng.choice(EXTS)]
    if op == 4:
        return [4, e, rng.choice([[], [], [rng.choice(EXTS)]])]
    if op == 5:
        return [5, e, rng.randrange(NROOTS)]
    return [op, e]


# ------------------------------------------------------------------------------------------------ implementation side
def impl():
    from bfg9000.platforms.posix import PosixPath
    from bfg9000.platforms.windows import WindowsPath
    from bfg9000.platforms.basepath import Root, InstallRoot, DestDir, BasePath
    from bfg9000 import path as bpath
    roots = [Root.srcdir, Root.builddir, Root.absolute, InstallRoot.prefix, InstallRoot.exec_prefix,
             InstallRoot.bindir, InstallRoot.libdir, InstallRoot.includedir, InstallRoot.datadir, InstallRoot.mandir]
    return PosixPath, WindowsPath, roots, DestDir, BasePath, bpath


def un_opt(x):
    return None if x == [] else x[0]


def py_eval(cls, roots, e):
    op = e[0]
    if op == 0:
        ra = e[2]
        r = roots[ra[1]] if ra[0] == 0 else py_eval(cls, roots, ra[1])
        return cls(e[1], r, un_opt(e[3]), un_opt(e[4]))
    p = py_eval(cls, roots, e[1])
    if op == 1:
        return p.parent()
    if op == 2:
        return p.append(e[2])
    if op == 3:
        return p.addext(e[2])
    if op == 4:
        return p.stripext(un_opt(e[2]))
    if op == 5:
        return p.reroot(roots[e[2]])
    if op == 6:
        return type(p).from_json(p.to_json())
    if op == 7:
        return p.as_directory()
    raise ValueError('bad op')


def canon_path(p, roots):
    return [roots.index(p.root), p.suffix, bool(p.directory), bool(p.destdir)]


def try_eval(cls, roots, e):
    try:
        return py_eval(cls, roots, e)
    except (ValueError, KeyError):
        return None


def d_path(x):
    return [x[0], d_str(x[1]), d_bool(x[2]), d_bool(x[3])]


def dec(name, r):
    if name == 'path.eval':
        return d_opt(d_path, r)
    if name == 'path.normalize':
        return d_opt(lambda x: [d_str(x[0]), d_str(x[1]), d_bool(x[2])], r)
    if name == 'path.info':
        return d_opt(lambda x: [d_str(x[0]), d_str(x[1]), d_list(d_str, x[2]),
                                [d_str(x[3][0]), d_str(x[3][1]), d_bool(x[3][2])], d_str(x[4]),
                                d_opt(lambda y: [d_path(y[0]), d_str(y[1])], x[5])], r)
    if name in ('path.relpath', 'path.string'):
        return d_opt(lambda x: d_opt(d_str, x), r)
    if name == 'path.realize':
        return d_opt(d_str, r)
    if name == 'path.commonprefix':
        if r == []:
            return 'unbuilt'
        return ['raise', 'none', 'path'][r[0]] if r[0] < 2 else d_path(r[1])
    if name == 'path.uniquetrees':
        return d_opt(lambda x: d_list(d_path, x), r)
    if name == 'path.eq':
        return d_opt(d_bool, r)
    raise KeyError(name)


def nontrivial_string(s):
    return bool(re.search(r'(^|[/\\])(\.|\.\.|)([/\\]|$)', s)) or '\\' in s or ':' in s[:2] or s[-1:] in ('/', '\\')


def expr_strings(e):
    out = []
    if e[0] == 0:
        out.append(e[1])
        if e[2][0] == 1:
            out += expr_strings(e[2][1])
    else:
        out += expr_strings(e[1])
        if e[0] == 2:
            out.append(e[2])
    return out


CORPUS_STRINGS = ['', '.', '..', '/', '\\', '//', '///', '////', 'a', 'a/', 'a/.', 'a/..', 'a/../..', '../a', 'a/../../b',
                  './a:b', 'a:b', 'C:', 'C:/', 'C:\\', 'C:/foo', 'C:/foo/bar', 'C:/..', 'C:/../..', 'C://foo', 'C:a:/x',
                  'C:.:/', '//s/h', '//s/h/', '//s/h/foo', '//s/h//foo', '///foo/bar', '//?/UNC/s/h/x', '//?/unc/s',
                  '//./dev/x', 'foo.', '.foo', 'a.b/', 'x/.hid', 'a\\b', 'a\\..\\..', '..\\a', 'a/b/../../..',
                  'a//b', 'a/./b', './', '../', 'a b/c d', '...', 'a/...', '.../..', '/..', '/../a', '//a/b/../../..']


def load_corpus():
    out = []
    d = os.path.join(common.VERIF, 'corpus', 'C12')
    if os.path.isdir(d):
        for fn in sorted(os.listdir(d)):
            if fn.endswith('.json'):
                out += json.load(open(os.path.join(d, fn))).get('exprs', [])
    return out


def corpus_exprs():
    out = []
    for s in CORPUS_STRINGS:
        for r in (0, 2, 5):
            out.append([0, s, [0, r], [], []])
        out.append([0, s, [1, [0, 'base/dir', [0, 0], [], []]], [], []])
        out.append([0, s, [1, [0, 'C:/base', [0, 2], [], []]], [], []])
        out.append([0, s, [1, [0, '//s/h/base', [0, 2], [], []]], [], []])
        out.append([0, s, [0, 0], [], [False]])
        out.append([2, [0, 'p/q', [0, 1], [], []], s])
        out.append([2, [0, '/p', [0, 2], [True], []], s])
        out.append([2, [0, 'C:/', [0, 2], [], []], s])
        for op in (1, 6, 7):
            out.append([op, [0, s, [0, 0], [], []]])
            out.append([op, [0, s, [0, 2], [], []]])
        out.append([4, [0, s, [0, 0], [], []], []])
        out.append([3, [0, s, [0, 0], [], []], '.x'])
    return out + load_corpus()


def sweep_exprs():
    """Exhaustive: <= 4 components over a 7-component alphabet x 3 prefixes x 2 separators x trailing."""
    alpha = ['', '.', '..', 'a', 'bc', 'f.x', 'a b']
    out = []
    for n in range(0, 5):
        for comps in itertools.product(alpha, repeat=n):
            for pre in ('', '/', 'C:/'):
                for sep in ('/', '\\'):
                    for trail in ('', sep):
                        if n == 0 and trail:
                            continue
                        s = pre + sep.join(comps) + trail
                        out.append(s)
    return sorted(set(out))


# ------------------------------------------------------------------------------------------------ W correspondence
def stage_w_eval(rep, rng, n, extra=()):
    P, W, roots, DestDir, BasePath, bpath = impl()
    exprs = corpus_exprs() + list(extra) + [gen_expr(rng, rep, 3) for _ in range(n)]
    calls, res = [], []
    flavour_dis = 0
    for e in exprs:
        strs = expr_strings(e)
        if any(s.startswith('~') for s in strs):
            continue
        rep.case('e:' + json.dumps(e), any(nontrivial_string(s) for s in strs))
        pp, pw = try_eval(P, roots, e), try_eval(W, roots, e)
        cp = canon_path(pp, roots) if pp is not None else None
        cw = canon_path(pw, roots) if pw is not None else None
        if cp != cw:
            flavour_dis += 1
        rep.count('result:' + ('ValueError' if cp is None else 'ok'))
        calls.append(('path.eval', e)); res.append(cp)
        if pp is not None:
            try:
                sl = pp.splitleaf()
                sl = [canon_path(sl[0], roots), sl[1]]
            except ValueError:
                sl = None
            calls.append(('path.info', e))
            res.append([pp.basename(), pp.ext(), pp.split(), list(pp.to_json()), pp.suffix, sl])
    for s in CORPUS_STRINGS + [gen_string(rng, rep) for _ in range(n // 2)]:
        if s.startswith('~'):
            continue
        try:
            r = list(BasePath._BasePath__normalize(s))
        except ValueError:
            r = None
        calls.append(('path.normalize', s)); res.append(r)
    for c in calls[:2]:
        rep.sample({'stage': 'W:eval', 'call': c[0], 'arg': c[1]})
    dis = common.compare_model(rep, 'W:eval', calls, res, dec)
    rep.stage('W:eval', posix_vs_windows_class_disagreements=flavour_dis)
    return dis


def gen_same_root_pair(rng, rep):
    r = rng.choice([0, 0, 1, 1, 3, 5, 2])
    a = [0, gen_string(rng, rep, relonly=(r != 2)), [0, r], [], []]
    r2 = r if rng.random() < 0.9 else rng.randrange(NROOTS)
    b = [0, gen_string(rng, rep, relonly=(r2 != 2)), [0, r2], [], []]
    return a, b


VAR_STRINGS = ['$(srcdir)', '/abs/dir', 'C:\\dir', '.', '', 'a/b', '${x}/y']


def stage_w_rel(rep, rng, n):
    """relpath, realize, string, eq on both flavours."""
    P, W, roots, DestDir, BasePath, bpath = impl()
    calls, res = [], []
    for _ in range(n):
        a, b = gen_same_root_pair(rng, rep)
        for fl, cls in ((0, P), (1, W)):
            pa, pb = try_eval(cls, roots, a), try_eval(cls, roots, b)
            if pa is None or pb is None:
                continue
            prefix = rng.choice(['', '', '$ORIGIN', 'pre/', '/x'])
            loc = rng.random() < 0.8
            try:
                r = pa.relpath(pb, prefix, loc)
            except ValueError:
                r = None
            rep.case('rel:%d:%s' % (fl, json.dumps([a, b, prefix, loc])), True)
            calls.append(('path.relpath', [fl, a, b, prefix, loc])); res.append(r)
            calls.append(('path.eq', [a, b])); res.append(pa == pb)
            if (pa == pb) and hash(pa) != hash(pb):
                rep.fail('equal paths with different hashes: %r %r' % (a, b), {'exprs': [a, b], 'law': 'eq_hash'})
    for _ in range(n):
        e = gen_mk(rng, rep, 1)
        if any(s.startswith('~') for s in expr_strings(e)):
            continue
        vs = [rng.choice([[], [rng.choice(VAR_STRINGS)], [rng.choice(VAR_STRINGS)]]) for _ in range(NROOTS)]
        dvar = rng.choice([[], ['$(DESTDIR)'], ['/dest']])
        ex, vsep, loc = rng.random() < 0.4, rng.random() < 0.8, rng.random() < 0.8
        for fl, cls in ((0, P), (1, W)):
            p = try_eval(cls, roots, e)
            if p is None:
                continue
            variables = {roots[i]: un_opt(v) for i, v in enumerate(vs)}
            if dvar:
                variables[DestDir.destdir] = dvar[0]
            r = p.realize(variables, ex, vsep, loc)
            rep.case('rz:%d:%s' % (fl, json.dumps([e, vs, dvar, ex, vsep, loc])), True)
            calls.append(('path.realize', [fl, e, vs, dvar, ex, vsep, loc])); res.append(r)
        # string() with path-valued variables (env.base_dirs / install_dirs shape)
        base = {0: [2, [0, rng.choice(['/src', 'C:/src', '/']), [0, 2], [], []]],
                1: rng.choice([[0], [1, '.'], [2, [0, '/bld', [0, 2], [], []]]]),
                2: [0],
                3: rng.choice([[2, [0, '/usr/local', [0, 2], [], []]], [1, '/pfx'], [0]]),
                4: [2, [0, '', [0, 3], [], []]],
                5: [2, [0, 'bin', [0, 4], [], []]],
                6: [2, [0, 'lib/', [0, 4], [], []]],
                7: [2, [0, 'include', [0, 3], [], []]],
                8: [2, [0, 'share', [0, 3], [], []]],
                9: [2, [0, 'man', [0, 8], [], []]]}
        vv = [base[i] for i in range(NROOTS)]
        for fl, cls in ((0, P), (1, W)):
            p = try_eval(cls, roots, e)
            if p is None or p.destdir:
                continue
            variables = {}
            for i, v in enumerate(vv):
                variables[roots[i]] = None if v[0] == 0 else v[1] if v[0] == 1 else py_eval(cls, roots, v[1])
            r = p.string(variables)
            calls.append(('path.string', [fl, e, vv])); res.append(r)
    for c in calls[:2]:
        rep.sample({'stage': 'W:rel', 'call': c[0], 'arg': c[1]})
    return common.compare_model(rep, 'W:rel', calls, res, dec)


def gen_path_list(rng, rep):
    k = rng.choice([0, 1, 2, 2, 3, 3, 4, 6])
    mixed = rng.random() < 0.25
    r = rng.choice([0, 1, 2, 3, 5])
    pool = ['a', 'b', 'ab', 'foo', 'foo.c', 'a b', 'c:d']
    out = []
    for _ in range(k):
        rr = rng.randrange(NROOTS) if mixed else r
        comps = [rng.choice(pool) for _ in range(rng.choice([0, 1, 1, 2, 2, 3]))]
        s = ('/' if rr == 2 else '') + '/'.join(comps)
        if rng.random() < 0.2:
            s = './' + s if rr != 2 else s
        if comps and rng.random() < 0.2:
            s += '/'
        dd = [True] if (rr >= 2 and rng.random() < 0.15) else []
        out.append([0, s, [0, rr], dd, []])
    return out


def stage_w_sets(rep, rng, n):
    P, W, roots, DestDir, BasePath, bpath = impl()
    calls, res = [], []
    for _ in range(n):
        es = gen_path_list(rng, rep)
        ps = [try_eval(P, roots, e) for e in es]
        if any(p is None for p in ps):
            continue
        rep.case('set:' + json.dumps(es), len(es) >= 2)
        try:
            r = bpath.commonprefix(ps)
            r = 'none' if r is None else canon_path(r, roots)
        except (ValueError, IndexError):
            r = 'raise'
        calls.append(('path.commonprefix', es)); res.append(r)
        calls.append(('path.uniquetrees', es)); res.append([canon_path(p, roots) for p in bpath.uniquetrees(ps)])
    for c in calls[:2]:
        rep.sample({'stage': 'W:sets', 'call': c[0], 'arg': c[1]})
    return common.compare_model(rep, 'W:sets', calls, res, dec)


def run(rep):
    rng = random.Random(rep.seed)
    thorough = rep.tier == 'thorough'
    rep.proof_stage(coqchk=thorough)
    n = 6000 if thorough else 1200
    dis = []
    dis += stage_w_eval(rep, rng, n)
    dis += stage_w_rel(rep, rng, n // 3)
    dis += stage_w_sets(rep, rng, n // 3)
    if dis:
        i, call, iv, mv = dis[0]
        rep.fail('W:%s - model and implementation disagree (%d cases), e.g. %r: impl %r, model %r' % (
            call[0], len(dis), call[1], iv, mv),
            {'obligation': 'W:' + call[0], 'call': call, 'impl': iv, 'model': mv, 'n_disagreements': len(dis),
             'more': [[c, a, b] for _, c, a, b in dis[1:10]]},
            found_input=False)


def replay(rep, path):
    r = json.load(open(path))
    print(json.dumps(r, indent=1)[:2000])
    run(rep)
