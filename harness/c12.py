"""C12 - Path algebra: normalised, root-confined, invertible, separator-agnostic."""
import itertools
import json
import os
import posixpath
import random
import re
import shutil

from . import common
from .common import d_str, d_bool, d_opt, d_list

LEVEL = 'proof'
RULE = ('path strings are assembled from component classes (empty, ., .., 1-/2-/n-char names, dotted names, leading-dot '
        'names, names with spaces, drive-like names with a colon, a non-ASCII name) joined by /, \\ or doubled separators, '
        'with optional trailing separator and a prefix form (relative, /, \\, //, ///, X:/, X:\\, X: , UNC //s/h/, '
        '//?/UNC/s/h/); every root (3 Root + 7 InstallRoot members) or a base path as root; destdir/directory in '
        '{None, True, False}; method chains (parent, append, addext, stripext, reroot, json round trip, as_directory) of '
        'depth <= 3 are applied to both PosixPath and WindowsPath and to the model. Thorough tier adds the exhaustive sweep '
        'of all strings with <= 4 components over a 7-component alphabet x 3 prefix forms x 2 separators x trailing. A case '
        'is non-trivial when the string contains a special component (empty, ., ..), a backslash, a drive or a trailing '
        'separator; distinct by exact text of the expression. String entry points (Path.ensure, objutils.objectify, the '
        'builtins relpath/buildpath/relname/generic_file/source_file/header_file/auto_file/directory/header_directory in a '
        'real BuildContext): the same strings, a third with white space (space, tab, LF, CRLF, VT, NBSP, EM SPACE) put at the '
        'beginning, the end, both ends or next to a separator; non-trivial when the string differs from its stripped form.')
TRUSTED = ('the model mirrors ntpath.splitdrive/isabs of CPython 3.12 and the documented posixpath.normpath; the '
           'correspondence stage re-validates this against the running interpreter on every run',
           'os.path.expanduser is outside the model (no generated string starts with a tilde)',
           'direct law checks on the implementation use posixpath.normpath/join of the running interpreter as the notion of '
           'ordinary path joining',
           'string entry points: the constructor Path(s, root, ...) of the tree under test is the reference for what a string '
           'denotes (its own laws are checked by the path-law oracle)')
EXPLANATION = ''

# ------------------------------------------------------------------------------------------------ generators
COMP_CLASSES = {
    'empty': [''],
    'dot': ['.'],
    'dotdot': ['..'],
    'one': ['a', 'b', 'x'],
    'two': ['ab', 'b1', 'xy'],
    'name': ['foo', 'bar', 'main', 'src', 'include'],
    'dotted': ['a.b', 'foo.c', 'x.tar.gz', 'foo.', 'a..b'],
    'leaddot': ['.hid', '..x', '...', '.a.b'],
    'space': ['a b', ' ', 'my file.txt'],
    'wsedge': ['data ', ' lead', '\tx', 'x\t', 'n\n', '\nn', ' a b ', '  ', '\t', 'foo.c ', ' .h'],
    'colon': ['c:d', 'C:', 'a:', 'ab:c', ':', '::'],
    'uni': ['\u00e9t\u00e9', '\u65e5'],
}
COMP_WEIGHTS = [('empty', 6), ('dot', 8), ('dotdot', 14), ('one', 12), ('two', 8), ('name', 22), ('dotted', 10),
                ('leaddot', 5), ('space', 5), ('wsedge', 5), ('colon', 4), ('uni', 3)]
PREFIX_FORMS = [('rel', '', 48), ('abs', '/', 12), ('absbs', '\\', 4), ('abs2', '//', 2), ('abs3', '///', 2),
                ('drive', 'C:/', 6), ('drivebs', 'c:\\', 4), ('drive2', 'C://', 1), ('driverel', 'C:', 2),
                ('unc', '//srv/share/', 4), ('uncbs', '\\\\srv\\share\\', 2), ('unc_short', '//srv/', 1),
                ('unc2', '//srv/share//', 1), ('uncdev', '//?/UNC/srv/share/', 1), ('uncdev2', '\\\\?\\unc\\s\\h\\', 1),
                ('dotslash', './', 5), ('dotdotslash', '../', 4)]


def wchoice(rng, table):
    tot = sum(w for *_, w in table)
    x = rng.random() * tot
    for item in table:
        x -= item[-1]
        if x < 0:
            return item
    return table[-1]


def gen_comps(rng, rep=None, maxn=5):
    n = rng.choice([0, 1, 1, 2, 2, 2, 3, 3, 4, maxn])
    out = []
    for _ in range(n):
        cls, _w = wchoice(rng, COMP_WEIGHTS)
        if rep is not None:
            rep.count('comp:' + cls)
        out.append(rng.choice(COMP_CLASSES[cls]))
    return out


def gen_relstring(rng, rep=None, maxn=5):
    comps = gen_comps(rng, rep, maxn)
    seps = [rng.choice(['/', '/', '/', '\\', '\\', '//', '/\\']) for _ in comps]
    s = ''
    for i, c in enumerate(comps):
        s += c
        if i + 1 < len(comps):
            s += seps[i]
    if comps and rng.random() < 0.25:
        s += rng.choice(['/', '\\', '//'])
        if rep is not None:
            rep.count('trailing-sep')
    return s


def gen_string(rng, rep=None, relonly=False):
    name, pre, _w = wchoice(rng, [f for f in PREFIX_FORMS if not relonly or f[0] in ('rel', 'dotslash', 'dotdotslash')])
    if rep is not None:
        rep.count('form:' + name)
    s = pre + gen_relstring(rng, rep)
    if s.startswith('~'):
        s = 'x' + s
    return s


NROOTS = 10


def gen_optbool(rng, pnone=0.6):
    x = rng.random()
    if x < pnone:
        return []
    return [x < pnone + (1 - pnone) / 2]


def gen_mk(rng, rep=None, depth=1):
    s = gen_string(rng, rep)
    if depth > 0 and rng.random() < 0.2:
        ra = [1, gen_expr(rng, rep, depth - 1)]
        if rep is not None:
            rep.count('root:path')
    else:
        r = rng.choice([0, 0, 0, 1, 1, 1, 2, 2, 3, 4, 5, 6, 7, 8, 9])
        ra = [0, r]
        if rep is not None:
            rep.count('root:%d' % r)
    return [0, s, ra, gen_optbool(rng, 0.7), gen_optbool(rng, 0.6)]


EXTS = ['.o', '.c', '', '.tar.gz', '.', 'x', '/y', '.a/b', '\\z', '..', '/..', '/../..']


def gen_expr(rng, rep=None, depth=2):
    if depth <= 0 or rng.random() < 0.45:
        return gen_mk(rng, rep, depth)
    op = rng.choice([1, 1, 2, 2, 2, 3, 4, 4, 5, 6, 6, 7])
    if rep is not None:
        rep.count('op:%d' % op)
    e = gen_expr(rng, rep, depth - 1)
    if op == 2:
        return [2, e, gen_string(rng, rep)]
    if op == 3:
        return [3, e, rng.choice(EXTS)]
    if op == 4:
        return [4, e, rng.choice([[], [], [rng.choice(EXTS)]])]
    if op == 5:
        return [5, e, rng.randrange(NROOTS)]
    return [op, e]


# ------------------------------------------------------------------------------------------------ implementation side
def impl():
    from bfg9000.platforms.posix import PosixPath
    from bfg9000.platforms.windows import WindowsPath
    from bfg9000.platforms.basepath import Root, InstallRoot, DestDir, BasePath
    from bfg9000 import path as bpath
    roots = [Root.srcdir, Root.builddir, Root.absolute, InstallRoot.prefix, InstallRoot.exec_prefix,
             InstallRoot.bindir, InstallRoot.libdir, InstallRoot.includedir, InstallRoot.datadir, InstallRoot.mandir]
    return PosixPath, WindowsPath, roots, DestDir, BasePath, bpath


def un_opt(x):
    return None if x == [] else x[0]


def py_eval(cls, roots, e):
    op = e[0]
    if op == 0:
        ra = e[2]
        r = roots[ra[1]] if ra[0] == 0 else py_eval(cls, roots, ra[1])
        return cls(e[1], r, un_opt(e[3]), un_opt(e[4]))
    p = py_eval(cls, roots, e[1])
    if op == 1:
        return p.parent()
    if op == 2:
        return p.append(e[2])
    if op == 3:
        return p.addext(e[2])
    if op == 4:
        return p.stripext(un_opt(e[2]))
    if op == 5:
        return p.reroot(roots[e[2]])
    if op == 6:
        return type(p).from_json(p.to_json())
    if op == 7:
        return p.as_directory()
    raise ValueError('bad op')


def canon_path(p, roots):
    return [roots.index(p.root), p.suffix, bool(p.directory), bool(p.destdir)]


def try_eval(cls, roots, e):
    try:
        return py_eval(cls, roots, e)
    except (ValueError, KeyError):
        return None


def d_path(x):
    return [x[0], d_str(x[1]), d_bool(x[2]), d_bool(x[3])]


def dec(name, r):
    if name == 'path.eval':
        return d_opt(d_path, r)
    if name == 'path.normalize':
        return d_opt(lambda x: [d_str(x[0]), d_str(x[1]), d_bool(x[2])], r)
    if name == 'path.info':
        return d_opt(lambda x: [d_str(x[0]), d_str(x[1]), d_list(d_str, x[2]),
                                [d_str(x[3][0]), d_str(x[3][1]), d_bool(x[3][2])], d_str(x[4]),
                                d_opt(lambda y: [d_path(y[0]), d_str(y[1])], x[5])], r)
    if name in ('path.relpath', 'path.string', 'path.symlink_target'):
        return d_opt(lambda x: d_opt(d_str, x), r)
    if name == 'path.realize':
        return d_opt(d_str, r)
    if name == 'path.commonprefix':
        if r == []:
            return 'unbuilt'
        return ['raise', 'none', 'path'][r[0]] if r[0] < 2 else d_path(r[1])
    if name == 'path.uniquetrees':
        return d_opt(lambda x: d_list(d_path, x), r)
    if name == 'path.eq':
        return d_opt(d_bool, r)
    if name == 'path.ensure':
        return 'unbuilt' if r == [] else d_opt(d_path, r[0])
    raise KeyError(name)


def nontrivial_string(s):
    return bool(re.search(r'(^|[/\\])(\.|\.\.|)([/\\]|$)', s)) or '\\' in s or ':' in s[:2] or s[-1:] in ('/', '\\')


def expr_strings(e):
    out = []
    if e[0] == 0:
        out.append(e[1])
        if e[2][0] == 1:
            out += expr_strings(e[2][1])
    else:
        out += expr_strings(e[1])
        if e[0] == 2:
            out.append(e[2])
    return out


CORPUS_STRINGS = ['', '.', '..', '/', '\\', '//', '///', '////', 'a', 'a/', 'a/.', 'a/..', 'a/../..', '../a', 'a/../../b',
                  './a:b', 'a:b', 'C:', 'C:/', 'C:\\', 'C:/foo', 'C:/foo/bar', 'C:/..', 'C:/../..', 'C://foo', 'C:a:/x',
                  'C:.:/', '//s/h', '//s/h/', '//s/h/foo', '//s/h//foo', '///foo/bar', '//?/UNC/s/h/x', '//?/unc/s',
                  '//./dev/x', 'foo.', '.foo', 'a.b/', 'x/.hid', 'a\\b', 'a\\..\\..', '..\\a', 'a/b/../../..',
                  'a//b', 'a/./b', './', '../', 'a b/c d', '...', 'a/...', '.../..', '/..', '/../a', '//a/b/../../..']


def load_corpus():
    out = []
    d = os.path.join(common.VERIF, 'corpus', 'C12')
    if os.path.isdir(d):
        for fn in sorted(os.listdir(d)):
            if fn.endswith('.json'):
                out += json.load(open(os.path.join(d, fn))).get('exprs', [])
    return out


def corpus_exprs():
    out = []
    for s in CORPUS_STRINGS:
        for r in (0, 2, 5):
            out.append([0, s, [0, r], [], []])
        out.append([0, s, [1, [0, 'base/dir', [0, 0], [], []]], [], []])
        out.append([0, s, [1, [0, 'C:/base', [0, 2], [], []]], [], []])
        out.append([0, s, [1, [0, '//s/h/base', [0, 2], [], []]], [], []])
        out.append([0, s, [0, 0], [], [False]])
        out.append([2, [0, 'p/q', [0, 1], [], []], s])
        out.append([2, [0, '/p', [0, 2], [True], []], s])
        out.append([2, [0, 'C:/', [0, 2], [], []], s])
        for op in (1, 6, 7):
            out.append([op, [0, s, [0, 0], [], []]])
            out.append([op, [0, s, [0, 2], [], []]])
        out.append([4, [0, s, [0, 0], [], []], []])
        out.append([3, [0, s, [0, 0], [], []], '.x'])
    return out + load_corpus()


def sweep_exprs():
    """Exhaustive: <= 4 components over a 7-component alphabet x 3 prefixes x 2 separators x trailing."""
    alpha = ['', '.', '..', 'a', 'bc', 'f.x', 'a b']
    out = []
    for n in range(0, 5):
        for comps in itertools.product(alpha, repeat=n):
            for pre in ('', '/', 'C:/'):
                for sep in ('/', '\\'):
                    for trail in ('', sep):
                        if n == 0 and trail:
                            continue
                        s = pre + sep.join(comps) + trail
                        out.append(s)
    return sorted(set(out))


# ------------------------------------------------------------------------------------------------ W correspondence
def stage_w_eval(rep, rng, n, extra=()):
    P, W, roots, DestDir, BasePath, bpath = impl()
    exprs = corpus_exprs() + list(extra) + [gen_expr(rng, rep, 3) for _ in range(n)]
    calls, res = [], []
    flavour_dis = 0
    for e in exprs:
        strs = expr_strings(e)
        if any(s.startswith('~') for s in strs):
            continue
        rep.case('e:' + json.dumps(e), any(nontrivial_string(s) for s in strs))
        pp, pw = try_eval(P, roots, e), try_eval(W, roots, e)
        cp = canon_path(pp, roots) if pp is not None else None
        cw = canon_path(pw, roots) if pw is not None else None
        if cp != cw:
            flavour_dis += 1
        rep.count('result:' + ('ValueError' if cp is None else 'ok'))
        calls.append(('path.eval', e)); res.append(cp)
        if pp is not None:
            try:
                sl = pp.splitleaf()
                sl = [canon_path(sl[0], roots), sl[1]]
            except ValueError:
                sl = None
            calls.append(('path.info', e))
            res.append([pp.basename(), pp.ext(), pp.split(), list(pp.to_json()), pp.suffix, sl])
    for s in CORPUS_STRINGS + [gen_string(rng, rep) for _ in range(n // 2)]:
        if s.startswith('~'):
            continue
        try:
            r = list(BasePath._BasePath__normalize(s))
        except ValueError:
            r = None
        calls.append(('path.normalize', s)); res.append(r)
    for c in calls[:2]:
        rep.sample({'stage': 'W:eval', 'call': c[0], 'arg': c[1]})
    dis = common.compare_model(rep, 'W:eval', calls, res, dec)
    rep.stage('W:eval', posix_vs_windows_class_disagreements=flavour_dis)
    return dis


def gen_same_root_pair(rng, rep):
    r = rng.choice([0, 0, 1, 1, 3, 5, 2])
    a = [0, gen_string(rng, rep, relonly=(r != 2)), [0, r], [], []]
    r2 = r if rng.random() < 0.9 else rng.randrange(NROOTS)
    b = [0, gen_string(rng, rep, relonly=(r2 != 2)), [0, r2], [], []]
    return a, b


VAR_STRINGS = ['$(srcdir)', '/abs/dir', 'C:\\dir', '.', '', 'a/b', '${x}/y']


def stage_w_rel(rep, rng, n):
    """relpath, realize, string, eq on both flavours."""
    P, W, roots, DestDir, BasePath, bpath = impl()
    import types
    from bfg9000.tools.copy_file import Symlink as SymlinkTool
    calls, res = [], []
    for _ in range(n):
        a, b = gen_same_root_pair(rng, rep)
        for fl, cls in ((0, P), (1, W)):
            pa, pb = try_eval(cls, roots, a), try_eval(cls, roots, b)
            if pa is None or pb is None:
                continue
            prefix = rng.choice(['', '', '$ORIGIN', 'pre/', '/x'])
            loc = rng.random() < 0.8
            try:
                r = pa.relpath(pb, prefix, loc)
            except ValueError:
                r = None
            rep.case('rel:%d:%s' % (fl, json.dumps([a, b, prefix, loc])), True)
            calls.append(('path.relpath', [fl, a, b, prefix, loc])); res.append(r)
            # the link target of a symbolic-link copy of a to b (tools/copy_file.py Symlink.transform_input on the real
            # class; a Path result is the ValueError branch)
            t = SymlinkTool.transform_input(None, types.SimpleNamespace(path=pa), types.SimpleNamespace(path=pb))
            calls.append(('path.symlink_target', [fl, a, b])); res.append(None if isinstance(t, BasePath) else t)
            calls.append(('path.eq', [a, b])); res.append(pa == pb)
            if (pa == pb) and hash(pa) != hash(pb):
                rep.fail('equal paths with different hashes: %r %r' % (a, b), {'exprs': [a, b], 'law': 'eq_hash'})
    # the corner every argument combination of realize meets: the root directory itself (empty suffix, written in several
    # ways) and a one-component path, under every root, with and without the destdir flag, with and without a DESTDIR
    # variable, with and without a value for the root variable - enumerated, then random paths
    corner = [([0, s0, [0, r], dd, dr], dv, vset, ex0)
              for s0 in ('', '.', 'a/..', 'x', 'x/y') for r in range(NROOTS) for dd in ([], [True], [False])
              for dr in ([], [True]) for dv in ([], ['$(DESTDIR)']) for vset in (True, False) for ex0 in (False, True)]
    rng.shuffle(corner)
    corner = corner[:max(200, n // 2)]
    for k in range(len(corner) + n):
        if k < len(corner):
            e, dvar, vset, ex = corner[k]
            vs = [['$(v%d)' % i] if vset else [] for i in range(NROOTS)]
            vsep, loc = rng.random() < 0.8, rng.random() < 0.8
        else:
            e = gen_mk(rng, rep, 1)
            vs = [rng.choice([[], [rng.choice(VAR_STRINGS)], [rng.choice(VAR_STRINGS)]]) for _ in range(NROOTS)]
            dvar = rng.choice([[], ['$(DESTDIR)'], ['/dest']])
            ex, vsep, loc = rng.random() < 0.4, rng.random() < 0.8, rng.random() < 0.8
        if any(s.startswith('~') for s in expr_strings(e)):
            continue
        for fl, cls in ((0, P), (1, W)):
            p = try_eval(cls, roots, e)
            if p is None:
                continue
            variables = {roots[i]: un_opt(v) for i, v in enumerate(vs)}
            if dvar:
                variables[DestDir.destdir] = dvar[0]
            r = p.realize(variables, ex, vsep, loc)
            rep.case('rz:%d:%s' % (fl, json.dumps([e, vs, dvar, ex, vsep, loc])), True)
            calls.append(('path.realize', [fl, e, vs, dvar, ex, vsep, loc])); res.append(r)
        # string() with path-valued variables (env.base_dirs / install_dirs shape)
        base = {0: [2, [0, rng.choice(['/src', 'C:/src', '/']), [0, 2], [], []]],
                1: rng.choice([[0], [1, '.'], [2, [0, '/bld', [0, 2], [], []]]]),
                2: [0],
                3: rng.choice([[2, [0, '/usr/local', [0, 2], [], []]], [1, '/pfx'], [0]]),
                4: [2, [0, '', [0, 3], [], []]],
                5: [2, [0, 'bin', [0, 4], [], []]],
                6: [2, [0, 'lib/', [0, 4], [], []]],
                7: [2, [0, 'include', [0, 3], [], []]],
                8: [2, [0, 'share', [0, 3], [], []]],
                9: [2, [0, 'man', [0, 8], [], []]]}
        vv = [base[i] for i in range(NROOTS)]
        for fl, cls in ((0, P), (1, W)):
            p = try_eval(cls, roots, e)
            if p is None or p.destdir:
                continue
            variables = {}
            for i, v in enumerate(vv):
                variables[roots[i]] = None if v[0] == 0 else v[1] if v[0] == 1 else py_eval(cls, roots, v[1])
            r = p.string(variables)
            calls.append(('path.string', [fl, e, vv])); res.append(r)
    for c in calls[:2]:
        rep.sample({'stage': 'W:rel', 'call': c[0], 'arg': c[1]})
    return common.compare_model(rep, 'W:rel', calls, res, dec)


def gen_path_list(rng, rep):
    k = rng.choice([0, 1, 2, 2, 3, 3, 4, 6])
    mixed = rng.random() < 0.25
    r = rng.choice([0, 1, 2, 3, 5])
    pool = ['a', 'b', 'ab', 'foo', 'foo.c', 'a b', 'c:d']
    out = []
    for _ in range(k):
        rr = rng.randrange(NROOTS) if mixed else r
        comps = [rng.choice(pool) for _ in range(rng.choice([0, 1, 1, 2, 2, 3]))]
        s = ('/' if rr == 2 else '') + '/'.join(comps)
        if rng.random() < 0.2:
            s = './' + s if rr != 2 else s
        if comps and rng.random() < 0.2:
            s += '/'
        dd = [True] if (rr >= 2 and rng.random() < 0.15) else []
        out.append([0, s, [0, rr], dd, []])
    if rng.random() < 0.35:
        # near-prefix family: a path, something below it, and a sibling whose name extends the path's last component
        # by a character that sorts before '/' - component-wise and string-wise orderings of the three differ
        base = [rng.choice(pool[:5]) for _ in range(rng.choice([1, 1, 2]))]
        ch = rng.choice(['.c', '-x', ' b', '+', '!', '.', '#1'])
        fam = [base, base + [rng.choice(pool[:4])], base[:-1] + [base[-1] + ch]]
        if rng.random() < 0.5:
            fam.append(base[:-1] + [base[-1] + ch, rng.choice(pool[:3])])
        rng.shuffle(fam)
        pre = '/' if r == 2 else ''
        out = out[:rng.choice([0, 0, 1])] + [[0, pre + '/'.join(c), [0, r], [], []] for c in fam]
        if rep is not None:
            rep.count('sets:near-prefix-family')
    return out


def stage_w_sets(rep, rng, n):
    P, W, roots, DestDir, BasePath, bpath = impl()
    calls, res = [], []
    for _ in range(n):
        es = gen_path_list(rng, rep)
        ps = [try_eval(P, roots, e) for e in es]
        if any(p is None for p in ps):
            continue
        rep.case('set:' + json.dumps(es), len(es) >= 2)
        try:
            r = bpath.commonprefix(ps)
            r = 'none' if r is None else canon_path(r, roots)
        except (ValueError, IndexError):
            r = 'raise'
        calls.append(('path.commonprefix', es)); res.append(r)
        calls.append(('path.uniquetrees', es)); res.append([canon_path(p, roots) for p in bpath.uniquetrees(ps)])
    for c in calls[:2]:
        rep.sample({'stage': 'W:sets', 'call': c[0], 'arg': c[1]})
    return common.compare_model(rep, 'W:sets', calls, res, dec)


# ------------------------------------------------------------------------------------------------ direct laws (step 4)
import ntpath  # noqa: E402


def swap(s):
    return s.translate({ord('/'): '\\', ord('\\'): '/'})


def walk_escapes(depth, s):
    """Independent oracle: does the walk over the raw components step above the root?"""
    for c in re.split(r'[/\\]', s):
        if c in ('', '.'):
            continue
        if c == '..':
            if depth == 0:
                return True
            depth -= 1
        else:
            depth += 1
    return False


def rel_comps_of(p):
    return [c for c in p.suffix.split('/') if c]


def is_ancestor(a, b):
    ca, cb = rel_comps_of(a), rel_comps_of(b)
    return a.root == b.root and cb[:len(ca)] == ca


DRIVE_ERR = 'relative paths with drives not supported'


def _sig_drive_err(p, detail, got):
    return detail == 'raised ValueError: ' + DRIVE_ERR


def _sig_reparsed(p, detail, got):
    # the text of the suffix is read again as a drive-prefixed ABSOLUTE path
    return _sig_drive_err(p, detail, got) or (got is not None and got.root.name == 'absolute' and
                                              got.suffix in (p.suffix, p.suffix + '/'))


def _sig_abs_suffix(p, detail, got):
    # the accepted relative path has the shape drive + absolute rest (./C:/x is kept as C:/x under its relative root)
    return detail.startswith('relative root with absolute suffix')


def _sig_dslash_kept(p, detail, got):
    return 'keeps a double slash after the drive' in detail


def _sig_dslash_single(p, detail, got):
    drive, rest = ntpath.splitdrive(p.suffix)
    return got is not None and got.root == p.root and got.suffix == drive + '/' + rest.lstrip('/')


# A finding explains only the laws it is about, and only the failure it describes (findings.d/C12.json): class -> {law:
# signature(path, detail text, the value the law got or None)}. Any other failure on a path of the same shape is a
# violation of its own.
LAW_CLASSES = {
    # parent() raises: dirname() yields the bare drive
    'parent-is-bare-drive': {'parent_append': _sig_drive_err, 'splitleaf': _sig_drive_err},
    # parent().append(basename()) raises: the basename is read as a drive-relative path
    'basename-drive-like': {'parent_append': _sig_drive_err},
    # every operation that rebuilds the path from its suffix raises (or reads the suffix as an absolute path)
    'relative-suffix-drive-like': {'idempotent': _sig_reparsed, 'json_rt': _sig_reparsed, 'stripext_addext': _sig_reparsed,
                                   'parent_append': _sig_reparsed, 'normalised': _sig_abs_suffix},
    # the doubled separator survives; parent().append(basename()) gives the single-slash spelling
    'double-slash-after-drive': {'normalised': _sig_dslash_kept, 'parent_append': _sig_dslash_single},
}


def law_classes(p, law, detail, got=None, extra=()):
    """classes of a path-law failure: the classes given for this very call site (extra) and the path's classes that are
    about this law and whose signature the failure has"""
    return tuple(c for c in classes_of(p) if law in LAW_CLASSES.get(c, {}) and LAW_CLASSES[c][law](p, detail, got)) + tuple(extra)


def classes_of(p=None, paths=(), extra=()):
    """Finding classes of a failing input (predicates on the input, see findings.d/C12.json)."""
    out = list(extra)
    ps = list(paths) + ([p] if p is not None else [])
    for q in ps:
        drive, rest = ntpath.splitdrive(q.suffix)
        if q.root.name != 'absolute' and re.match(r'^[^/]:', q.suffix):
            out.append('relative-suffix-drive-like')
        if q.suffix:
            dd, dr = ntpath.splitdrive(posixpath.dirname(q.suffix))
            if dd and dr == '':
                out.append('parent-is-bare-drive')
        if drive and rest in ('', '/'):
            out.append('parent-is-bare-drive')
        if re.match(r'^[^/]:', posixpath.basename(q.suffix)):
            out.append('basename-drive-like')
        if rest.startswith('//'):
            out.append('double-slash-after-drive')
    return tuple(out)


def same(a, b, with_dir=False):
    return a == b and hash(a) == hash(b) and (not with_dir or bool(a.directory) == bool(b.directory))


ORACLE_FORMS = [('rel', '', 50), ('dotslash', './', 6), ('dotdotslash', '../', 5), ('abs', '/', 14), ('absbs', '\\', 4),
                ('drive', 'C:/', 8), ('drivebs', 'c:\\', 4), ('unc', '//srv/share/', 4), ('driverel', 'C:', 2)]


def gen_oracle_string(rng, rep):
    name, pre, _w = wchoice(rng, ORACLE_FORMS)
    rep.count('oform:' + name)
    s = pre + gen_relstring(rng, rep)
    return 'x' + s if s.startswith('~') else s


def check_path_laws(rep, cls, roots, s, ri, dd, dr, p, stats):
    """All single-path laws on an accepted path p = cls(s, roots[ri], dd, dr). Returns number of failures."""
    bad = 0
    root = roots[ri]
    info = {'cls': cls.__name__, 's': s, 'root': ri, 'destdir': dd, 'directory': dr}

    def fail(law, detail, extra=(), got=None):
        nonlocal bad
        bad += 1
        stats['fail:' + law] = stats.get('fail:' + law, 0) + 1
        # a finding explains only the laws it is about: parent() of a path directly below a drive (and re-appending a
        # drive-like basename) concern the parent/append laws, not e.g. the JSON round trip of the same path
        cl = law_classes(p, law, detail, got, extra)
        rep.fail('%s law broken by %s(%r, %s): %s' % (law, cls.__name__, s, root.name, detail),
                 dict(info, law=law, detail=detail), classes=cl)

    def attempt(law, f, extra=()):
        try:
            return f()
        except (ValueError, KeyError) as e:
            fail(law, 'raised %s: %s' % (type(e).__name__, e), extra)
            return None

    # L1 normalised + idempotent
    drive, rest = ntpath.splitdrive(p.suffix)
    comps = rest.lstrip('/').split('/') if rest.lstrip('/') else []
    if '\\' in p.suffix or any(c in ('', '.', '..') for c in comps):
        fail('normalised', 'suffix %r has a special component' % p.suffix)
    if rest.startswith('//'):
        fail('normalised', 'suffix %r keeps a double slash after the drive' % p.suffix)
    if p.root.name == 'absolute' and not rest.startswith('/'):
        fail('normalised', 'absolute path with non-absolute suffix %r' % p.suffix, ('absolute-suffix-not-absolute',))
    if p.root.name != 'absolute' and rest.startswith('/'):
        fail('normalised', 'relative root with absolute suffix %r' % p.suffix)
    q = attempt('idempotent', lambda: cls(p.suffix, p.root, p.destdir, p.directory))
    if q is not None and not same(q, p, True):
        fail('idempotent', 'rebuilt as %r' % (q.suffix,), got=q)
    # L3 separator symmetry
    try:
        q = cls(swap(s), root, dd, dr)
    except ValueError:
        q = None
    if q is None or not same(q, p, True):
        fail('sep_agnostic', 'swapped separators give %r' % (q and q.suffix,))
    # L2/L8 realising against a base directory is ordinary path joining; the result stays inside
    if p.root.name != 'absolute' and not drive:
        base = '/R/x y/z'
        real = p.string({p.root: base})
        if cls.__name__ == 'WindowsPath':
            real = real.replace('\\', '/')
        want = posixpath.normpath(posixpath.join(base, s.replace('\\', '/')))
        if real != want:
            fail('realize_join', 'string() = %r but normpath(join(base, s)) = %r' % (real, want))
        if not (real == base or real.startswith(base + '/')):
            fail('confined', 'realised %r is outside %r' % (real, base))
        if p.realize({p.root: '$(v)'}, localize=False) != ('$(v)/' + p.suffix if p.suffix else '$(v)'):
            fail('realize_join', 'realize() = %r' % (p.realize({p.root: '$(v)'}, localize=False),))
        # ... and with a DESTDIR variable defined: a path carrying the destdir flag is realised below DESTDIR + root (also
        # when it is the root directory itself), a path without the flag ignores DESTDIR
        from bfg9000.platforms.basepath import DestDir as _DD
        got_dd = p.realize({p.root: '$(v)', _DD.destdir: '$(DESTDIR)'}, localize=False)
        want_dd = ('$(DESTDIR)' if p.destdir else '') + ('$(v)/' + p.suffix if p.suffix else '$(v)')
        if got_dd != want_dd:
            fail('realize_join', 'realize() with a DESTDIR variable = %r, ordinary joining gives %r (destdir flag %r)' % (
                got_dd, want_dd, bool(p.destdir)))
        # the hypothesis of C12_realize_join (base value not ending in a separator) probed on the real code: a base
        # directory that is the file-system root (string- or path-valued); bounded number of probes per run
        if stats.get('probe:base-fs-root', 0) < 60:
            stats['probe:base-fs-root'] = stats.get('probe:base-fs-root', 0) + 1
            for bval in ('/', cls('/', roots[2])):
                real0 = p.string({p.root: bval})
                if cls.__name__ == 'WindowsPath':
                    real0 = real0.replace('\\', '/')
                want0 = posixpath.join('/', p.suffix) if p.suffix else '/'
                if real0 != want0:
                    fail('realize_join', 'string() against the base directory / gives %r, ordinary joining %r' % (real0, want0),
                         ('realize-base-ends-with-separator',) if real0 == '/' + want0 else ())
        # executable form: ./ exactly for a bare name when the root has no value
        exe = p.realize({p.root: None}, executable=True, localize=False)
        want_exe = p.suffix if '/' in p.suffix else ('./' + p.suffix if p.suffix else '.')
        if not p.destdir and exe != want_exe:
            fail('realize_join', 'realize(executable=True) = %r, expected %r' % (exe, want_exe))
    # L4 parent / append / basename, L10 splitleaf
    if p.suffix:
        par = attempt('parent_append', p.parent)
        if par is not None:
            q = attempt('parent_append', lambda: par.append(p.basename()))
            if q is not None and not same(q, p):
                fail('parent_append', 'parent().append(basename()) = %r' % (q.suffix,), got=q)
            if not par.directory:
                fail('parent_append', 'parent is not a directory')
            sl = p.splitleaf()
            if not (same(sl[0], par, True) and sl[1] == p.basename()):
                fail('splitleaf', 'splitleaf differs from (parent, basename)')
    # L6 json
    q = attempt('json_rt', lambda: cls.from_json(p.to_json()))
    if q is not None and not same(q, p, True):
        fail('json_rt', 'from_json(to_json()) = %r dir=%r' % (q.suffix, q.directory), got=q)
    # L9 stripext / addext
    st = attempt('stripext_addext', p.stripext)
    if st is not None:
        q = attempt('stripext_addext', lambda: st.addext(p.ext()))
        if q is not None and not same(q, p, True):
            fail('stripext_addext', 'stripext().addext(ext()) = %r' % (q.suffix,), got=q)
        if p.ext() and '/' in p.ext():
            fail('stripext_addext', 'ext %r contains a separator' % p.ext())
    return bad


def stage_oracle_paths(rep, rng, n, strings=()):
    P, W, roots, DestDir, BasePath, bpath = impl()
    stats = {}
    bad = 0
    cases = [(s, r, None, None) for s in CORPUS_STRINGS for r in (0, 2, 5)
             if not s.startswith('//') or s.startswith('//s/h/')]
    cases += [(s, r, None, None) for s in strings for r in (0, 2)]
    for _ in range(n):
        r = rng.choice([0, 0, 1, 1, 2, 2, 3, 4, 5, 6, 7, 8, 9])
        dd = rng.choice([None, None, None, True, False])
        dr = rng.choice([None, None, True, False])
        cases.append((gen_oracle_string(rng, rep), r, dd, dr))
    for s, ri, dd, dr in cases:
        if s.startswith('~'):
            continue
        if re.match(r'^[/\\]{2}', s) and not re.match(r'^[/\\]{2}(srv[/\\]share|s[/\\]h)[/\\]', s):
            stats['skipped-malformed-unc'] = stats.get('skipped-malformed-unc', 0) + 1
            continue        # malformed UNC prefixes are exercised by the W-correspondence only
        reldrive = re.match(r'^[^/\\]:([^/\\]|$)', s) is not None
        drive = re.match(r'^[^/\\]:', s) is not None
        isabs = s[:1] in ('/', '\\') or (drive and not reldrive)
        isdir = re.split(r'[/\\]', s)[-1] in ('', '.', '..')
        expect_reject = (reldrive or (dd and ri < 3 and ri != 2) or (dr is False and isdir) or
                         (not isabs and ri == 2) or (not isabs and walk_escapes(0, s)))
        for cls in (P, W):
            rep.case('o:%s:%r:%d:%r:%r' % (cls.__name__[0], s, ri, dd, dr), nontrivial_string(s))
            try:
                p = cls(s, roots[ri], dd, dr)
            except ValueError:
                p = None
            key = 'accepted' if p is not None else 'rejected'
            stats[key] = stats.get(key, 0) + 1
            if (p is None) != bool(expect_reject):
                bad += 1
                rep.fail('confinement/acceptance: %s(%r, %s, destdir=%r, directory=%r) %s but the walk oracle says %s' % (
                    cls.__name__, s, roots[ri].name, dd, dr, 'rejected' if p is None else 'accepted',
                    'reject' if expect_reject else 'accept'),
                    {'cls': cls.__name__, 's': s, 'root': ri, 'destdir': dd, 'directory': dr, 'law': 'confined'},
                    # relative-suffix-drive-like: a drive-relative spelling is ACCEPTED (as a relative path with a drive-like
                    # first component); nothing else about acceptance is a recorded finding
                    classes=('relative-suffix-drive-like',) if (
                        p is not None and reldrive and 'relative-suffix-drive-like' in classes_of(p) and
                        not ((dd and ri < 3 and ri != 2) or (dr is False and isdir) or walk_escapes(0, s))) else ())
            if p is not None:
                bad += check_path_laws(rep, cls, roots, s, ri, dd, dr, p, stats)
    rep.stage('oracle:path-laws', cases=len(cases) * 2, failures=bad, **stats)
    return bad


PAIR_CORPUS = [('C:/', '..', 2), ('C:/a', '../..', 2), ('C:/a', '..', 2), ('//srv/share/', '..', 2), ('//srv/share/a', '../..', 2),
               ('/', '..', 2), ('/a', '../../b', 2), ('a/b', '..', 0), ('a/b', '../..', 0), ('a/b', '../../..', 0),
               ('a/b', '..\\..\\..', 1), ('', '..', 0), ('', '.', 0), ('', '', 0), ('a', './c:d', 0), ('a', 'c:d', 0),
               ('a/b', '../b/../../a/b/c', 3), ('a/b', 'c/../../../a/./b/', 5), ('x', '/abs', 0), ('x', 'C:/abs', 0),
               # near-prefix families: the second name extends the first by characters, not by a component
               ('tools', 'tools-support/libhelper.so', 1), ('a', 'a..b', 1), ('a/b', 'a/bc/d', 1), ('foo', 'foo.txt', 0),
               ('lib', 'lib64/x', 1), ('data', 'data2/two.txt', 1), ('x.y', 'x.y.z/w', 3), ('d e', 'd e2', 5), ('a', 'ab', 0)]


def stage_oracle_pairs(rep, rng, n):
    """Nested roots, append confinement and relpath/append on pairs."""
    P, W, roots, DestDir, BasePath, bpath = impl()
    bad = 0
    todo = list(PAIR_CORPUS)
    for _ in range(n):
        ri = rng.choice([0, 0, 1, 1, 3, 5, 2])
        form = [f for f in ORACLE_FORMS if (f[0] in ('abs', 'drive', 'unc') if ri == 2 else f[0] in ('rel', 'dotslash'))]
        name, pre, _w = wchoice(rng, form)
        todo.append((pre + gen_relstring(rng, rep), gen_oracle_string(rng, rep), ri))
    for bs, s, ri in todo:
        if bs.startswith('~') or s.startswith('~'):
            continue
        for cls in (P, W):
            try:
                base = cls(bs, roots[ri])
            except ValueError:
                continue
            rep.case('op:%s:%r:%r:%d' % (cls.__name__[0], bs, s, ri), True)
            info = {'cls': cls.__name__, 'base': bs, 's': s, 'root': ri, 'law': 'pairs'}
            reldrive = re.match(r'^[^/\\]:([^/\\]|$)', s) is not None
            isabs = s[:1] in ('/', '\\') or (re.match(r'^[^/\\]:', s) is not None and not reldrive)
            bdrive, brest = ntpath.splitdrive(base.suffix)
            joined = posixpath.normpath(posixpath.join(base.suffix, s.replace('\\', '/')))
            jcls = ('relative-suffix-drive-like',) if (base.root.name != 'absolute' and re.match(r'^[^/]:', joined)) else ()
            # components below the root: a drive prefix is not one of them - but only an ABSOLUTE path has a drive (the first
            # component 'a:' of a relative base is an ordinary directory name for the walk)
            depth = len([c for c in (brest if base.root.name == 'absolute' else base.suffix).split('/') if c])
            results, errors = {}, {}
            for how, f in (('ctor', lambda: cls(s, base)), ('append', lambda: base.append(s))):
                try:
                    results[how] = f()
                except ValueError as e:
                    results[how] = None
                    errors[how] = str(e)
            # relative-suffix-drive-like in this stage: the base (or the joined text) is a relative path with a drive-like
            # first component; rebuilding it raises the drive error or reads the joined text as an absolute path
            rsdl = bool(jcls) or 'relative-suffix-drive-like' in classes_of(base)

            def rsdl_classes(q, how):
                if not rsdl:
                    return ()
                if q is None:
                    return ('relative-suffix-drive-like',) if errors.get(how) == DRIVE_ERR else ()
                return ('relative-suffix-drive-like',) if (q.root.name == 'absolute' and q.suffix == joined) else ()
            for how, q in results.items():
                if isabs or reldrive:
                    continue
                if base.root.name == 'absolute':
                    # absolute base: dotdot at the top stays at the top; the result must stay absolute
                    if q is not None and not ntpath.splitdrive(q.suffix)[1].startswith('/'):
                        bad += 1
                        rep.fail('nested root (%s): %s %r + %r gives the non-absolute suffix %r under the absolute root' % (
                            how, cls.__name__, bs, s, q.suffix), dict(info, how=how),
                            # the finding: the drive is treated as ordinary components, so walking up to the drive root or
                            # above it gives exactly the joined text, normalised as a plain POSIX path (the bare drive, a part
                            # of it, nothing, or what follows after the walk came down again)
                            classes=('dotdot-above-drive',) if (bdrive and q.suffix == ('' if joined == '.' else joined)) else ())
                    continue
                esc = walk_escapes(depth, s)
                if (q is None) != esc:
                    bad += 1
                    rep.fail('nested root (%s): %s base %r + %r %s but the walk oracle says %s' % (
                        how, cls.__name__, bs, s, 'rejected' if q is None else 'accepted', 'reject' if esc else 'accept'),
                        dict(info, how=how), classes=rsdl_classes(q, how))
                if q is not None:
                    want = posixpath.normpath(posixpath.join('/R', base.suffix, s.replace('\\', '/')))
                    got = q.string({q.root: '/R'}).replace('\\', '/')
                    if got != want:
                        bad += 1
                        rep.fail('nested root (%s): %r + %r realises to %r, ordinary joining gives %r' % (how, bs, s, got, want),
                                 dict(info, how=how), classes=rsdl_classes(q, how))
            a, b = results['ctor'], results['append']
            if a is not None and b is not None and not isabs and not same(a, b):
                bad += 1
                rep.fail('Path(s, base) %r differs from base.append(s) %r' % (a.suffix, b.suffix), info,
                         classes=tuple(sorted(set(rsdl_classes(a, 'ctor') + rsdl_classes(b, 'append')))))
            # relpath / append round trip between two paths under one non-absolute root
            if base.root.name != 'absolute':
                try:
                    other = cls(s, roots[ri])
                except ValueError:
                    other = None
                if other is not None and other.root == base.root:
                    for x, y in ((base, other), (other, base)):
                        back = errtext = None
                        try:
                            rel = x.relpath(y)
                            back = y.append(rel)
                            ok = same(back, x)
                            det = 'relpath=%r, append gives %r' % (rel, back.suffix)
                        except ValueError as e:
                            ok, det, errtext = False, 'raised ValueError: %s' % e, str(e)
                        if not ok:
                            bad += 1
                            # the two findings about this law: the relative path from y to x starts with a drive-like
                            # component (append reads it as a drive: the drive error, or an absolute path with that text);
                            # x or y is itself a relative path with a drive-like first component (the drive error)
                            relxy = posixpath.relpath('/' + x.suffix, '/' + y.suffix)
                            rcls = []
                            if re.match(r'^[^/]:', relxy) and (errtext == DRIVE_ERR or (
                                    back is not None and back.root.name == 'absolute' and back.suffix == relxy)):
                                rcls.append('relpath-drive-like')
                            if 'relative-suffix-drive-like' in classes_of(paths=(x, y)) and (errtext == DRIVE_ERR or (
                                    back is not None and back.root.name == 'absolute' and back.suffix == x.suffix)):
                                rcls.append('relative-suffix-drive-like')      # ... or x's own text read as an absolute path
                            rep.fail('relpath/append: %s x=%r y=%r under %s: %s' % (
                                cls.__name__, x.suffix, y.suffix, roots[ri].name, det), info,
                                classes=tuple(rcls))
                        pre = x.relpath(y, prefix='$ORIGIN', localize=False)
                        if not (pre == '$ORIGIN' or pre.startswith('$ORIGIN/')):
                            bad += 1
                            rep.fail('relpath with prefix gives %r' % pre, info)
    rep.stage('oracle:pairs', failures=bad)
    return bad


def stage_oracle_sets(rep, rng, n):
    P, W, roots, DestDir, BasePath, bpath = impl()
    bad = 0
    for _ in range(n):
        es = gen_path_list(rng, rep)
        for cls in (P, W):
            try:
                ps = [py_eval(cls, roots, e) for e in es]
            except ValueError:
                continue
            rep.case('os:%s:%s' % (cls.__name__[0], json.dumps(es)), len(ps) >= 2)
            info = {'cls': cls.__name__, 'exprs': es, 'law': 'sets'}
            sameroot = bool(ps) and all(p.root == ps[0].root for p in ps)
            extra = []
            if sameroot and ps[0].root.name == 'absolute':
                first = set((rel_comps_of(p) or [None])[0] for p in ps)
                if len(first) > 1 or None in first:
                    extra.append('commonprefix-absolute-root-only')
            if sameroot and all(not rel_comps_of(p) for p in ps):
                extra.append('commonprefix-all-root-dir')      # all are the root directory itself ('' or, absolute, '/')
            try:
                cp = bpath.commonprefix(ps)
                err = None
            except (ValueError, IndexError) as e:
                cp, err = None, e
            if err is not None or (cp is None) != (not sameroot):
                bad += 1
                # the three findings about commonprefix describe a ValueError with a particular message each
                msg = str(err) if isinstance(err, ValueError) else None
                ccls = []
                if 'commonprefix-absolute-root-only' in extra and (
                        msg == "'' is not absolute" or (msg == DRIVE_ERR and any(ntpath.splitdrive(p.suffix)[0] for p in ps))):
                    ccls.append('commonprefix-absolute-root-only')
                if 'commonprefix-all-root-dir' in extra and msg == 'expected a non-directory path':
                    ccls.append('commonprefix-all-root-dir')
                if msg == DRIVE_ERR and 'relative-suffix-drive-like' in classes_of(paths=ps):
                    ccls.append('relative-suffix-drive-like')
                rep.fail('commonprefix(%r) %s' % ([p.suffix for p in ps], 'raised %r' % err if err else 'returned None'),
                         info, classes=tuple(ccls))
            elif cp is not None:
                comps = [rel_comps_of(p) for p in ps]
                k = 0
                while all(len(c) > k for c in comps) and all(c[k] == comps[0][k] for c in comps):
                    k += 1
                if not all(is_ancestor(cp, p) for p in ps) or len(rel_comps_of(cp)) != k:
                    bad += 1
                    rep.fail('commonprefix(%r) = %r is not the longest common ancestor' % ([p.suffix for p in ps], cp.suffix),
                             info, classes=())         # no recorded finding is about a wrong value of commonprefix
            ut = bpath.uniquetrees(ps)
            uextra = []
            vals = {}
            for p in ps:
                vals.setdefault(p.root.value, set()).add(type(p.root).__name__)
            if any(len(v) > 1 for v in vals.values()):
                uextra.append('uniquetrees-root-value-collision')
            if any(p.suffix == '/' for p in ps) and len(ps) > 1:
                uextra.append('uniquetrees-filesystem-root')
            ok = (all(any(u is p for p in ps) for u in ut) and
                  all(any(is_ancestor(u, p) for u in ut) for p in ps) and
                  all(not is_ancestor(u, v) for u in ut for v in ut if u is not v))
            if not ok:
                bad += 1
                # what exactly is wrong, and which of the two findings explains each part: an input path that no result
                # covers is explained by a path under a root of ANOTHER type with the same numeric value that would cover it
                # (root-value collision); a result below another result is explained when that other result is the
                # file-system root '/'. Anything left unexplained makes the whole failure a violation.
                ucls, explained = set(), all(any(u is p for p in ps) for u in ut)
                for p in ps:
                    if not any(is_ancestor(u, p) for u in ut):
                        pc = rel_comps_of(p)
                        if 'uniquetrees-root-value-collision' in uextra and any(
                                q.root.value == p.root.value and type(q.root) is not type(p.root) and
                                rel_comps_of(q) == pc[:len(rel_comps_of(q))] for q in ps):
                            ucls.add('uniquetrees-root-value-collision')
                        else:
                            explained = False
                for u in ut:
                    for v in ut:
                        if u is not v and is_ancestor(u, v):
                            if 'uniquetrees-filesystem-root' in uextra and u.root.name == 'absolute' and u.suffix == '/':
                                ucls.add('uniquetrees-filesystem-root')
                            else:
                                explained = False
                rep.fail('uniquetrees(%r) = %r is not a minimal covering subset' % (
                    [(p.root.name, p.suffix) for p in ps], [(p.root.name, p.suffix) for p in ut]),
                    info, classes=tuple(sorted(ucls)) if explained else ())
    rep.stage('oracle:sets', failures=bad)
    return bad

# ------------------------------------------------------------------------- string() against nested path-valued variables
NEST_SUFFIXES = ['', '', 'share', 'lib', 'bin', 'lib/x86_64-linux-gnu', 'share/man', 'my dir', 'a.b', 'x', 'libexec/pkg-1.0']
NEST_BASES = ['/usr/local', '/opt/demo', 'C:/Program Files/demo', '$(prefix)', '/R/x y', 'rel/base', '.']


def nested_reference(roots, table, ri, suffix, win, depth=0):
    """string() of a path (suffix, roots[ri]) under the variable table {root index: None | str | (suffix, root index)},
    by recursion on the TABLE: the string of the root's value, a separator, the suffix (nothing added for an empty suffix;
    a root without a value contributes nothing). Written without reference to realize()/string() of the implementation."""
    if depth > 12:
        raise RuntimeError('cyclic table')
    loc = (lambda t: t.replace('/', '\\')) if win else (lambda t: t)
    if roots[ri].name == 'absolute':
        return loc(suffix or '.')
    v = table.get(ri)
    if v is None:
        return loc(suffix or '.')
    base = loc(v) if isinstance(v, str) else nested_reference(roots, table, v[1], v[0], win, depth + 1)
    return base + loc('/' + suffix) if suffix else base


def gen_nested_table(rng, rep):
    """A variable table in which directories are relative to directories relative to ... a base: the roots (all but
    `absolute`) in a random order, each one valued by a path below an EARLIER root of that order (so chains are 1-5 levels
    deep), by a path below the absolute root, by a plain string, or by nothing; every level with an empty or a non-empty
    suffix. One table in four has the shape of env.install_dirs / env.base_dirs of a real configuration."""
    idx = [i for i in range(NROOTS) if i != 2]
    if rng.random() < 0.25:
        rep.count('nest:install-dirs-shape')
        pfx = rng.choice([('/usr/local', 2), ('/opt/demo', 2), ('C:/pfx', 2), '/pfx', None])
        return {0: ('/src/proj', 2), 1: rng.choice([None, '.', ('/bld', 2)]), 3: pfx, 4: ('', 3),
                5: (rng.choice(['bin', 'tools/bin']), 4), 6: (rng.choice(['lib', 'lib/x86_64-linux-gnu']), 4),
                7: ('include', 3), 8: (rng.choice(['share', 'share/data']), 3), 9: (rng.choice(['man', 'doc/man']), 8)}
    rng.shuffle(idx)
    table = {}
    chain = rng.random() < 0.6        # a single long chain, otherwise a random forest
    for k, i in enumerate(idx):
        u = rng.random()
        if k == 0 or (not chain and u < 0.2):
            table[i] = rng.choice([None, rng.choice(NEST_BASES), rng.choice(NEST_BASES),
                                   (rng.choice(['/usr/local', '/opt/demo', 'C:/pfx', '/a/b c']), 2)])
        else:
            parent = idx[k - 1] if (chain and k < 5) else rng.choice(idx[:k])
            table[i] = (rng.choice(NEST_SUFFIXES), parent)
    return table


def nest_depth(roots, table, ri):
    d, nonempty = 0, 0
    while ri != 2 and isinstance(table.get(ri), tuple):
        sfx, ri = table[ri]
        d += 1
        nonempty += bool(sfx)
    return d, nonempty


def stage_oracle_nested(rep, rng, n, tables=()):
    """L2 for nested roots: p.string(variables) with PATH-valued variables (a directory relative to a directory relative to
    ... the prefix - the shape of env.install_dirs, which compile_commands.json, path_exists() and shell.execute realise
    through string()) equals the reference computed by recursion on the variable table, on both flavours, for a path in
    every root, with empty and non-empty suffixes at every level."""
    P, W, roots, DestDir, BasePath, bpath = impl()
    bad = 0
    stats = {}
    for t in range(n):
        table = tables[t] if t < len(tables) else gen_nested_table(rng, rep)
        for win, cls in ((False, P), (True, W)):
            variables = {}
            for i in range(NROOTS):
                v = table.get(i)
                variables[roots[i]] = cls(v[0], roots[v[1]], directory=True) if isinstance(v, tuple) else v
            for ri in range(NROOTS):
                if ri == 2:
                    s = rng.choice(['/abs/x', '/', 'C:/x'])
                else:
                    s = rng.choice(['', 'demo', 'demo', 'sub/file.txt', 'a b', gen_relstring(rng, rep, 3)])
                try:
                    p = cls(s, roots[ri], rng.choice([None, None, True]) if ri >= 3 else None)
                except ValueError:
                    continue
                ri = roots.index(p.root)        # an absolute string makes an absolute path whatever root was given
                if re.match(r'^[^/]:', p.suffix) and ri != 2:
                    continue
                depth, nonempty = nest_depth(roots, table, ri)
                key = 'depth%d' % min(depth, 5)
                stats[key] = stats.get(key, 0) + 1
                if nonempty + bool(p.suffix) >= 2:
                    stats['two-or-more-nonempty-suffixes'] = stats.get('two-or-more-nonempty-suffixes', 0) + 1
                rep.case('nest:%s:%r:%d:%s' % (cls.__name__[0], p.suffix, ri, json.dumps(sorted(table.items()))), depth >= 2)
                want = nested_reference(roots, table, ri, p.suffix, win)
                try:
                    got = p.string(variables)
                except Exception as e:
                    got = '%s: %s' % (type(e).__name__, e)
                if got != want:
                    bad += 1
                    rep.fail('string_nested law broken: %s(%r, %s).string(variables) = %r, but joining the string of the '
                             'root\'s value and the suffix level by level gives %r (variables: %s)' % (
                                 cls.__name__, s, roots[ri].name, got, want,
                                 {roots[k].name: v for k, v in sorted(table.items())}),
                             {'law': 'string_nested', 'cls': cls.__name__, 's': s, 'root': ri, 'destdir': bool(p.destdir),
                              'table': [[k, list(v) if isinstance(v, tuple) else v] for k, v in sorted(table.items())],
                              'got': got, 'want': want})
    rep.stage('oracle:string-nested-variables', tables=n, failures=bad, **stats)
    return bad


# ------------------------------------------------------------------------------------------------ string entry points
WS = [' ', '\t', '\n', '  ', ' \t', '\r\n', '\x0b', '\u00a0', '\u2003']


def gen_entry_string(rng, rep):
    """A path string as a build script would write it; a third get white space put at the beginning, the end, both ends,
    or directly before/after a separator."""
    s = gen_oracle_string(rng, rep)
    x = rng.random()
    if x < 0.35:
        how = rng.choice(['lead', 'trail', 'both', 'before-sep', 'after-sep', 'only'])
        rep.count('entry-ws:' + how)
        w = rng.choice(WS)
        if how == 'lead':
            s = w + s
        elif how == 'trail':
            s = s + w
        elif how == 'both':
            s = w + s + rng.choice(WS)
        elif how == 'only':
            s = w
        elif '/' in s or '\\' in s:
            i = rng.choice([k for k, ch in enumerate(s) if ch in '/\\'])
            s = s[:i] + w + s[i:] if how == 'before-sep' else s[:i + 1] + w + s[i + 1:]
        else:
            s = s + w
    return 'x' + s if s.startswith('~') else s


ENTRY_CORPUS = ['data ', ' data', 'dir/name ', ' dir/name', 'a b', 'dir /x', 'x/ y', 'foo.txt\t', '\tfoo.txt', 'sub\\leaf ',
                ' ', ' /', '/ ', ' /abs', '/abs ', 'x\n', '\nx', ' .', '. ', ' ..', '.. ', ' ./x', 'x/. ', ' C:/x', 'C:/x ',
                '', '.', 'a/', 'a/ ', ' a/', '  ', '\t', 'x\u00a0', '\u00a0x', 'a\r\n']


def _ctor(cls, *a, **kw):
    try:
        return cls(*a, **kw), None
    except ValueError as e:
        return None, 'ValueError'


def stage_w_ensure(rep, rng, n):
    """Path.ensure (objutils.objectify + the constructor) against the model ensure: strings and path objects, plain roots and
    base paths, the strict form."""
    P, W, roots, DestDir, BasePath, bpath = impl()
    calls, res = [], []
    todo = [([0, s], [0, r], [], [], False) for s in ENTRY_CORPUS for r in (0, 1, 2)]
    todo += [([0, s], [1, [0, 'sub/dir', [0, 0], [], []]], [], [], st) for s in ENTRY_CORPUS for st in (False, True)]
    for _ in range(n):
        if rng.random() < 0.75:
            th = [0, gen_entry_string(rng, rep)]
        else:
            th = [1, gen_expr(rng, rep, 1)]
        if rng.random() < 0.25:
            ra = [1, gen_mk(rng, rep, 0)]
        else:
            ra = [0, rng.choice([0, 0, 0, 1, 1, 1, 2, 2, 3, 4, 5, 6, 7, 8, 9])]
        todo.append((th, ra, gen_optbool(rng, 0.7), gen_optbool(rng, 0.6), rng.random() < 0.3))
    for th, ra, dd, dr, strict in todo:
        strs = [th[1]] if th[0] == 0 else expr_strings(th[1])
        if ra[0] == 1:
            strs += expr_strings(ra[1])
        if any(x.startswith('~') for x in strs):
            continue
        for cls in (P, ):
            thing = th[1] if th[0] == 0 else try_eval(cls, roots, th[1])
            root = roots[ra[1]] if ra[0] == 0 else try_eval(cls, roots, ra[1])
            if thing is None or root is None:
                r = 'unbuilt'
            else:
                try:
                    r = canon_path(cls.ensure(thing, root, un_opt(dd), un_opt(dr), strict=strict), roots)
                except ValueError:
                    r = None
            rep.case('ens:' + json.dumps([th, ra, dd, dr, strict]), th[0] == 0 and th[1] != th[1].strip())
            calls.append(('path.ensure', [th, ra, dd, dr, strict])); res.append(r)
    for c in calls[:2]:
        rep.sample({'stage': 'W:ensure', 'call': c[0], 'arg': c[1]})
    return common.compare_model(rep, 'W:ensure', calls, res, dec)


class EntryCtx:
    """A real BuildContext (real Environment on a scratch directory) positioned in the script <base>/build.bfg."""

    def __init__(self, scratch):
        from bfg9000.environment import Environment
        from bfg9000 import builtins as B
        from bfg9000.builtins import builtin
        from bfg9000.build_inputs import BuildInputs
        from bfg9000.path import Path, Root, InstallRoot, abspath
        B.init()
        self.builtin, self.BuildInputs, self.Path, self.Root = builtin, BuildInputs, Path, Root
        src, bld = os.path.join(scratch, 'src'), os.path.join(scratch, 'build')
        os.makedirs(src, exist_ok=True)
        os.makedirs(bld, exist_ok=True)
        self.env = Environment(abspath(os.path.join(scratch, 'bfgdir')), 'make', None, abspath(src), abspath(bld))
        self.env.finalize({InstallRoot.prefix: abspath('/usr/local')}, (False, False), False)

    def context(self, base):
        build = self.BuildInputs(self.env, self.Path('/'.join(list(base) + ['build.bfg']), self.Root.srcdir))
        c = self.builtin.BuildContext(self.env, build, None)
        c.path_stack.append(self.builtin.BuildContext.PathEntry(build.bfgpath))
        return c


def stage_oracle_entry(rep, rng, n, ectx):
    """The string-accepting entry points denote the location the constructor denotes: Path.ensure / objutils.objectify on
    both flavours, and the build-script builtins relpath, buildpath, generic_file, source_file, header_file, auto_file,
    directory, header_directory in a real BuildContext (top-level script and a submodule script). Laws, for every string
    s (a third with white space at an end or next to a separator): ensure(s, root, ...) and Path(s, root, ...) are both
    rejected or equal (root, suffix, directory and destdir flags, hash, realised text); ensure(p) is p;
    ensure(basename(p), parent(p)) == p; builtin(s).path == Path(s, directory of the running script)."""
    from bfg9000.objutils import objectify
    P, W, roots, DestDir, BasePath, bpath = impl()
    bad = 0
    stats = {}
    variables = {r: '/V%d' % i for i, r in enumerate(roots)}
    cases = [(s, r, None, None) for s in ENTRY_CORPUS for r in (0, 1, 2, 3)]
    for _ in range(n):
        cases.append((gen_entry_string(rng, rep), rng.choice([0, 0, 1, 1, 2, 3, 5, 7]),
                      rng.choice([None, None, None, True, False]), rng.choice([None, None, True, False])))

    def fail(law, info, detail, classes=()):
        nonlocal bad
        bad += 1
        stats['fail:' + law] = stats.get('fail:' + law, 0) + 1
        rep.fail('%s law broken for the string %r (%s): %s' % (law, info['s'], info.get('cls', info.get('builtin')), detail),
                 dict(info, law=law, detail=detail), classes=classes)

    def agree(law, info, got, gerr, want, werr):
        """both rejected, or both accepted and the same path in every observable respect"""
        if (got is None) != (want is None):
            # the one recorded finding that reaches an entry point: a builtin that rebuilds the accepted relative path from
            # its drive-like suffix (directory()/header_directory() -> parent/as_directory) raises the drive error
            cl = ('relative-suffix-drive-like',) if (
                law == 'builtin_string' and got is None and want is not None and str(gerr) == 'ValueError: ' + DRIVE_ERR and
                'relative-suffix-drive-like' in classes_of(want)) else ()
            fail(law, info, 'the entry point %s but the constructor %s' % (
                'raised ' + str(gerr) if got is None else 'returned %r' % (got,),
                'raised ' + str(werr) if want is None else 'returns %r' % (want,)), cl)
            return False
        if got is None:
            return True
        if not (same(got, want, True) and got.root == want.root and got.suffix == want.suffix and
                bool(got.destdir) == bool(want.destdir) and type(got) is type(want)):
            fail(law, info, 'the entry point gives %r (directory=%r destdir=%r), the constructor %r (directory=%r destdir=%r)' % (
                got, got.directory, got.destdir, want, want.directory, want.destdir))
            return False
        if got.root in variables and not got.destdir:
            a, b = got.realize(variables, localize=False), want.realize(variables, localize=False)
            if a != b:
                fail(law, info, 'realised as %r, the constructed path as %r' % (a, b))
                return False
        return True

    def malformed_unc(s):       # as in stage_oracle_paths: exercised by the W-correspondence only
        t = s.lstrip(' \t\n\r\x0b\u00a0\u2003')
        return any(re.match(r'^[/\\]{2}', x) and not re.match(r'^[/\\]{2}(srv[/\\]share|s[/\\]h)[/\\]', x) for x in (s, t))
    for s, ri, dd, dr in cases:
        if s.startswith('~') or bad > 200 or malformed_unc(s):
            continue
        for cls in (P, W):
            info = {'kind': 'entry', 'cls': cls.__name__, 's': s, 'root': ri, 'destdir': dd, 'directory': dr}
            rep.case('en:%s:%r:%d:%r:%r' % (cls.__name__[0], s, ri, dd, dr), s != s.strip())
            want, werr = _ctor(cls, s, roots[ri], bool(dd), dr)
            stats['accepted' if want is not None else 'rejected'] = stats.get('accepted' if want is not None else 'rejected', 0) + 1
            got, gerr = _ctor(cls.ensure, s, roots[ri], bool(dd), dr)
            agree('ensure_string', info, got, gerr, want, werr)
            got, gerr = _ctor(objectify, s, cls, cls, root=roots[ri], destdir=bool(dd), directory=dr)
            agree('objectify_string', info, got, gerr, want, werr)
            if want is None:
                continue
            # a path object is handed back as it is, whatever the other arguments say
            for kw in ({}, {'root': roots[(ri + 1) % NROOTS]}, {'directory': True}):
                q = cls.ensure(want, **kw)
                if q is not want:
                    fail('ensure_path', info, 'ensure(p%s) returned %r, not the object p = %r' % (
                        ''.join(', %s=...' % k for k in kw), q, want))
            if objectify(want, cls, cls, root=roots[ri]) is not want:
                fail('ensure_path', info, 'objectify(p, Path) did not return p')
            # below a base path (what relpath() does in a submodule), plain and strict
            for bs in ('sub', 'sub dir/x '):
                base = cls(('/' if ri == 2 else '') + bs, roots[ri], directory=True)
                w2, w2e = _ctor(cls, s, base)
                g2, g2e = _ctor(cls.ensure, s, base)
                agree('ensure_string_base', dict(info, base=bs), g2, g2e, w2, w2e)
                g3, g3e = _ctor(cls.ensure, s, base, strict=True)
                if w2 is not None and w2.root == base.root:
                    agree('ensure_string_strict', dict(info, base=bs), g3, g3e, w2, w2e)
                elif g3 is not None:
                    fail('ensure_string_strict', dict(info, base=bs), 'strict ensure accepted %r whose root differs from %s' % (
                        g3, base.root.name))
            # rebuilding a path from its parent and its leaf name through the entry point
            if want.suffix and not classes_of(want):
                try:
                    par, leaf = want.parent(), want.basename()
                    q = cls.ensure(leaf, par, None)          # destdir=None: inherited from the parent
                    if not same(q, cls(leaf, par)) or not same(q, want):
                        fail('ensure_parent_basename', info, 'ensure(basename(), parent()) = %r, the path is %r' % (q, want))
                except ValueError as e:
                    fail('ensure_parent_basename', info, 'raised ValueError: %s' % e)

    # the build-script builtins, in a real context: top-level script and a submodule script
    Path, Root = ectx.Path, ectx.Root
    nb = 0
    bcases = [s for s in ENTRY_CORPUS] + [gen_entry_string(rng, rep) for _ in range(max(40, n // 6))]
    for s in bcases:
        if s.startswith('~') or '\0' in s or bad > 400 or malformed_unc(s):
            continue
        for base in ([], ['sub'], ['sub dir', 'in ']):
            c = ectx.context(base)
            sdir = Path('/'.join(base) + '/' if base else '', Root.srcdir)
            bdir = Path('/'.join(base) + '/' if base else '', Root.builddir)
            wsrc, wsrc_e = _ctor(Path, s, sdir)
            wbld, wbld_e = _ctor(Path, s, bdir)
            from bfg9000.builtins import path as bp
            table = [('relpath', lambda: c['relpath'](s), wsrc, wsrc_e),
                     ('buildpath', lambda: bp.buildpath(c, s), wbld, wbld_e)]
            isdir = wsrc is not None and wsrc.directory
            if wsrc is not None and not isdir:
                table += [(nm, (lambda nm=nm: c[nm](s).path), wsrc, wsrc_e)
                          for nm in ('generic_file', 'source_file', 'header_file', 'auto_file')]
            if wsrc is not None:
                table += [(nm, (lambda nm=nm: c[nm](s).path), wsrc, None)
                          for nm in ('directory', 'header_directory')]
            for nm, f, want, werr in table:
                nb += 1
                info = {'kind': 'entry-builtin', 'builtin': nm, 's': s, 'script_dir': base}
                rep.case('eb:%s:%r:%s' % (nm, s, '/'.join(base)), s != s.strip())
                try:
                    got, gerr = f(), None
                except ValueError as e:
                    got, gerr = None, 'ValueError: %s' % e
                if nm in ('directory', 'header_directory') and got is not None and want is not None:
                    # the file object of a directory carries the path as given; only the location is compared
                    if not (got.root == want.root and got.suffix == want.suffix):
                        # recorded finding: the accepted relative path with a drive-like first component is rebuilt from its
                        # suffix and read as an ABSOLUTE path with that very text
                        fail('builtin_string', info, '%s(%r).path = %r, but Path(s, script directory) = %r' % (nm, s, got, want),
                             ('relative-suffix-drive-like',) if ('relative-suffix-drive-like' in classes_of(want) and
                                                                 _sig_reparsed(want, '', got)) else ())
                    continue
                agree('builtin_string', info, got, gerr, want, werr)
            if wsrc is not None and not wsrc.directory:
                # relname: the name of an output is the suffix of relpath(); a file object built from the string is the
                # same file as one built from the path
                try:
                    nm = bp.relname(c, s)
                except ValueError as e:
                    nm = 'ValueError: %s' % e
                if nm != wsrc.suffix:
                    fail('builtin_string', {'kind': 'entry-builtin', 'builtin': 'relname', 's': s, 'script_dir': base},
                         'relname(%r) = %r, expected %r' % (s, nm, wsrc.suffix))
    rep.stage('oracle:string entry points', cases=len(cases) * 2, builtin_calls=nb, failures=bad, **stats)
    return bad


def run(rep):
    rng = random.Random(rep.seed)
    thorough = rep.tier == 'thorough'
    rep.proof_stage(coqchk=thorough)
    n = 6000 if thorough else 1200
    dis = []
    dis += stage_w_eval(rep, rng, n)
    dis += stage_w_rel(rep, rng, n // 3)
    dis += stage_w_sets(rep, rng, n // 3)
    dis += stage_w_ensure(rep, rng, n // 2)
    mult = 10 if dis else 1
    found = stage_oracle_paths(rep, rng, n * mult, sweep_exprs() if thorough else ())
    found += stage_oracle_pairs(rep, rng, n // 2 * mult)
    found += stage_oracle_sets(rep, rng, n // 3 * mult)
    scratch = common.scratch('c12e')
    try:
        found += stage_oracle_entry(rep, rng, n // 2 * mult, EntryCtx(scratch))
    finally:
        shutil.rmtree(scratch, ignore_errors=True)
    found += stage_oracle_nested(rep, rng, n // 4 * mult)
    if dis and not rep.n_with_input:
        i, call, iv, mv = dis[0]
        rep.fail('W:%s - model and implementation disagree (%d cases), e.g. %r: impl %r, model %r' % (
            call[0], len(dis), call[1], iv, mv),
            {'obligation': 'W:' + call[0], 'call': call, 'impl': iv, 'model': mv, 'n_disagreements': len(dis),
             'more': [[c, a, b] for _, c, a, b in dis[1:10]]},
            found_input=False)


def replay(rep, path):
    r = json.load(open(path))
    print(json.dumps(r, indent=1)[:2000])
    run(rep)
