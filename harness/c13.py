"""C13 - Build files are a deterministic function of project and configuration."""
import ast
import json
import os
import random
import shutil
import sys
from concurrent.futures import ThreadPoolExecutor
from . import common, project

LEVEL = 'proof'
RULE = ('system: generated projects (random names; executables, shared/static libraries with shared object files, find_files over '
        'nested directories, install, pkg_config, packages, options, tests, commands, aliases, build steps) configured by the real '
        'bfg9000 in contexts (hash seed x invocation directory x build-dir spelling x configure form x unrelated environment x '
        'environment order x pre-existing build dir x regeneration in place: bfg9000 regenerate / regenerate --lazy after only '
        'the modification times of the searched directories or of build.bfg moved); a case = one (project, context, backend) configure compared file by file '
        'with the baseline of the same absolute directories; non-trivial = context differs from the baseline in at least one '
        'dimension; W: lists over a small alphabet with many duplicates (uniques), (cwd, spelling) pairs with . and .. '
        'components (abspath), membership/emit scripts (Makefile bookkeeping)')
TRUSTED = ('the AST scan of harness/c13.py (syntactic set-type inference: literals, set()/frozenset(), set operators, attributes '
           'and locals assigned a set, parameters receiving a set, build_input(...)(set)); sets that flow through containers or '
           'foreign attributes are not tracked - the differential runs under 4/32 hash seeds are the second line',
           'the mopack stub used so that package() resolves through the real pkg-config (mopack itself is not installable here)')
EXPLANATION = ('partial: the theorems state independence from the modelled sources of nondeterminism (set order, invocation '
               'directory, builddir spelling); that the list of sources is complete is checked, not proved (scan + differential runs)')

HERE = os.path.dirname(os.path.abspath(__file__))
SITES_FILE = os.path.join(common.VERIF, 'corpus', 'C13', 'nondeterminism_sites.json')


# ============================================================================= generated projects
def gen_project(rng, variant=0):
    """A project that uses many builtins; returns {relpath: content}.  The *names* are drawn from rng so that the
    hash values of the strings/paths (and therefore set iteration orders under a given seed) vary between projects."""
    def nm(prefix):
        return prefix + ''.join(rng.choice('abcdefghkmnpqrstuvwxyz') for _ in range(rng.randint(2, 5)))

    files = {}
    hdrs = ['include/p13/api.h', 'include/p13/sub/inner.h', 'include/p13/sub/deeper/%s.h' % nm('h')]
    for h in hdrs:
        files[h] = '/* %s */\n' % h
    # several directories, nested, for find_files (watched directories -> .bfg_find_deps)
    adirs = ['src/a', 'src/a/deep', 'src/a/deep/er', 'src/a/%s' % nm('d'), 'src/a/%s/%s' % (nm('d'), nm('e'))]
    a_src = []
    for d in adirs:
        for _ in range(rng.randint(1, 3)):
            a_src.append('%s/%s.c' % (d, nm('a')))
        files['%s/%s.h' % (d, nm('x'))] = '/* extra */\n'
    bdirs = ['src/b', 'src/c', 'src/c/x', 'src/c/x/y', 'src/c/%s' % nm('z')]
    b_src = []
    for d in bdirs:
        for _ in range(rng.randint(1, 3)):
            b_src.append('%s/%s.c' % (d, nm('b')))
    files['src/b/skipme.c'] = 'int skipped;\n'
    files['src/c/x/skip_too.c'] = 'int skipped2;\n'
    commons = ['common/%s.c' % nm('u') for _ in range(4)]
    commons = sorted(set(commons))
    for i, f in enumerate(sorted(set(a_src + b_src + commons))):
        files[f] = 'int f_%d(void) { return %d; }\n' % (i, i)
    for m in ('main1.c', 'main2.c', 'main3.c', 't1.c', 't2.c'):
        files[m] = 'int main(void) { return 0; }\n'
    datas = sorted(set('data/%s.%s' % (nm('d'), rng.choice(['txt', 'dat', 'cfg'])) for _ in range(rng.randint(5, 9))))
    for d in datas:
        files[d] = 'data\n'
    files['data/nested/%s.txt' % nm('n')] = 'nested\n'
    files['doc/p13.1'] = '.TH p13 1\n'
    files['tests/driver.py'] = 'print(1)\n'
    files['script.py'] = 'print(2)\n'
    files['options.bfg'] = (
        "argument('name', default='unnamed', help='name')\n"
        "argument('feature', action='enable', default=True, help='feature')\n")
    envs = {nm('K').upper(): nm('v') for _ in range(4)}
    defs = [nm('D').upper() for _ in range(5)]
    cm = ', '.join(repr(c) for c in commons)
    bfg = [
        "project('p13', version='1.2.3')",
        "global_options([opts.define('NAME', argv.name)] + [opts.define(d) for d in %r] + [opts.warning('all')], lang='c')" % defs,
        "inc = header_directory('include', include='**/*.h')",
        "zlib = package('zlib')",
        "z3 = package('z3')",
        "a_src = find_files('src/a/**/*.c', extra='*.h')",
        "bc_src = find_files(['src/b/*.c', 'src/c/**/*.c'], exclude=['skip*'])",
        "common = object_files([%s], includes=[inc], options=[opts.define('COMMON', '1')])" % cm,
        "liba = library('a', files=a_src, includes=[inc], version='1.2.3', soversion='1')",
        "libb = shared_library('b', files=bc_src + [common[0]], libs=[liba], packages=[zlib])",
        "libs = static_library('s', files=[%s], includes=[inc])" % ', '.join(repr(c) for c in commons[1:]),
        "e1 = executable('e1', files=['main1.c', common[1]], libs=[liba, libb], packages=[zlib, z3])",
        "e2 = executable('bin/e2', files=['main2.c'] + common, libs=[libs, liba])",
        "e3 = executable('e3', files=['main3.c'], libs=[libb, liba, libs], link_options=['-Wl,--as-needed'])",
        "data = find_files('data/**', type='f')",
        "hdrs = find_files('include/**/*.h')",
        "install(e1, e2, e3, liba, libb, inc)",
        "install(*data, directory=Path('p13', InstallRoot.datadir))",
        "install(man_page('doc/p13.1'))",
        "pkg_config('p13', version='1.2.3', includes=[inc], libs=[liba, libb], requires=['zlib >= 1.0'], "
        "conflicts=[('oldp13', '>=1,<2,!=1.5,!=1.6'), ('otherp13', '!=3,!=4,!=5,>0.5'), "
        "('tiep13', '>=2.0,!=2.0'), ('tie2p13', '<=1.0,!=1.0,>=0.5,!=0.5'), "
        "('spellp13', '>=1.0,>=1.00,>=1.000,<=3,<=3.0'), ('eqp13', '==2.0,==2.00,==2')], "          # EQUAL versions, also respelled
        "requires_private=[('reqp13', '>=4.0,>=4.00,>=4')])",
        "pkg_config('p13-static', version='1.2.3', includes=[inc], libs=[libs], auto_fill=False)",
        "t1 = executable('t1', files=['t1.c'], libs=[liba])",
        "t2 = executable('t2', files=['t2.c'], libs=[libb])",
        "test(t1, environment=%r)" % envs,
        "test(t2)",
        "drv = test_driver(source_file('tests/driver.py'), environment=%r)" % envs,
        "for d in data:",
        "    test(d, driver=drv)",
        "hello = command('hello', cmd=['echo', 'hello'], environment=%r)" % envs,
        "world = command('world', cmds=['echo world', [source_file('script.py'), e1]])",
        "gen = build_step(['gen1.c', 'gen1.h'], cmd=['python3', source_file('script.py'), e2])",
        "eg = executable('eg', files=[gen[0], 'main1.c'])",
        # one step whose outputs lie in several (nested) directories, and consumers of them
        "multi = build_step(['gen/%s/tbl.c', 'include/gen/tbl.h', 'doc/gen/tbl.txt', 'gen/tbl2.c', 'share/%s/t.dat'], "
        "cmd=['python3', source_file('script.py'), 'multi'])" % (nm('m'), nm('s')),
        "emulti = executable('bin/deep/emulti', files=[multi[0], multi[3], 'main2.c'], includes=[multi[1]])",
        "alias('hw', deps=[hello, world, eg])",
        "copy_file('%s')" % datas[0],
        "copy_files(data[1:], directory='copied')",
        "default(e1, e2, eg)",
        "extra_dist(files=['script.py'], dirs=['doc'])",
    ]
    if variant == 1:
        bfg.insert(1, "env.variables['C13_SET_BY_SCRIPT'] = 'yes'")
    files['build.bfg'] = '\n'.join(bfg) + '\n'
    return files


def gen_fw_project(rng):
    """The link-graph family: a small project (cheap to configure, so that it is run under many hash seeds) whose link
    steps merge what SEVERAL static libraries forward.  Four to six static libraries with drawn names each forward something
    of their own (a library they depend on, link options, a package, or several of these); static libraries of a second
    level depend on two or three of them; executables, shared libraries and pkg_config() take two to four libraries of
    either level, in a drawn order.  The merged lists end up in the link lines, the dependency lists, the rpaths and
    Libs.private - in the order the script gives, whatever the hash seed."""
    def nm(prefix):
        return prefix + ''.join(rng.choice('abcdefghkmnpqrstuvwxyz') for _ in range(rng.randint(2, 5)))
    files = {'main.c': 'int main(void) { return 0; }\n'}
    L = ["project('p13fw', version='0.4')", "zlib = package('zlib')", "z3 = package('z3')"]
    used = set()

    def fresh(prefix):
        while True:
            n = nm(prefix)
            if n not in used:
                used.add(n)
                return n

    def src():
        f = 'src/%s.c' % fresh('f')
        files[f] = 'int %s(void) { return 1; }\n' % os.path.basename(f)[:-2]
        return f
    shared = []
    for i in range(3):
        L.append("sh%d = shared_library(%r, files=[%r])" % (i, fresh('sh'), src()))
        shared.append('sh%d' % i)
    fw = []
    for i in range(rng.randint(4, 6)):
        kinds = rng.sample(['libs', 'link_options', 'packages'], rng.choice([1, 1, 2, 3]))
        kw = []
        if 'libs' in kinds:
            kw.append('libs=[%s]' % ', '.join(rng.sample(shared, rng.choice([1, 1, 2]))))
        if 'link_options' in kinds:
            kw.append('link_options=[%s]' % ', '.join(repr('-Wl,--defsym,%s=%d' % (fresh('y'), k)) for k in range(rng.choice([1, 2]))))
        if 'packages' in kinds:
            kw.append('packages=[%s]' % rng.choice(['zlib', 'z3', 'zlib, z3']))
        L.append("fw%d = static_library(%r, files=[%r], %s)" % (i, fresh('fw'), src(), ', '.join(kw)))
        fw.append('fw%d' % i)
    up = []
    for i in range(rng.randint(2, 3)):
        deps = rng.sample(fw, rng.randint(2, 3))
        extra = ", link_options=['-Wl,--defsym,%s=7']" % fresh('y') if rng.random() < 0.5 else ''
        L.append("up%d = static_library(%r, files=[%r], libs=[%s]%s)" % (i, fresh('up'), src(), ', '.join(deps), extra))
        up.append('up%d' % i)
    outs = []
    for i in range(rng.randint(3, 4)):
        libs = rng.sample(fw, rng.randint(2, 4))
        if rng.random() < 0.4:
            libs.insert(rng.randint(0, len(libs)), rng.choice(up))
        L.append("ex%d = executable(%r, files=['main.c', %r], libs=[%s])" % (i, fresh('bin/e'), src(), ', '.join(libs)))
        outs.append('ex%d' % i)
    L.append("exu = executable(%r, files=['main.c'], libs=[%s])" % (fresh('eu'), ', '.join(rng.sample(up, 2))))
    for i in range(2):
        libs = rng.sample(fw + up, rng.randint(2, 3))
        L.append("dl%d = shared_library(%r, files=[%r], libs=[%s])" % (i, fresh('dl'), src(), ', '.join(libs)))
        outs.append('dl%d' % i)
    L.append("install(exu, %s)" % ', '.join(outs))
    L.append("pkg_config(%r, version='0.4', libs=[%s])" % (fresh('pc'), ', '.join(rng.sample(fw, rng.randint(2, 4)))))
    L.append("pkg_config(%r, version='0.4', libs=[dl0, %s], auto_fill=False)" % (fresh('pc'), ', '.join(rng.sample(up, 2))))
    files['build.bfg'] = '\n'.join(L) + '\n'
    return files


def make_project(pdesc):
    """project description (as stored in replay files) -> files"""
    if pdesc['variant'] == 'fw':
        return gen_fw_project(random.Random(pdesc['seed']))
    return gen_project(random.Random(pdesc['seed']), pdesc['variant'])


# ============================================================================= AST scan (the tie for completeness)
SET_METHODS = {'union', 'intersection', 'difference', 'symmetric_difference', 'copy'}
UNORDERED_CONSUMERS = {'set', 'frozenset', 'sorted', 'any', 'all', 'len', 'min', 'max', 'sum', 'bool'}
ORDERED_CONSUMERS = {'list', 'tuple', 'iter', 'enumerate', 'next', 'map', 'filter', 'zip', 'reversed', 'chain',
                     'reduce', 'dict', 'listify', 'iterate', 'uniques', 'flatten', 'first', 'tween', 'OrderedDict'}
ORDERED_METHODS = {'join', 'extend', 'from_iterable', 'fromkeys'}
UNORDERED_METHODS = {'update', 'issuperset', 'issubset', 'isdisjoint', 'add', 'discard', 'remove',
                     'difference_update', 'intersection_update'}
ENTROPY_MODULES = {'time', 'random', 'uuid', 'datetime', 'tempfile', 'secrets', 'socket', 'getpass', 'glob'}
ENTROPY_ATTRS = {('os', 'getpid'), ('os', 'getppid'), ('os', 'urandom'), ('os', 'times'), ('os', 'listdir'), ('os', 'walk'),
                 ('os', 'scandir'), ('os', 'getcwd'), ('os', 'environ'), ('os', 'getenv'), ('os', 'getlogin'),
                 ('os', 'uname'), ('sys', 'argv'), ('glob', 'glob'), ('glob', 'iglob')}


def _unparse(n, cap=70):
    s = ast.unparse(n).replace('\n', ' ')
    return s if len(s) <= cap else s[:cap] + '...'


class _Scope(ast.NodeVisitor):
    """Assigns every node its enclosing qualified function/class name."""

    def __init__(self):
        self.stack = []
        self.qual = {}

    def generic_visit(self, node):
        self.qual[id(node)] = '.'.join(self.stack) or '<module>'
        super().generic_visit(node)

    def _named(self, node):
        self.qual[id(node)] = '.'.join(self.stack) or '<module>'
        self.stack.append(node.name)
        for c in ast.iter_child_nodes(node):
            self.visit(c)
        self.stack.pop()

    visit_FunctionDef = visit_AsyncFunctionDef = visit_ClassDef = _named


class SetFacts:
    """What the scan knows to be set-typed (syntactic inference, whole package)."""

    def __init__(self):
        self.attrs = set()          # attribute names assigned a set somewhere (self.X = set())
        self.inputs = set()         # build_input names registered with the `set` constructor
        self.names = {}             # (file, qualname) -> local names assigned a set
        self.funcs = set()          # function names that return a set


def _is_view(x):
    return isinstance(x, ast.Call) and isinstance(x.func, ast.Attribute) and x.func.attr in ('keys', 'items') \
        and not x.args


def is_set(e, facts, file, qual):
    if isinstance(e, (ast.Set, ast.SetComp)):
        return True
    if isinstance(e, ast.Call):
        f = e.func
        if isinstance(f, ast.Name) and f.id in ('set', 'frozenset'):
            return True
        if isinstance(f, ast.Name) and f.id in facts.funcs:
            return True
        if isinstance(f, ast.Attribute):
            if f.attr in SET_METHODS and is_set(f.value, facts, file, qual):
                return True
            if f.attr in facts.funcs:
                return True
        return False
    if isinstance(e, ast.BinOp) and isinstance(e.op, (ast.BitOr, ast.BitAnd, ast.Sub, ast.BitXor)):
        return (is_set(e.left, facts, file, qual) or is_set(e.right, facts, file, qual) or
                _is_view(e.left) or _is_view(e.right))
    if isinstance(e, ast.IfExp):
        return is_set(e.body, facts, file, qual) or is_set(e.orelse, facts, file, qual)
    if isinstance(e, ast.Name):
        q = qual
        while True:
            if e.id in facts.names.get((file, q), ()):
                return True
            if q == '<module>':
                return False
            q = q.rsplit('.', 1)[0] if '.' in q else '<module>'
    if isinstance(e, ast.Attribute):
        return e.attr in facts.attrs
    if isinstance(e, ast.Subscript):
        s = e.slice
        return isinstance(s, ast.Constant) and isinstance(s.value, str) and s.value in facts.inputs
    return False


def _package_files(root):
    out = []
    for d, dirs, files in os.walk(root):
        dirs.sort()
        for fn in sorted(files):
            if fn.endswith('.py'):
                out.append(os.path.join(d, fn))
    return out


def scan_sites(pkgroot=None):
    """Returns ({site: count}, facts).  A site is  file::function::kind::expression  (no line numbers)."""
    pkgroot = pkgroot or os.path.join(common.REPO, 'bfg9000')
    trees = {}
    for p in _package_files(pkgroot):
        rel = os.path.relpath(p, pkgroot)
        trees[rel] = ast.parse(open(p, encoding='utf-8').read(), filename=p)
    scopes = {}
    for rel, t in trees.items():
        s = _Scope()
        s.visit(t)
        scopes[rel] = s.qual
    facts = SetFacts()
    defs = {}
    for rel, t in trees.items():
        for n in ast.walk(t):
            if isinstance(n, (ast.FunctionDef, ast.AsyncFunctionDef)):
                q = scopes[rel].get(id(n), '<module>')
                defs.setdefault(n.name, []).append((rel, (q + '.' + n.name) if q != '<module>' else n.name, n))

    # -- fixpoint of the set-typed facts
    for _ in range(4):
        for rel, t in trees.items():
            qual = scopes[rel]
            for n in ast.walk(t):
                q = qual.get(id(n), '<module>')
                if isinstance(n, (ast.Assign, ast.AnnAssign, ast.AugAssign)):
                    v = n.value
                    if v is None or not is_set(v, facts, rel, q):
                        continue
                    tgts = n.targets if isinstance(n, ast.Assign) else [n.target]
                    for tg in tgts:
                        if isinstance(tg, ast.Name):
                            facts.names.setdefault((rel, q), set()).add(tg.id)
                        elif isinstance(tg, ast.Attribute):
                            facts.attrs.add(tg.attr)
                elif isinstance(n, (ast.FunctionDef, ast.AsyncFunctionDef)):
                    inner = (q + '.' + n.name) if q != '<module>' else n.name
                    a = n.args
                    pos = a.posonlyargs + a.args
                    for arg, d in zip(pos[len(pos) - len(a.defaults):], a.defaults):
                        if is_set(d, facts, rel, q):
                            facts.names.setdefault((rel, inner), set()).add(arg.arg)
                    for arg, d in zip(a.kwonlyargs, a.kw_defaults):
                        if d is not None and is_set(d, facts, rel, q):
                            facts.names.setdefault((rel, inner), set()).add(arg.arg)
                elif isinstance(n, ast.Return) and n.value is not None and is_set(n.value, facts, rel, q):
                    facts.funcs.add(q.rsplit('.', 1)[-1])
                elif isinstance(n, ast.Call):
                    # a set passed to a function of the package (resolved by simple name) makes the parameter a set
                    f = n.func
                    fname = f.id if isinstance(f, ast.Name) else (f.attr if isinstance(f, ast.Attribute) else None)
                    for drel, dq, dn in defs.get(fname, ()):
                        params = dn.args.posonlyargs + dn.args.args
                        if params and params[0].arg in ('self', 'cls'):
                            params = params[1:]
                        for i, a in enumerate(n.args):
                            if i < len(params) and not isinstance(a, ast.Starred) and is_set(a, facts, rel, q):
                                facts.names.setdefault((drel, dq), set()).add(params[i].arg)
                        for kw in n.keywords:
                            if kw.arg and is_set(kw.value, facts, rel, q) and \
                                    kw.arg in [p.arg for p in params + dn.args.kwonlyargs]:
                                facts.names.setdefault((drel, dq), set()).add(kw.arg)
                    # build_input('name')(set)
                    if (isinstance(f, ast.Call) and isinstance(f.func, ast.Name) and f.func.id == 'build_input' and
                            f.args and isinstance(f.args[0], ast.Constant) and n.args and
                            isinstance(n.args[0], ast.Name) and n.args[0].id in ('set', 'frozenset')):
                        facts.inputs.add(f.args[0].value)
    facts.funcs.discard('<module>')

    sites = {}

    def add(rel, q, kind, node):
        k = '%s::%s::%s::%s' % (rel, q, kind, _unparse(node))
        sites[k] = sites.get(k, 0) + 1

    for rel, t in trees.items():
        qual = scopes[rel]
        parents = {}
        for n in ast.walk(t):
            for c in ast.iter_child_nodes(n):
                parents[id(c)] = n
        for n in ast.walk(t):
            q = qual.get(id(n), '<module>')

            def S(e):
                return is_set(e, facts, rel, q)
            if isinstance(n, (ast.For, ast.AsyncFor)) and S(n.iter):
                add(rel, q, 'for', n.iter)
            elif isinstance(n, (ast.ListComp, ast.GeneratorExp, ast.DictComp, ast.SetComp)):
                for g in n.generators:
                    if S(g.iter):
                        kind = 'comp'
                        par = parents.get(id(n))
                        if isinstance(n, ast.SetComp):
                            kind = 'comp-unordered(setcomp)'
                        elif (isinstance(par, ast.Call) and isinstance(par.func, ast.Name) and
                              par.func.id in UNORDERED_CONSUMERS and n in par.args):
                            kind = 'comp-unordered(%s)' % par.func.id
                        elif isinstance(n, ast.DictComp):
                            kind = 'comp-dict'
                        add(rel, q, kind, g.iter)
            elif isinstance(n, ast.Call):
                f = n.func
                fname = f.id if isinstance(f, ast.Name) else (f.attr if isinstance(f, ast.Attribute) else '?')
                args = list(n.args) + [k.value for k in n.keywords]
                for a in args:
                    inner = a.value if isinstance(a, ast.Starred) else a
                    if not S(inner):
                        continue
                    if isinstance(a, ast.Starred):
                        add(rel, q, 'star-arg:' + fname, inner)
                    elif isinstance(f, ast.Name) and fname in UNORDERED_CONSUMERS:
                        add(rel, q, 'unordered:' + fname, inner)
                    elif fname in ORDERED_CONSUMERS or fname in ORDERED_METHODS:
                        add(rel, q, 'ordered:' + fname, inner)
                    elif isinstance(f, ast.Attribute) and S(f.value):
                        add(rel, q, 'setop:' + fname, inner)           # s.update(t), s.issuperset(t), ...
                    elif fname in UNORDERED_METHODS or fname == 'isinstance':
                        add(rel, q, 'unordered:' + fname, inner)
                    else:
                        add(rel, q, 'arg:' + fname, inner)
                if isinstance(f, ast.Attribute) and f.attr == 'pop' and not n.args and S(f.value):
                    add(rel, q, 'set-pop', f.value)
                if isinstance(f, ast.Name) and f.id in ('id', 'hash'):
                    add(rel, q, 'call:' + f.id, n)
            elif isinstance(n, ast.Starred) and S(n.value) and not isinstance(parents.get(id(n)), ast.Call):
                add(rel, q, 'star', n.value)
            elif isinstance(n, (ast.Return, ast.Yield, ast.YieldFrom)) and n.value is not None and S(n.value):
                add(rel, q, type(n).__name__.lower(), n.value)
            elif isinstance(n, ast.AugAssign) and S(n.value) and not S(n.target):
                add(rel, q, 'augassign', n.value)
            elif isinstance(n, ast.Import):
                for al in n.names:
                    if al.name.split('.')[0] in ENTROPY_MODULES:
                        add(rel, q, 'import', n)
            elif isinstance(n, ast.ImportFrom):
                if n.level == 0 and (n.module or '').split('.')[0] in ENTROPY_MODULES:
                    add(rel, q, 'import', n)
            elif isinstance(n, ast.Attribute) and isinstance(n.value, ast.Name) and (n.value.id, n.attr) in ENTROPY_ATTRS:
                add(rel, q, 'use', n)
    return sites, facts


def stage_scan(rep):
    """W:nondeterminism_sites - the scan result must equal the recorded allow-list.  Returns True when it does."""
    sites, facts = scan_sites()
    allow = json.load(open(SITES_FILE))['sites']
    new = sorted(k for k in sites if k not in allow or allow[k]['n'] != sites[k])
    gone = sorted(k for k in allow if k not in sites)
    unclassified = sorted(k for k, v in allow.items() if v['verdict'] == 'UNCLASSIFIED')
    for k, v in allow.items():
        rep.count('site-verdict:' + v['verdict'].split(' ')[0], v['n'])
    rep.stage('W:nondeterminism_sites', scanned_sites=len(sites), allow_listed=len(allow), new=new, vanished=gone,
              set_typed_attributes=sorted(facts.attrs), set_typed_build_inputs=sorted(facts.inputs))
    rep.sample({'stage': 'W:nondeterminism_sites', 'example': sorted(sites)[:3]})
    return not new and not gone and not unclassified, {'new': new, 'vanished': gone}


def stage_languages_functional(rep):
    """The condition under which the hash-dependent insertion order of _LanguageInfo._exts/_auxexts is invisible:
    within one language no extension is listed under two kinds (extkind returns the first match)."""
    from bfg9000 import tools
    from bfg9000.languages import known_langs
    tools.init()
    bad = []
    n = 0
    for name, info in known_langs._langs.items():
        seen = {}
        for table in (info._exts, info._auxexts):
            for kind, exts in table.items():
                for e in exts:
                    n += 1
                    if e in seen and seen[e] != kind:
                        bad.append((name, e, seen[e], kind))
                    seen[e] = kind
    rep.stage('languages-functional', languages=len(known_langs._langs), extensions=n, ambiguous=bad)
    if bad:
        rep.fail('an extension is listed under two kinds of one language: extkind() then depends on the hash seed: %r' % (bad[:3],),
                 {'ambiguous': bad, 'replay_hint': 'PYTHONHASHSEED=1..8 python -c "from bfg9000.languages import known_langs as k; '
                  'print(k[LANG].extkind(EXT))"'}, classes=('language-extension-two-kinds',))
    return not bad


# ============================================================================= system level: differential configures
MOPACK_STUB = ('#!/bin/sh\n# stand-in for `mopack linkage --json NAME`: resolve NAME through the system pkg-config\n'
               'for a; do n=$a; done\n'
               'printf \'{"name": "%s", "type": "system", "pcnames": ["%s"], "pkg_config_path": []}\\n\' "$n" "$n"\n')
PRIMARY_NAMES = ('Makefile', 'build.ninja', 'compile_commands.json')
BASE_CTX = {'seed': '0', 'cwd': 'src', 'spell': 'abs', 'form': 'into', 'env_extra': 0, 'env_shuffle': 0, 'keep': False,
            'regen': ''}
# regen: what happens to the configured build directory before its files are read (same tree, same saved configuration):
#   'full'       bfg9000 regenerate BUILD
#   'lazy-dirs'  the modification time of every searched directory moves forward (nothing else changes), then the
#                backend's own regeneration command  bfg9000 regenerate --lazy BUILD  (what make / ninja run when a directory
#                listed in .bfg_find_deps is newer than the build file)
#   'lazy-script' the same after the modification time of build.bfg moved forward (the script is really re-run)
REGEN_KINDS = ('full', 'lazy-dirs', 'lazy-script')


def is_primary(rel):
    return rel in PRIMARY_NAMES or rel.endswith('.pc')


def make_root(files, order_rng=None):
    root = common.scratch('c13')
    items = list(files.items())
    if order_rng is not None:
        order_rng.shuffle(items)
    os.mkdir(os.path.join(root, 'src'))
    project.write_tree(os.path.join(root, 'src'), dict(items))
    os.makedirs(os.path.join(root, 'else', 'where'))
    os.mkdir(os.path.join(root, 'tools'))
    p = os.path.join(root, 'tools', 'mopack')
    with open(p, 'w') as f:
        f.write(MOPACK_STUB)
    os.chmod(p, 0o755)
    return root


def spell(path, cwd, how):
    if how == 'abs':
        return path
    if how == 'abs-dslash':          # a leading double slash: the same directory on Linux
        return '/' + path
    if how == 'abs-noisy':
        d, b = os.path.split(path)
        return d + '/./nonexistent/..//' + b + '/'
    rel = os.path.relpath(path, cwd)
    if how == 'rel':
        return rel
    if how == 'rel-noisy':
        return './' + os.path.join(os.path.dirname(rel), 'zz', '..', os.path.basename(rel)) + '/.'
    if how == 'rel-slash':
        return rel + '/'
    raise ValueError(how)


def run_context(root, ctx, backend, timeout=180):
    """One real configure.  Returns (rc, output tail, {relpath: bytes} of the build dir)."""
    src, build = os.path.join(root, 'src'), os.path.join(root, 'build')
    cwd = {'src': src, 'root': root, 'else': os.path.join(root, 'else', 'where'), 'build': build}[ctx['cwd']]
    if not ctx.get('keep'):
        shutil.rmtree(build, ignore_errors=True)
    if ctx['cwd'] == 'build' or ctx['form'] == 'configure-src':
        os.makedirs(build, exist_ok=True)
    if ctx['form'] == 'into':
        args = ['configure-into', spell(src, cwd, ctx['spell']), spell(build, cwd, ctx['spell'])]
    elif ctx['form'] == 'configure-build':      # DIRECTORY is the build dir, build.bfg is looked up in the cwd
        cwd = src
        args = ['configure', spell(build, cwd, ctx['spell'])]
    elif ctx['form'] == 'configure-src':        # DIRECTORY is the source dir, files go to the cwd
        cwd = build
        args = ['configure', spell(src, cwd, ctx['spell'])]
    else:
        raise ValueError(ctx['form'])
    args += ['--backend=' + backend, '--no-resolve-packages']
    e = common.impl_env()
    e['PYTHONHASHSEED'] = str(ctx['seed'])
    e['PATH'] = os.path.join(root, 'tools') + ':' + e['PATH']
    for i in range(ctx.get('env_extra', 0)):
        e['C13_UNRELATED_%d_%s' % (i, ctx['seed'])] = 'value %d of context %s' % (i, ctx.get('env_shuffle'))
    if ctx.get('env_shuffle'):
        items = list(e.items())
        random.Random(ctx['env_shuffle']).shuffle(items)
        e = dict(items)
    rc, out = project.run_bfg(args, cwd=cwd, env=e, timeout=timeout)
    if rc == 0 and ctx.get('regen'):
        rc, out = regenerate_in_place(src, build, cwd, ctx, e, timeout)
    files = {}
    for d, _, fns in os.walk(build):
        for fn in fns:
            p = os.path.join(d, fn)
            files[os.path.relpath(p, build)] = open(p, 'rb').read()
    return rc, out[-1500:], files


def searched_dirs(build):
    """the directories named by .bfg_find_deps (first line: TARGET: dir dir ...; blanks inside names are escaped)"""
    p = os.path.join(build, '.bfg_find_deps')
    if not os.path.exists(p):
        return []
    head = parse_depfile(open(p, 'rb').read())
    return [d.replace('\\', '') for d in head[1]]


def regenerate_in_place(src, build, cwd, ctx, e, timeout):
    """The second half of a 'regen' context: the tree and the saved configuration stay the same, only modification times
    move; then the regeneration command runs in the context's environment and directory."""
    import time
    how = ctx['regen']
    time.sleep(0.02)
    if how == 'lazy-dirs':
        dirs = [d for d in searched_dirs(build) if os.path.isdir(d)]
        if len(dirs) < 2:
            return 1, 'harness: expected several searched directories in .bfg_find_deps, found %r' % (dirs,)
        for d in dirs:
            os.utime(d, None)
    elif how == 'lazy-script':
        os.utime(os.path.join(src, 'build.bfg'), None)
    args = ['regenerate'] + (['--lazy'] if how.startswith('lazy') else []) + [spell(build, cwd, ctx['spell'])]
    return project.run_bfg(args, cwd=cwd, env=e, timeout=timeout)


def parse_depfile(data):
    """.bfg_find_deps -> (target, frozenset(deps), frozenset(empty-rule targets)); words split at unescaped blanks."""
    lines = data.decode('utf-8', 'surrogateescape').split('\n')

    def words(s):
        out, cur, i = [], '', 0
        while i < len(s):
            if s[i] == '\\' and i + 1 < len(s):
                cur += s[i:i + 2]
                i += 2
            elif s[i] == ' ':
                if cur:
                    out.append(cur)
                cur = ''
                i += 1
            else:
                cur += s[i]
                i += 1
        if cur:
            out.append(cur)
        return out
    head = words(lines[0])
    rest = [ln for ln in lines[1:] if ln]
    return (head[0], tuple(sorted(head[1:])), len(head[1:]), tuple(sorted(rest)), len(rest))


def first_diff(a, b):
    la, lb = a.split(b'\n'), b.split(b'\n')
    for i, (x, y) in enumerate(zip(la, lb)):
        if x != y:
            return {'line': i + 1, 'baseline': x[:300].decode('utf-8', 'replace'), 'other': y[:300].decode('utf-8', 'replace')}
    return {'line': min(len(la), len(lb)) + 1, 'baseline': '<%d lines>' % len(la), 'other': '<%d lines>' % len(lb)}


def ctx_dims(ctx):
    return tuple(sorted(k for k in BASE_CTX if ctx.get(k, BASE_CTX[k]) != BASE_CTX[k]))


def run_root(job):
    """Worker: one private copy of the tree, baseline first, then the contexts of this slice, both backends."""
    files, ctxs, backends, shuffle_seed = job
    root = make_root(files, random.Random(shuffle_seed) if shuffle_seed is not None else None)
    try:
        res = []
        for backend in backends:
            for ctx in [BASE_CTX] + ctxs:
                rc, out, got = run_context(root, ctx, backend)
                res.append((ctx, backend, rc, out, got))
        shutil.rmtree(os.path.join(root, 'build'), ignore_errors=True)
        return root, res
    finally:
        shutil.rmtree(root, ignore_errors=True)


def compare_root(rep, pdesc, root, res):
    """Compare every run of one root with the baseline of the same backend.  Returns number of failures."""
    bad = 0
    base = {}
    rootb = root.encode()
    for ctx, backend, rc, out, got in res:
        dims = ctx_dims(ctx)
        key = json.dumps({'p': pdesc, 'ctx': ctx, 'b': backend}, sort_keys=True)
        rep.case(key, bool(dims))
        rep.count('backend:' + backend)
        for d in dims or ('baseline',):
            rep.count('dim:' + d)
        rep.count('form:' + ctx['form'])
        rep.count('spell:' + ctx['spell'])
        rep.count('cwd:' + ctx['cwd'])
        replay = {'project': pdesc, 'context': ctx, 'backend': backend}
        if rc != 0 or not any(n in got for n in ('Makefile', 'build.ninja')):
            bad += 1
            rep.fail('%s failed (rc %d) in context %r (%s): %s' % (
                'configure, or the regeneration after it,' if ctx.get('regen') else 'configure', rc, ctx, backend, out[-300:]), replay,
                     classes=('configure-fails:' + '+'.join(dims),))
            continue
        if backend not in base:
            base[backend] = got
            rep.count('primary-files-in-baseline', sum(1 for n in got if is_primary(n)))
            continue
        ref = base[backend]
        if ctx['spell'] == 'abs-dslash':
            # known finding: ntpath.splitdrive takes //a/b as a UNC drive, the doubled slash is kept in every absolute
            # path that is written.  Report it once per run (narrow class: the difference vanishes when exactly that
            # doubled slash is removed), then go on comparing modulo it so that anything else is still seen.
            norm = {k: v.replace(b'/' + rootb, rootb) for k, v in got.items()}
            hit = sorted(k for k in got if k in ref and is_primary(k) and got[k] != ref[k] and norm[k] == ref[k])
            if hit:
                rep.fail('source/build directory spelled with a leading double slash: %s differ from the files written for the '
                         'single-slash spelling of the same directories (%s)' % (', '.join(hit), backend),
                         dict(replay, files=hit, diff=first_diff(ref[hit[0]], got[hit[0]])),
                         classes=('spelling-leading-double-slash',))
            got = norm
        if sorted(ref) != sorted(got):
            bad += 1
            rep.fail('the set of files written differs in context %r (%s): %r' % (
                ctx, backend, sorted(set(ref) ^ set(got))), replay, classes=('file-set:' + '+'.join(dims),))
        for name in sorted(set(ref) & set(got)):
            same = ref[name] == got[name]
            if is_primary(name):
                rep.count('primary-compared')
                if not same:
                    bad += 1
                    kind = 'pc' if name.endswith('.pc') else name
                    rep.fail('primary build file %s is not byte-identical in context %r (%s): %r' % (
                        name, ctx, backend, first_diff(ref[name], got[name])),
                        dict(replay, file=name, diff=first_diff(ref[name], got[name])),
                        classes=('primary-differs:%s:%s' % (kind, '+'.join(dims)),))
            elif name == '.bfg_find_deps':
                rep.count('find_deps:' + ('byte-identical' if same else 'order-differs'))
                a, b = parse_depfile(ref[name]), parse_depfile(got[name])
                if a != b:
                    bad += 1
                    rep.fail('.bfg_find_deps differs as a set of entries in context %r (%s)' % (ctx, backend),
                             dict(replay, file=name, baseline=a, other=b), classes=('find-deps-set:' + '+'.join(dims),))
            elif name == '.bfg_find_cache':
                rep.count('find_cache:' + ('byte-identical' if same else 'differs'))
                if not same and json.loads(ref[name]) != json.loads(got[name]):
                    bad += 1
                    rep.fail('.bfg_find_cache differs as JSON in context %r (%s)' % (ctx, backend),
                             dict(replay, file=name), classes=('find-cache:' + '+'.join(dims),))
            elif name == '.bfg_environ':
                rep.count('environ:' + ('byte-identical' if same else 'differs'))
                a, b = json.loads(ref[name]), json.loads(got[name])
                va, vb = a['data'].pop('variables', None), b['data'].pop('variables', None)
                if a != b:
                    bad += 1
                    rep.fail('.bfg_environ differs outside the saved variables in context %r (%s)' % (ctx, backend),
                             dict(replay, file=name), classes=('environ-nonvar:' + '+'.join(dims),))
                else:
                    # the saved variables are the configuration: they differ exactly by what the harness varied
                    ia, ib = dict(va['initial']), dict(vb['initial'])
                    for k in list(ia) + list(ib):
                        if k.startswith('C13_UNRELATED_') or k in ('PYTHONHASHSEED', 'PWD', 'OLDPWD'):
                            ia.pop(k, None)
                            ib.pop(k, None)
                    rep.count('environ-initial:' + ('equal-modulo-varied' if ia == ib else 'differs'))
            else:
                rep.count('other-file:%s:%s' % (name, 'byte-identical' if same else 'differs'))
    return bad


def contexts(rng, tier, n_seeds):
    """The list of contexts (each differs from BASE_CTX).  Every seed appears alone and combined with other dimensions."""
    seeds = [str(i) for i in range(n_seeds)]
    cx = []
    for s in seeds[1:]:
        cx.append(dict(BASE_CTX, seed=s))
    combos = [
        dict(cwd='root', spell='rel'), dict(cwd='else', spell='rel'), dict(cwd='else', spell='abs'),
        dict(cwd='root', spell='rel-noisy'), dict(cwd='src', spell='abs-noisy'), dict(cwd='else', spell='rel-slash'),
        dict(form='configure-build', spell='rel'), dict(form='configure-build', spell='abs'),
        dict(form='configure-src', cwd='build', spell='rel'), dict(form='configure-src', cwd='build', spell='abs'),
        dict(form='configure-src', cwd='build', spell='rel-noisy'),
        dict(env_extra=5), dict(env_shuffle=7), dict(env_extra=3, env_shuffle=11),
        dict(keep=True), dict(keep=True, cwd='root', spell='rel'), dict(spell='abs-dslash'),
        dict(regen='lazy-dirs'), dict(regen='full'), dict(regen='lazy-script'), dict(regen='lazy-dirs', cwd='else', spell='rel'),
    ]
    for i, c in enumerate(combos):
        cx.append(dict(BASE_CTX, seed=seeds[(i + 1) % len(seeds)] if i % 2 else '0', **c))
    if tier == 'thorough':
        for s in seeds:
            c = dict(rng.choice(combos))
            c.setdefault('env_shuffle', rng.randint(1, 99))
            cx.append(dict(BASE_CTX, seed=s, **c))
        cx.append(dict(BASE_CTX, seed='random'))
    return cx


def stage_system(rep, rng, tier, boost=1):
    n_proj = (1 if tier == 'quick' else 3) * boost
    n_seeds = 4 if tier == 'quick' else 32
    workers = 16
    jobs, descs = [], []
    for pi in range(n_proj):
        pseed = rng.randrange(1 << 30)
        variant = pi % 2
        files = gen_project(random.Random(pseed), variant)
        cx = contexts(rng, tier, n_seeds)
        nslices = min(len(cx), max(1, workers // n_proj) if tier == 'quick' else 16)
        for k in range(nslices):
            jobs.append((files, cx[k::nslices], ('make', 'ninja'), None))
            descs.append({'seed': pseed, 'variant': variant})
    # the link-graph family (several forwarding static libraries per link step): small projects, more hash seeds each
    n_fw = (2 if tier == 'quick' else 4) * boost
    fw_seeds = 6 if tier == 'quick' else 32
    for pi in range(n_fw):
        pseed = rng.randrange(1 << 30)
        files = gen_fw_project(random.Random(pseed))
        cx = [dict(BASE_CTX, seed=str(s)) for s in range(1, fw_seeds)]
        cx.append(dict(BASE_CTX, seed=str(fw_seeds), regen='full'))
        cx.append(dict(BASE_CTX, seed=str(fw_seeds + 1), cwd='else', spell='rel'))
        nslices = 2 if tier == 'quick' else 8
        for k in range(nslices):
            jobs.append((files, cx[k::nslices], ('make', 'ninja'), None))
            descs.append({'seed': pseed, 'variant': 'fw'})
            rep.count('link-graph-family:contexts', 2 * len(cx[k::nslices]))
    bad = 0
    with ThreadPoolExecutor(max_workers=workers) as ex:
        for desc, (root, res) in zip(descs, ex.map(run_root, jobs)):
            bad += compare_root(rep, desc, root, res)
    rep.stage('system:differential-configure', projects=n_proj, hash_seeds=n_seeds, link_graph_projects=n_fw, link_graph_hash_seeds=fw_seeds + 2, roots=len(jobs), failures=bad)
    return bad


def stage_fs_order(rep, rng):
    """Observation (not part of the property): two copies of the same tree whose files were created in different orders.
    path.listdir does not sort, so find_files results (and with them the object lists in the primary files) may follow the
    directory enumeration order of the file system.  Recorded in the evidence."""
    pseed = rng.randrange(1 << 30)
    files = gen_project(random.Random(pseed), 0)
    jobs = [(files, [], ('make',), None), (files, [], ('make',), 12345)]
    with ThreadPoolExecutor(max_workers=2) as ex:
        (r1, res1), (r2, res2) = list(ex.map(run_root, jobs))
    f1 = {k: v.replace(r1.encode(), b'@ROOT@') for k, v in res1[0][4].items()}
    f2 = {k: v.replace(r2.encode(), b'@ROOT@') for k, v in res2[0][4].items()}
    differing = sorted(k for k in f1 if k in f2 and f1[k] != f2[k] and is_primary(k))
    # does the order of find() follow os.listdir?  reverse the enumeration under the real function
    from unittest import mock
    from bfg9000.builtins import find as bfind
    from bfg9000.path import Path, Root
    d = common.scratch('c13ls')
    try:
        names = ['%s.c' % n for n in ('m', 'a', 'z', 'k', 'b')]
        project.write_tree(d, {n: '' for n in names})

        class Env:
            base_dirs = {Root.srcdir: Path(d + '/', Root.absolute), Root.builddir: None}
        real = os.listdir
        fwd = [p.basename() for p in bfind.find(Env, '*.c')]
        with mock.patch('os.listdir', lambda p: list(reversed(real(p)))):
            rev = [p.basename() for p in bfind.find(Env, '*.c')]
        follows = (fwd == real(d) and rev == list(reversed(real(d))))
        issorted = fwd == sorted(fwd)
    finally:
        shutil.rmtree(d, ignore_errors=True)
    rep.count('fs-order:find-follows-listdir=%s' % follows)
    rep.stage('observation:fs-order', same_tree_two_creation_orders=True,
              find_result_follows_os_listdir_order=follows, find_result_sorted_on_this_fs=issorted,
              listdir_order_here=fwd,
              primary_files_differing_modulo_root=differing,
              note='path.listdir/walk keep the os.listdir order; not sorted (find_files result order is file-system dependent)')
    rep.count('fs-order:' + ('primary-differs' if differing else 'primary-equal'))
    return differing


# ============================================================================= W correspondence (model vs code)
WORDS = ['a', 'b', 'c', 'ab', 'ba', '', 'é', 'a b', 'A', 'aa', 'x/y', 'x/z', '日']
DIRCHARS = ['a', 'b', 'src', 'x y', 'h#', 'p%', 'c:d', 'd$', 'e|f', '~t', 's*', 'q?', '[k]', 'é', 'm n', 'tab\tx',
            'n\nl', 'bs\\\\', 'v,w', "q'", '=']
COMPS = ['a', 'b', 'c', '..', '..', '.', '', 'x.y', '...', '..a', 'é', 'a b', 'build', 'src']


def dec(name, r):
    from .common import d_str, d_list, d_opt
    if name in ('determ.uniques', 'determ.explicit_of', 'determ.find_dirs_of', 'determ.split_texts'):
        return d_list(d_str, r)
    if name in ('determ.dict_of', 'determ.dict_first_of'):
        return [(d_str(p[0]), d_str(p[1])) for p in r]
    if name == 'determ.depfile_text':
        return d_opt(d_str, r)
    if name == 'determ.emit':
        return d_opt(lambda p: ([(d_str(k[0]), d_str(k[1])) for k in p[0]],
                                [(d_list(d_str, x[0]), d_str(x[1])) for x in p[1]]), r)
    if name == 'determ.abspath_str':
        return ('ok', d_str(r[1])) if r[0] == 0 else ('ValueError' if r[0] == 1 else 'outside')
    if name == 'determ.directory_pair':
        return (d_str(r[0]), d_str(r[1]))
    raise KeyError(name)


def gen_list(rng, maxn=12):
    k = rng.randint(1, len(WORDS))
    pool = rng.sample(WORDS, k)
    return [rng.choice(pool) for _ in range(rng.choice([0, 1, 2, 2, 3, 4, 6, 9, maxn]))]


class _Src:
    def __init__(self, path, tag):
        self.path, self.tag = path, tag


def gen_ops(rng, allow_empty):
    names = ['v%d' % i for i in range(4)]
    tg = ['t%d' % i for i in range(5)] + ['dir/o.o', 'a-b']
    ops = []
    for _ in range(rng.randint(0, 9)):
        k = rng.random()
        if k < 0.35:
            ops.append([0, rng.choice(names), rng.choice(['1', 'x y', '']), rng.random() < 0.6])
        elif k < 0.7:
            n = rng.choice([0, 1, 1, 1, 2, 3]) if allow_empty else rng.choice([1, 1, 1, 2, 3])
            ops.append([1, [rng.choice(tg) for _ in range(n)], rng.choice(['cc', 'ld', 'r'])])
        elif k < 0.9:
            ops.append([2, rng.choice(tg), [rng.choice(tg) for _ in range(rng.randint(1, 2))], 'cond'])
        else:
            ops.append([3, rng.choice(names), rng.choice(names), 'unless'])
    return ops


def run_ops_make(ops):
    from bfg9000.backends.make.syntax import Makefile, Section
    mk = Makefile('build.bfg')
    try:
        for o in ops:
            if o[0] == 0:
                mk.variable(o[1], o[2], exist_ok=o[3])
            elif o[0] == 1:
                mk.rule(target=list(o[1]), recipe=o[2])
            elif o[0] == 2:
                if not mk.has_rule(o[1]):
                    mk.rule(target=list(o[2]), recipe=o[3])
            else:
                if not mk.has_variable(o[1]):
                    mk.variable(o[2], o[3])
    except ValueError:
        return None
    # what Makefile.write iterates
    return ([(n.name, v) for n, v in mk._global_variables[Section.other]], [(list(r.targets), r.recipe) for r in mk._rules])


def run_ops_ninja(ops):
    from bfg9000.backends.ninja.syntax import NinjaFile, Section
    nf = NinjaFile('build.bfg')
    nf.rule('cc', ['cc']); nf.rule('ld', ['ld']); nf.rule('r', ['r']); nf.rule('cond', ['c'])   # noqa: E702
    try:
        for o in ops:
            if o[0] == 0:
                nf.variable(o[1], o[2], exist_ok=o[3])
            elif o[0] == 1:
                nf.build(output=list(o[1]), rule=o[2])
            elif o[0] == 2:
                if not nf.has_build(o[1]):
                    nf.build(output=list(o[2]), rule=o[3])
            else:
                if not nf.has_variable(o[1]):
                    nf.variable(o[2], o[3])
    except ValueError:
        return None
    return ([(n.name, v) for n, v in nf._variables[Section.other]], [(list(b.outputs), b.rule) for b in nf._builds])


def gen_spelling(rng):
    n = rng.choice([0, 1, 1, 2, 2, 3, 4, 6])
    body = '/'.join(rng.choice(COMPS) for _ in range(n))
    lead = rng.choice(['', '', '', '/', '/', '//', '///', './', '../'])
    tail = rng.choice(['', '', '/', '/.', '/..'])
    return lead + body + tail


def gen_cwd(rng):
    names = [c for c in COMPS if c not in ('', '.', '..')]
    k = rng.random()
    body = '/'.join(rng.choice(names) for _ in range(rng.choice([0, 1, 2, 2, 3, 4])))
    if k < 0.9:
        return '/' + body
    if k < 0.95:
        return '//' + body          # POSIX allows getcwd to keep exactly two leading slashes
    return '/' + body + rng.choice(['/', '/.', '/../x'])     # never returned by getcwd; the model must still agree


def real_abspath(cwd, s):
    from unittest import mock
    from bfg9000.path import Path
    with mock.patch('os.getcwd', lambda: cwd), mock.patch('os.path.expanduser', lambda p: p):
        try:
            return ('ok', Path.abspath(s, directory=True, absdrive=False).suffix)
        except ValueError:
            return 'ValueError'


def stage_w(rep, rng, n):
    from bfg9000 import iterutils
    from bfg9000.build_inputs import BuildInputs
    from bfg9000.builtins.install import InstallOutputs
    from bfg9000.builtins import find as bfind
    from bfg9000.path import Path, Root
    from . import gen
    _, us = gen.uni_tables()
    us = us + ' '
    calls, impl = [], []
    # -- the specifiers of one pkg-config requirement: Requirement.split against sorted-by-text (split_texts true) of
    # this run's enumeration of the simplified SpecifierSet
    from bfg9000.builtins.pkg_config import Requirement
    from bfg9000.versioning import SpecifierSet, simplify_specifiers
    for _ in range(max(20, n // 10)):
        lo, hi = rng.randint(0, 3), rng.randint(6, 9)
        specs = [rng.choice(['>=', '>']) + str(lo)] * rng.randint(0, 1) + [rng.choice(['<=', '<']) + str(hi)] * rng.randint(0, 1) + \
                ['!=%d.%d' % (rng.randint(lo + 1, hi - 1), rng.randint(0, 9)) for _ in range(rng.randint(0, 4))] + \
                ['!=%d' % lo] * rng.randint(0, 1) + ['!=%d' % hi] * rng.randint(0, 1)        # the same version under two operators
        if not specs:
            continue
        text = ','.join(specs)
        enum = [str(i) for i in simplify_specifiers(SpecifierSet(text))]
        rep.case('specs:' + text, len(enum) > 1)
        rep.count('requirement specifiers:%d' % min(len(enum), 4))
        calls.append(('determ.split_texts', [True, enum]))
        impl.append([str(x.version) for x in Requirement('p', text).split()] if enum else [])
    # -- de-duplicators and dicts
    for _ in range(n):
        l = gen_list(rng)
        rep.case('u:' + repr(l), len(set(l)) < len(l))
        rep.count('uniques:dups' if len(set(l)) < len(l) else 'uniques:nodups')
        calls.append(('determ.uniques', [l])); impl.append(iterutils.uniques(l))           # noqa: E702
        io = InstallOutputs(None)
        io._add_implicit = lambda item, directory: None
        for x in l:
            io.add(x)
        calls.append(('determ.explicit_of', [l])); impl.append(list(io.explicit))          # noqa: E702
        kv = [(k, 'v%d' % i) for i, k in enumerate(l)]
        bi = BuildInputs.__new__(BuildInputs)
        bi._sources = {}
        for k, v in kv:
            bi.add_source(_Src(k, v))
        calls.append(('determ.dict_of', [kv])); impl.append([(k, s.tag) for k, s in bi._sources.items()])   # noqa: E702
        d = {}
        for k, v in kv:
            d.setdefault(k, v)
        calls.append(('determ.dict_first_of', [kv])); impl.append(list(d.items()))         # noqa: E702
    # -- Makefile / NinjaFile bookkeeping under three iteration behaviours of the sets
    for i in range(n):
        ops = gen_ops(rng, allow_empty=True)
        want = run_ops_make(ops)
        rep.case('mk:' + repr(ops), len(ops) > 1)
        rep.count('emit-make:' + ('error' if want is None else 'ok'))
        for orc in (0, 1, 2):
            calls.append(('determ.emit', [orc, ops])); impl.append(want)                   # noqa: E702
        ops = gen_ops(rng, allow_empty=False)
        want = run_ops_ninja(ops)
        rep.count('emit-ninja:' + ('error' if want is None else 'ok'))
        calls.append(('determ.emit', [i % 3, ops])); impl.append(want)                     # noqa: E702
    # -- write_depfile (real function, list argument) and the set-as-list model
    d = common.scratch('c13dep')
    try:
        class Env:
            base_dirs = {Root.srcdir: Path('/S/src/', Root.absolute), Root.builddir: Path(d + '/', Root.absolute)}
        for i in range(n // 2):
            dirs = []
            for _ in range(rng.choice([0, 1, 2, 3, 5])):
                bits = [rng.choice(DIRCHARS) for _ in range(rng.randint(1, 3))]
                root = rng.choice([Root.absolute, Root.srcdir, Root.builddir])
                try:
                    dirs.append(Path(('/' if root == Root.absolute else '') + '/'.join(bits) + '/', root))
                except ValueError:
                    pass
            target = Path(rng.choice(['Makefile', 'Makefile.stamp', 'build.ninja', 'odd name#']))
            makeify = rng.random() < 0.6
            roots = dict(Env.base_dirs)
            roots[Root.builddir] = None
            strs = [p.string(roots) for p in dirs]
            try:
                bfind.write_depfile(Env, Path('depfile'), target, dirs, makeify=makeify)
                want = open(os.path.join(d, 'depfile'), encoding='utf-8').read()
            except ValueError:
                want = None
            rep.case('dep:' + repr(strs), len(strs) > 1)
            rep.count('depfile:' + ('error' if want is None else 'dirs=%d' % min(len(strs), 3)))
            calls.append(('determ.depfile_text', [us, target.string(roots), strs, makeify])); impl.append(want)   # noqa: E702
    finally:
        shutil.rmtree(d, ignore_errors=True)
    # -- abspath
    corpus = [('/a/b', 'c'), ('/a/b', '../c'), ('/a/b', '../../../c'), ('/a/b', '/c/./d/..'), ('/a/b', '//c/d/e'),
              ('/a/b', '//c'), ('/a/b', '//c/d'), ('/a/b', '///c/d/e/f'), ('/', '.'), ('/', '..'), ('/a', ''), ('/a', '.'),
              ('//a/b/c', 'd'), ('//a/b/c', '..'), ('/a', 'c:/x'), ('/a', '~u/x'), ('/a', 'x\\y'), ('/a', '//?/UNC/s/h/x'), ('/a/b', 'x/../../y'), ('/a/b', '//c/d//e'), ('/a/b', '//c/d/..')]
    for cwd, s in corpus + [(gen_cwd(rng), gen_spelling(rng)) for _ in range(2 * n)]:
        want = real_abspath(cwd, s)
        rep.case('abs:%r:%r' % (cwd, s), '..' in s or s.startswith('/'))
        rep.count('abspath:' + (want if isinstance(want, str) else
                                'rel' if not s.startswith('/') else 'abs2' if s.startswith('//') else 'abs'))
        calls.append(('determ.abspath_str', [cwd, s])); impl.append(want)                  # noqa: E702
    for c in calls[:2] + calls[-2:]:
        rep.sample({'stage': 'W:determ', 'call': c[0], 'arg': c[1]})
    # canonicalise: recipe strings of the Makefile come back as given
    raw_dis = common.compare_model(rep, 'W:determ', calls, impl, dec)
    dis = [x for x in raw_dis if x[3] != 'outside']
    rep.count('abspath:outside-fragment', sum(1 for x in raw_dis if x[3] == 'outside'))
    # -- the set-as-list model has set semantics (language level): same elements, no duplicates, any oracle
    batches = [[gen_list(rng, 6) for _ in range(rng.randint(0, 4))] for _ in range(n // 4)]
    sc = [('determ.find_dirs_of', [i % 3, b]) for i, b in enumerate(batches)]
    for (_, (orc, b)), r in zip(sc, common.model_batch(sc)):
        got = dec('determ.find_dirs_of', r)
        s = set()
        for x in b:
            s.update(x)
        if sorted(got) != sorted(s):
            dis.append((0, ('determ.find_dirs_of', [orc, b]), sorted(s), got))
    return dis


def stage_w_directory_pair(rep, rng, n):
    """driver.directory_pair (the real argparse action) against the model, with the file system answers stubbed."""
    from unittest import mock
    from bfg9000 import driver
    from bfg9000.path import Path
    import argparse as _ap
    calls, impl = [], []
    DP = driver.directory_pair('srcdir', 'builddir')
    for _ in range(n):
        dirs = ['/w/src', '/w/build', '/w/else', '/w/src/sub']
        cwd, val = rng.choice(dirs), rng.choice(dirs)
        has = [x for x in dirs if rng.random() < 0.4]
        with mock.patch('os.getcwd', lambda: cwd), \
                mock.patch('bfg9000.build.exists', lambda p, *a: p.parent().suffix in has):
            ns = _ap.Namespace()
            DP(option_strings=[], dest='d')(None, ns, Path.abspath(val, directory=True, absdrive=False))
            impl.append((ns.srcdir.suffix, ns.builddir.suffix))
        calls.append(('determ.directory_pair', [has, cwd, val]))
        rep.case('dp:%r' % ((has, cwd, val),), cwd != val)
        rep.count('directory_pair:' + ('value-is-src' if val in has else 'value-is-build'))
    return common.compare_model(rep, 'W:directory_pair', calls, impl, dec, vm_limit=50)


def oracle_direct(rep, rng, n):
    """The property of the de-duplicators checked directly on the implementation (no model)."""
    from bfg9000 import iterutils
    bad = 0
    for _ in range(n):
        l = gen_list(rng)
        u = iterutils.uniques(l)
        ok = (len(set(u)) == len(u) and set(u) == set(l) and
              [l.index(x) for x in u] == sorted(l.index(x) for x in u))
        if not ok:
            bad += 1
            rep.fail('iterutils.uniques(%r) = %r is not the first-occurrence de-duplication' % (l, u),
                     {'list': l, 'uniques': u}, classes=('uniques-order',))
    rep.stage('oracle:uniques', cases=n, failures=bad)
    return bad


# ============================================================================= ForwardOptions.recurse
FWD_CHILD = r'''
import json, sys
from bfg9000.options import ForwardOptions, option_list


class Lib:      # stands for a library file object: hashed and compared by its name, as file objects are by their path
    def __init__(self, name):
        self.name = name

    def __hash__(self):
        return hash(self.name)

    def __eq__(self, rhs):
        return isinstance(rhs, Lib) and self.name == rhs.name


def evaluate(case):
    names, graph, top = case
    objs = []
    for name, node in zip(names, graph):
        lib = Lib(name)
        if node is not None:
            items, libs = node
            lib.forward_opts = ForwardOptions(link_options=option_list(*['-Wl,' + i for i in items]),
                                              compile_options=option_list(*['-D' + i for i in items]),
                                              packages=list(items), libs=[objs[j] for j in libs])
        objs.append(lib)
    r = ForwardOptions.recurse([objs[j] for j in top])
    return {'link': [i[4:] for i in r.link_options], 'compile': [i[2:] for i in r.compile_options],
            'packages': list(r.packages), 'libs': [names.index(i.name) for i in r.libs]}


if __name__ == '__main__':
    print(json.dumps([evaluate(c) for c in json.load(sys.stdin)]))
'''


def gen_fwd_case(rng):
    """(names, graph, top): libraries numbered bottom-up with drawn names (their string hashes order a set); graph[i] is None
    (no forward_opts: a shared library) or (items it forwards, numbers of the libraries it forwards); top = the libs= list
    of a link step: two to four libraries, mostly forwarding ones"""
    n = rng.randint(3, 9)
    names = []
    while len(names) < n:
        nm = 'lib' + ''.join(rng.choice('abcdefghkmnpqrstuvwxyz') for _ in range(rng.randint(1, 5)))
        if nm not in names:
            names.append(nm)
    graph = []
    for i in range(n):
        if rng.random() < (0.6 if i < 2 else 0.15):
            graph.append(None)
            continue
        items = ['o%d_%d' % (i, k) for k in range(rng.choice([0, 1, 1, 2]))]
        graph.append((items, rng.sample(range(i), rng.randint(0, min(3, i)))))
    fw = [i for i in range(n) if graph[i] is not None]
    k = rng.randint(1, 4)
    top = rng.sample(fw, min(len(fw), k)) if rng.random() < 0.8 else rng.sample(range(n), min(n, k))
    return names, graph, top


def stage_forward(rep, rng, n):
    """ForwardOptions.recurse on generated library graphs.  Direct oracle (no model): the real function, run in child
    interpreters under different hash seeds, returns the same merged lists for every seed, and they are the depth-first
    merge in the order of the script's list.  W: the model Misc/Forward.v against the real function."""
    import subprocess
    cases = [gen_fwd_case(rng) for _ in range(n)]
    code = dict(FWD_CHILD=FWD_CHILD)
    exec(compile(FWD_CHILD.replace("if __name__ == '__main__':", 'if False:'), 'fwd_child', 'exec'), code)
    here = [code['evaluate'](c) for c in cases]
    seeds = ['1', '2', '3', '7', '11'] if rep.tier == 'quick' else [str(s) for s in range(1, 24)]
    runs = {}
    for s in seeds:
        e = common.impl_env()
        e['PYTHONHASHSEED'] = s
        p = subprocess.run([sys.executable, '-c', FWD_CHILD], input=json.dumps(cases), capture_output=True, text=True, env=e,
                           timeout=300)
        if p.returncode != 0:
            rep.fail('ForwardOptions.recurse cannot be evaluated in a child interpreter: %s' % p.stderr[-400:],
                     {'obligation': 'oracle:forward_recurse'}, found_input=False)
            return [], 0
        runs[s] = json.loads(p.stdout)

    def reference(graph, top):
        out = {'items': [], 'libs': []}

        def walk(libs):
            for i in libs:
                if graph[i] is not None:
                    out['items'] += graph[i][0]
                    out['libs'] += graph[i][1]
                    walk(graph[i][1])
        walk(top)
        return out
    bad = 0
    calls, impl = [], []
    for ci, (case, h) in enumerate(zip(cases, here)):
        names, graph, top = case
        multi = sum(1 for i in top if graph[i] is not None) >= 2
        rep.case('fwd:' + json.dumps(case), multi)
        rep.count('forward:link-step-with-%d-forwarding-libs' % min(3, sum(1 for i in top if graph[i] is not None)))
        ref = reference(graph, top)
        want = {'link': ref['items'], 'compile': ref['items'], 'packages': ref['items'], 'libs': ref['libs']}
        differing = sorted(s for s in seeds if runs[s][ci] != h)
        if differing or h != want:
            bad += 1
            if bad <= 10:
                rep.fail('ForwardOptions.recurse on the libraries %r of the graph %r (names %r): %s' % (
                    top, graph, names,
                    'the merged lists depend on the hash seed: %r under PYTHONHASHSEED=0, %r under PYTHONHASHSEED=%s'
                    % (h, runs[differing[0]][ci], differing[0]) if differing else
                    'the merged lists %r are not the depth-first merge in list order %r' % (h, want)),
                    {'kind': 'forward_recurse', 'case': case, 'hashseed0': h,
                     'other': {s: runs[s][ci] for s in differing[:3]}, 'expected': want}, classes=())
        fuel = len(graph) + 1
        calls.append(('forward.recurse', [fuel, [None if x is None else [[x[0], x[1]]] for x in graph], top]))
        impl.append((h['link'], h['libs']))
        calls.append(('forward.bottom_up', [[None if x is None else [[x[0], x[1]]] for x in graph]]))
        impl.append(True)

    def dec_f(name, raw):
        if name == 'forward.bottom_up':
            return common.d_bool(raw)
        return ([common.d_str(x) for x in raw[0]], list(raw[1]))
    dis = common.compare_model(rep, 'W:forward_recurse', calls, impl, dec_f, vm_limit=30)
    rep.stage('oracle:forward_recurse', cases=len(cases), hash_seeds=len(seeds) + 1, failures=bad)
    return dis, bad


# ============================================================================= driver
def run(rep):
    rng = random.Random(rep.seed)
    thorough = rep.tier == 'thorough'
    rep.proof_stage(coqchk=thorough)
    n = 1500 if thorough else 300
    dis = stage_w(rep, rng, n)
    dis += stage_w_directory_pair(rep, rng, n // 3)
    ok_scan, detail = stage_scan(rep)
    stage_languages_functional(rep)
    bad = oracle_direct(rep, rng, n)
    fdis, fbad = stage_forward(rep, rng, n)
    dis += fdis
    bad += fbad
    bad += stage_system(rep, rng, rep.tier)
    stage_fs_order(rep, rng)
    broken = []
    if dis:
        broken.append(('W:determ', 'model and implementation disagree on %d cases, first: %r' % (len(dis), dis[0][1:]),
                       {'disagreements': [list(d[1:]) for d in dis[:10]]}))
    if not ok_scan:
        broken.append(('W:nondeterminism_sites', 'the AST scan found nondeterminism sites that are not in the allow-list '
                       '(or listed ones vanished): %r' % (detail,), detail))
    if broken and bad == 0:
        # the tie is broken: the differential runs (and the direct oracle) are the search, at 10x budget
        bad = oracle_direct(rep, rng, 10 * n)
        bad += stage_system(rep, rng, rep.tier, boost=10 if not thorough else 4)
        if bad == 0:
            for name, what, det in broken:
                rep.fail(what, dict({'obligation': name}, **det), found_input=False)


def replay(rep, path):
    r = json.load(open(path))
    if 'context' not in r:
        return run(rep)
    pd = r['project']
    files = make_project(pd)
    root, res = run_root((files, [r['context']], (r['backend'],), None))
    compare_root(rep, pd, root, res)
