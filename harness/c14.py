"""C14 - Linked binaries build, run in place, and survive moving the build dir."""
import json
import os
import posixpath
import random
import re
import shlex
import shutil
import subprocess
import sys

from . import common
from .common import d_str, d_bool, d_opt, d_list

LEVEL = 'proof'
RULE = ('projects are random DAGs of 1..7 libraries plus 1..2 executables created in creation order; every library is '
        'static, shared, dual-use or library() without kind (decided by the --enable/--disable-shared/static mode), '
        'placed in one of 9 nested output directories; its libs= argument is a random subset of earlier libraries in '
        'random listing order (sometimes listed twice, sometimes wrapped in whole_archive()), with random link options '
        '(groups of string tokens: multi-token options such as -u SYM, -Xlinker --defsym -Xlinker N=V, -z KW whose '
        'tokens repeat across libraries and inside one option, single-token options, and option objects) and packages '
        '(whose link options contain a multi-token option too); every link step of every project is one case; a case '
        'is non-trivial when a library is forwarded (some listed library is static) and distinct by the project text. '
        'System level: the same generator written out as a real C project whose libraries carry link options with an '
        'observable effect (-u SYM / -Xlinker -u -Xlinker SYM / -Wl,-u,SYM pulling an otherwise unreferenced plugin '
        'object out of the archive, -Xlinker --defsym -Xlinker N=V / -Wl,--defsym=N=V defining an absolute symbol the '
        'library code reads, -pthread, a local pkg-config package whose Libs: carry both kinds, options given on the '
        'executable itself incl. -u of a plugin the library does not forward), configured with the real bfg9000, '
        'built with GNU make and gcc, run from another cwd, build directory moved, run again; the printed sum counts '
        'every plugin and every defsym value. The code of every node reads a global variable and calls a global '
        'function of its own translation unit (also through a stored address), so archive members that reach a shared '
        'library must be position-independent; the library modes (shared only, shared+static, static only) are dealt '
        'out in turn over the generated projects and one shape project (archives reaching shared libraries plainly, '
        'forwarded, through library() of mode-decided kind, through a dual-use library and whole-archived) is built '
        'under each of them; in process, every object that a shared library takes in (its own and those of every '
        'archive in its closure) must be compiled with -fPIC under all four modes. Configure environments are dealt out '
        'in turn over the system-level projects (none, LDLIBS=-lm, LDLIBS=-lz -lm with LDFLAGS, LDFLAGS only, LDLIBS=-lm '
        '-lz): every executable and shared-only library then calls cbrt / zlibVersion on run-time values, and the project '
        'contains libraries of its own that no node links but that are NAMED like those system libraries (libm.so, libz.so '
        'defining the same functions with other results), placed in the output directory of a shared library a program '
        'links and built before anything is linked; a system function bound to the namesake shows in the printed sum and '
        'in DT_NEEDED (read with patchelf). Search directories: no link command (make -n) and no flag list of a real link '
        'step (in process, every generated project) may carry a -L into the build tree unless a library of that directory '
        'is on the line by -l name (project libraries are handed over by path). Languages: the own sources of every node '
        '(library of any kind, executable) are C only, C++ only, or C and C++ in either listing order (a stream of its own); '
        'the C++ part really needs the C++ run time (operator new, std::string, a vtable, an exception thrown and caught) '
        'and contributes to the printed sum; in process, every archive file object must state the languages of all its '
        'sources and of what it forwards, every linked binary the language of its driver, and every link step taking in '
        'a C++ object (own, or a member of an archive anywhere in its closure) must be done by the C++ driver; one shape '
        'project (mixed-language static / shared / dual libraries consumed directly, through chains of C-only archives '
        'and through shared libraries by C-only and C++-only programs and libraries) is really built under two modes.')
TRUSTED = ('R model ld_pass (single-pass archive semantics of GNU ld) validated against the real gcc/ld on this run',
           'R model ldso_dir ($ORIGIN substitution and lexical dot-dot resolution of the dynamic loader; no symlinked '
           'directories in the build tree) validated by running the built executables before and after moving the build '
           'directory',
           'GNU ld / ld.so themselves (oracles)',
           'system-level forwarded options: GNU ld semantics of -u SYM (extracts the archive member defining SYM; a weak '
           'reference alone does not) and --defsym N=V (absolute symbol, read through a data relocation), observed '
           'through the program output; the mopack stand-in that makes package() resolve a local .pc file through the '
           'real pkg-config (mopack itself is not installable here)')
EXPLANATION = ('partial: the forwarding closure, link order and relative rpath computation are proved on the model and '
               'tied to the code; ld and ld.so are oracles validated by really linking and running generated projects; '
               'non-ELF formats are not covered')

FINDING_ORDER = 'link-order-first-occurrence-dedup'
FINDING_WHOLE_PLAIN = 'whole-archive-after-plain-archive-of-same-library'

DIRS = ['', 'lib', 'lib/sub', 'a/b/c', 'bin', 'x.y', 'lib2', 'a/b', 'a/z']
KINDS = ['static', 'shared', 'dual', 'default']
# (shared, static) library modes a project with a library() of no explicit kind can be configured with
SYSTEM_MODES = [(True, False), (True, True), (False, True)]
# W-tie option pools (never given to a real linker)
STR_POOL = ['-pthread', '-g', '-Wl,-O1', '-s', '-Wl,--as-needed',
            # tokens of multi-token options
            '-u', 'reg_a', 'reg_b', '-Xlinker', '--defsym', 'x=1', 'y=2', '-Wl,--defsym=a=1', '-z', 'now']
# what a build script passes as link_options: options, each a group of one or more tokens (every token is
# one element of the option_list = one argv word)
W_GROUPS = [['-u', 'reg_a'], ['-u', 'reg_b'], ['-Xlinker', '--defsym', '-Xlinker', 'x=1'],
            ['-Xlinker', '--defsym', '-Xlinker', 'y=2'], ['-Xlinker', '-u', '-Xlinker', 'reg_a'], ['-z', 'now'],
            ['-pthread'], ['-Wl,--defsym=a=1'], ['-g'], ['-Wl,-O1'], ['-s'], ['-Wl,--as-needed']]
N_OBJ = 3     # opts.pthread(), opts.debug(), opts.static()
OBJ_FLAG = ['-pthread', '-g', '-static']      # what CcLinker.flags makes of them
N_PKG = 4
# system libraries a configure environment can ask for by name (LDLIBS=-l<name>): header, declaration (per node), a C
# expression that is 0 when the call reaches the SYSTEM library (evaluated on run-time values), and the source of a
# project library of the same name whose function of that name gives another result (the expression is then far from 0)
SYSLIBS = {
    'm': ('math.h', 'static volatile double c14_m%d = 27.0;\n', '(((long long)(cbrt(c14_m%d) + 0.5)) - 3) * 100000',
          'double cbrt(double x) { return x - 1000.0; }\n'),
    'z': ('zlib.h', '', "(zlibVersion()[0] == '1' && zlibVersion()[1] == '.' ? 0 : 700000)",
          'const char *zlibVersion(void) { return "decoy"; }\n'),
}
# configure environments of the system-level projects, dealt out in turn: (flag variables, names of the project
# libraries that are called like a system library)
SYSTEM_ENVS = [({}, []), ({'LDLIBS': '-lm'}, ['m']), ({'LDLIBS': '-lz -lm', 'LDFLAGS': '-Wl,-O1'}, ['z']),
               ({'LDFLAGS': '-Wl,-O1 -Wl,--hash-style=gnu'}, ['m']), ({'LDLIBS': '-lm -lz'}, ['m', 'z'])]


# (version, soversion) pairs of versioned shared libraries: lib<name>.so.<version> is the file, lib<name>.so.<soversion>
# (the soname) and lib<name>.so (what a link step names) are symbolic links created by steps of the build
VERSIONS = [('1.2.3', '1'), ('2.0', '2'), ('0.9.1', '0'), ('3.1.4', '3.1'), ('10.0.0-rc1', '10')]

# the languages of a node's own sources: (source files in listing order, bfg9000's language names).  The C++ part of a
# node really needs the C++ run time (operator new, std::string, a virtual destructor, an exception thrown and caught),
# so a link step that takes in such an object - its own or a member of an archive anywhere in its closure - must be done
# by the C++ driver (or name the run-time library), whatever language the FIRST source of whichever library has
LANGS = {'c': (['n%d.c'], ['c']), 'cxx': (['n%d.cpp'], ['c++']),
         'c+cxx': (['n%d.c', 'n%d_rt.cpp'], ['c', 'c++']), 'cxx+c': (['n%d_rt.cpp', 'n%d.c'], ['c', 'c++'])}
LANG_DRAW = ['c', 'c', 'c', 'cxx', 'c+cxx', 'c+cxx', 'cxx+c']


def rt_value(i):
    """what the C++ part of node i contributes to its value"""
    return (5 + i) + 2


def env_syslibs(env):
    """the system libraries that the LDLIBS of a configure environment names"""
    return [w[2:] for w in env.get('LDLIBS', '').split() if w.startswith('-l') and w[2:] in SYSLIBS]


# string ids on the wire: STR_POOL index | 50 + p: -Lpk<p> | 60 + p: pksym<p> | 1000 + k: k-th literal of the project


def pkg_strings(p):
    """the string part of the link options of W-stage package p (after its lib option): one single-token and one
    two-token option"""
    return ['-Lpk%d' % p, '-u', 'pksym%d' % p]


# ----------------------------------------------------------------------------- project generator
class Node:
    """lopts: list of (tag, id): (0, k) STR_POOL[k]; (1, k) option object k; (3, text) a literal token.
    feat (system-level projects only): what the link options of this node mean for its C sources, see make_feat."""
    __slots__ = ('kind', 'deps', 'lopts', 'pkgs', 'dir', 'uses', 'exe', 'feat', 'ver', 'lang')

    def __init__(self, kind, deps, lopts, pkgs, dir, uses, exe, feat=None, ver=None, lang=None):
        self.kind, self.deps, self.lopts, self.pkgs, self.dir, self.uses, self.exe = kind, deps, lopts, pkgs, dir, uses, exe
        self.feat = feat or {}
        # the languages of the node's own sources, in the order the script lists them: see LANGS
        self.lang = lang or 'c'
        assert self.lang in LANGS, self.lang
        # (version, soversion) of the shared library of the node (version=/soversion= of shared_library()/library()): the
        # library file is lib<name>.so.<version>, reached through the links lib<name>.so.<soversion> and lib<name>.so
        self.ver = tuple(ver) if ver else None

    def to_json(self):
        d = {k: getattr(self, k) for k in self.__slots__ if k not in ('feat', 'ver', 'lang')}
        if self.lang != 'c':
            d['lang'] = self.lang
        if self.feat:
            d['feat'] = self.feat
        if self.ver:
            d['ver'] = list(self.ver)
        return d

    @staticmethod
    def from_json(d):
        return Node(d['kind'], [tuple(x) for x in d['deps']], [tuple(x) for x in d['lopts']], d['pkgs'], d['dir'],
                    d['uses'], d['exe'], d.get('feat'), d.get('ver'), d.get('lang'))

    def sources(self, i):
        """the node's own source files in the order the script lists them (without the plugin objects of a system-level
        project, which come right after the main source)"""
        return [t % i for t in LANGS[self.lang][0]]

    def own_langs(self):
        """the languages (bfg9000's names) of the node's own sources"""
        return set(LANGS[self.lang][1])

    def opt_texts(self):
        """the link options as written in the build script: text for a string token, None for an option object"""
        return [STR_POOL[k] if t == 0 else (k if t == 3 else None) for t, k in self.lopts]

    def system_ok(self):
        """can be written out as a real project (no W-stage packages, strings only)"""
        return not self.pkgs and all(t in (0, 3) for t, _ in self.lopts)


class Project:
    """env (system-level projects only): flag variables of the configure environment, e.g. {'LDLIBS': '-lz -lm'};
    decoys (system-level only): [(dir, name)] - libraries of the project that no node links but that carry the NAME
    of a system library (z, m) and live in one of the output directories; they define the function of their system
    namesake with another result, see SYSLIBS."""

    def __init__(self, mode, nodes, env=None, decoys=None):
        self.mode, self.nodes = tuple(mode), nodes
        self.env = dict(env or {})
        self.decoys = [tuple(d) for d in (decoys or [])]

    def to_json(self):
        d = {'mode': list(self.mode), 'nodes': [n.to_json() for n in self.nodes]}
        if self.env:
            d['env'] = self.env
        if self.decoys:
            d['decoys'] = [list(x) for x in self.decoys]
        return d

    @staticmethod
    def from_json(d):
        return Project(d['mode'], [Node.from_json(n) for n in d['nodes']], d.get('env'), d.get('decoys'))

    def eff_kind(self, i):
        k = self.nodes[i].kind
        if k == 'default':
            sh, st = self.mode
            return 'dual' if sh and st else ('shared' if sh else 'static')
        return k

    def has_static(self, i):
        return self.eff_kind(i) in ('static', 'dual')

    def member_langs(self, i, consumer_static):
        """the languages a link step of node i has to cope with, from the script alone: those of its own sources, of the
        sources of every archive in its forwarding closure, and the language each shared library of the closure was linked
        as"""
        res = set(self.nodes[i].own_langs())
        for x in self.reachable(self.user_libs(i, consumer_static)):
            res |= {self.shared_lang(x // 3)} if x % 3 == 0 else self.nodes[x // 3].own_langs()
        return res

    def shared_lang(self, i):
        """the language of the driver that links the shared library (or executable) of node i"""
        return 'c++' if 'c++' in self.member_langs(i, False) else 'c'

    def needs_cxx_runtime(self, i):
        """does the dynamic link step of node i take in a C++ object (its own or a member of an archive of its closure)?"""
        return 'c++' in self.nodes[i].own_langs() or any(
            'c++' in self.nodes[x // 3].own_langs() for x in self.reachable(self.user_libs(i, False)) if x % 3 != 0)

    def ver_of(self, i):
        """(version, soversion) of the shared library that node i produces, None when it is not versioned (or when the
        node produces no shared library at all: version= of a library() that comes out static means nothing)"""
        n = self.nodes[i]
        return n.ver if (n.ver and not n.exe and self.eff_kind(i) in ('shared', 'dual')) else None

    def shared_files(self, i):
        """the file names that denote the shared library of node i in its output directory: the library file first,
        then the links to it (soname, link name)"""
        v = self.ver_of(i)
        if not v:
            return ['libn%d.so' % i]
        return ['libn%d.so.%s' % (i, v[0]), 'libn%d.so.%s' % (i, v[1]), 'libn%d.so' % i]

    def strtab(self):
        """the literal tokens of the project that are not in STR_POOL, in order of first occurrence"""
        tab = []
        for n in self.nodes:
            for t, k in n.lopts:
                if t == 3 and k not in STR_POOL and k not in tab:
                    tab.append(k)
        return tab

    def str_id(self, text):
        try:
            return self._str_id(text)
        except ValueError:
            return 999999          # a string no script of the project contains

    def _str_id(self, text):
        if text in STR_POOL:
            return STR_POOL.index(text)
        m = re.match(r'-Lpk(\d+)$', text)
        if m:
            return 50 + int(m.group(1))
        m = re.match(r'pksym(\d+)$', text)
        if m:
            return 60 + int(m.group(1))
        return 1000 + self.strtab().index(text)

    def str_text(self, i):
        if i >= 1000:
            return self.strtab()[i - 1000]
        if i >= 60:
            return 'pksym%d' % (i - 60)
        if i >= 50:
            return '-Lpk%d' % (i - 50)
        return STR_POOL[i]

    def wire(self):
        """The sx value the model takes (see GraphLinkTable.v)."""
        nodes = []
        for n in self.nodes:
            nodes.append([KINDS.index(n.kind), [[j, bool(w)] for j, w in n.deps],
                          [[0, self.str_id(i)] if t == 3 else [t, i] for t, i in n.lopts],
                          list(n.pkgs), [c for c in n.dir.split('/') if c], list(n.uses)])
        # a package's link options: its lib option (encoded as option object 100 + p), then strings
        pkgopts = [[p, [[1, 100 + p]] + [[0, self.str_id(t)] for t in pkg_strings(p)]] for p in range(N_PKG)]
        return [bool(self.mode[0]), bool(self.mode[1]), nodes, pkgopts]

    def text(self):
        return json.dumps(self.to_json(), sort_keys=True)

    # -- independent (Python-side) semantics used by the direct oracle: NOT the model
    def variant_for(self, j, whole, consumer_static):
        if whole:
            return 2
        k = self.eff_kind(j)
        if k == 'static':
            return 1
        if k == 'shared':
            return 0
        return 1 if consumer_static else 0

    def user_libs(self, n, consumer_static):
        return [3 * j + self.variant_for(j, w, consumer_static) for j, w in self.nodes[n].deps]

    def edges(self, lib):
        """forwarded edges out of a concrete library"""
        if lib % 3 == 0:
            return []
        return self.user_libs(lib // 3, True)

    def reachable(self, user):
        seen, todo = [], list(user)
        while todo:
            x = todo.pop()
            if x in seen:
                continue
            seen.append(x)
            todo.extend(self.edges(x))
        return sorted(seen)

    def forward_visits(self, user):
        """the forwarding libraries in the order (and as often as) a depth-first walk along forwarded edges meets
        them: once per path"""
        res = []
        for x in user:
            if x % 3 != 0:
                res.append(x)
                res.extend(self.forward_visits(self.edges(x)))
        return res

    def depth_of(self, user):
        """{library: length of the shortest forwarding path from the link step}"""
        depth, level, d = {}, list(user), 1
        while level:
            nxt = []
            for x in level:
                if x not in depth:
                    depth[x] = d
                    nxt.extend(self.edges(x))
            level, d = nxt, d + 1
        return depth


def make_feat(i, exe, spec, pkg=None):
    """The link options of node i of a system-level project and what they mean for its C sources.
    spec: list of (form, number)
      'u'   ['-u', P]                              P: a plugin function returning <number>; it is an object file of
      'xu'  ['-Xlinker', '-u', '-Xlinker', P]         its own in the library and the library code references it only
      'wu'  ['-Wl,-u,P']                              weakly, so only the option pulls it out of the archive
      'x'   ['-Xlinker', '--defsym', '-Xlinker', 'D=<number>']    D: an absolute symbol; the code of the node adds
      'w'   ['-Wl,--defsym=D=<number>']                              its value (0 when undefined: weak)
      'pthread' ['-pthread']
    pkg: (value, weight) - the node uses the package c14pk<i>, a local .pc file whose Libs: line defines a symbol
         (single token) and pulls in a plugin of the node (two tokens).
    Returns (lopts, feat); feat['groups'] are the options as token groups, in the order of lopts."""
    feat = {'plugs': [], 'xplugs': [], 'defs': [], 'force': [], 'groups': []}
    for c, (form, num) in enumerate(spec):
        if form in ('u', 'xu', 'wu'):
            name = 'pg%d_%d' % (i, c)
            feat['plugs'].append([name, num])
            g = {'u': ['-u', name], 'xu': ['-Xlinker', '-u', '-Xlinker', name], 'wu': ['-Wl,-u,' + name]}[form]
        elif form in ('x', 'w'):
            name = 'dv%d_%d' % (i, c)
            feat['defs'].append([name, num])
            g = ['-Xlinker', '--defsym', '-Xlinker', '%s=%d' % (name, num)] if form == 'x' else \
                ['-Wl,--defsym=%s=%d' % (name, num)]
        else:
            g = ['-pthread']
        feat['groups'].append(g)
    if pkg:
        feat['pkg'] = {'name': 'c14pk%d' % i, 'def': ['pkv%d' % i, pkg[0]], 'plug': ['pkp%d' % i, pkg[1]]}
    return [(3, t) for g in feat['groups'] for t in g], feat


def add_forced_plugin(libnode, j, i, lopts, feat, weight, xform):
    """executable i asks for a plugin of its static library j that the library does not forward itself"""
    name = 'xp%d_%d' % (j, i)
    libnode.feat.setdefault('xplugs', []).append([name, weight])
    g = ['-Xlinker', '-u', '-Xlinker', name] if xform else ['-u', name]
    feat['force'].append(name)
    feat['groups'].append(g)
    lopts.extend((3, t) for t in g)


def pkg_libs_tokens(pk):
    """the Libs: line of the local package of a system-level project, as tokens"""
    return ['-Wl,--defsym=%s=%d' % tuple(pk['def']), '-u', pk['plug'][0]]


def add_system_env(proj, rng, env, decoy_names):
    """Gives a system-level project a configure environment and project libraries named like system libraries.
    Every executable and every shared-only library calls one function of each system library that LDLIBS names (the
    global LDLIBS reach every dynamic link step).  Each decoy goes into the output directory of a shared library that an
    executable links directly when there is one (else of one some step links, else of any node): the directory a
    careless -L would name."""
    proj.env = dict(env)
    names = env_syslibs(env)
    for i, n in enumerate(proj.nodes):
        if names and (n.exe or proj.eff_kind(i) == 'shared'):
            n.feat = dict(n.feat or {})
            n.feat['sys'] = list(names)
    sh = [j for j in range(len(proj.nodes)) if not proj.nodes[j].exe and proj.eff_kind(j) in ('shared', 'dual')]
    direct = [j for j in sh if any(n.exe and any(d == j for d, _ in n.deps) for n in proj.nodes)]
    linked = [j for j in sh if any(any(d == j for d, _ in n.deps) for n in proj.nodes)]
    cands = direct or linked or list(range(len(proj.nodes)))
    proj.decoys = [(proj.nodes[rng.choice(cands)].dir, nm) for nm in decoy_names]


def gen_project(rng, rep=None, system=False, max_libs=7, mode=None, sysenv=None):
    """mode: the (shared, static) library mode; drawn when None.  sysenv: (flag variables of the configure environment,
    names of decoy libraries) of a system-level project"""
    nlibs = rng.randint(1, max_libs)
    nexe = rng.randint(1, 2)
    drawn = rng.choice(SYSTEM_MODES + ([] if system else [(False, False)]))
    mode = drawn if mode is None else tuple(mode)
    # the languages are drawn from a stream of their own (seeded by the state of the main one, which it leaves alone)
    lrng = random.Random(hash(rng.getstate()[1]))
    nodes = []
    whole_ok = {}
    for i in range(nlibs + nexe):
        exe = i >= nlibs
        kind = 'shared' if exe else rng.choice(KINDS)
        if mode == (False, False) and kind == 'default':
            kind = rng.choice(KINDS[:3])
        proj = Project(mode, nodes)
        cands = list(range(min(i, nlibs)))
        if cands and (exe or rng.random() < 0.85):
            k = rng.randint(1, min(len(cands), 4))
            chosen = rng.sample(cands, k)
        else:
            chosen = []
        if not system and chosen and rng.random() < 0.08:
            chosen.append(rng.choice(chosen))          # the same library listed twice
        deps = []
        for j in chosen:
            w = False
            if proj.has_static(j):
                if system:
                    # a library is consistently used whole or plain in one project (mixing both forms of one
                    # archive on one line is a multiple-definition error of the linker, outside the property)
                    if j not in whole_ok:
                        whole_ok[j] = rng.random() < 0.2
                    w = whole_ok[j]
                else:
                    w = rng.random() < 0.2
            deps.append((j, w))
        feat = None
        if system:
            spec = []
            if rng.random() < 0.75:
                forms = ['x', 'x', 'w', 'pthread'] if exe else ['u', 'u', 'u', 'xu', 'wu', 'x', 'x', 'w', 'pthread']
                spec = [(rng.choice(forms), rng.randint(1, 99)) for _ in range(rng.choice([1, 2, 2, 3]))]
            pkg = (rng.randint(1, 99), rng.randint(1, 99)) if rng.random() < 0.2 else None
            lopts, feat = make_feat(i, exe, spec, pkg)
            if exe:
                # -u given on the executable itself for a plugin that its library does not forward: only for a
                # static library whose code lives in executables only (in a shared library the weak reference
                # would be bound at load time, making the expected output depend on symbol export details)
                in_shared = set()
                for m, nd in enumerate(nodes):
                    if not nd.exe and proj.eff_kind(m) in ('shared', 'dual'):
                        in_shared.update(proj.reachable(proj.user_libs(m, False)))
                cands = [j for j, w in deps if not w and proj.eff_kind(j) == 'static' and not whole_ok.get(j) and
                         3 * j + 1 not in in_shared and 3 * j + 2 not in in_shared]
                if cands and rng.random() < 0.6:
                    j = rng.choice(cands)
                    add_forced_plugin(nodes[j], j, i, lopts, feat, rng.randint(1, 99), rng.random() < 0.5)
            pkgs = []
        else:
            lopts = []
            for _ in range(rng.choice([0, 0, 1, 2, 3])):
                if rng.random() < 0.7:
                    g = rng.choice(W_GROUPS)
                    lopts.extend((0, STR_POOL.index(t)) for t in g)
                    if rep is not None:
                        rep.count('link-option:%d-token' % len(g))
                else:
                    lopts.append((1, rng.randrange(N_OBJ)))
            pkgs = [rng.randrange(N_PKG) for _ in range(rng.choice([0, 0, 0, 1, 2]))]
        dset = sorted(set(j for j, _ in deps))
        uses = [j for j in dset if exe or rng.random() < 0.75]
        # versioned shared libraries (version=/soversion=), in every kind that can come out shared and in every directory
        ver = rng.choice(VERSIONS) if (not exe and kind != 'static' and rng.random() < 0.4) else None
        nodes.append(Node(kind, deps, lopts, pkgs, rng.choice(DIRS), uses, exe, feat, ver, lrng.choice(LANG_DRAW)))
    p = Project(mode, nodes)
    if system and sysenv is not None:
        add_system_env(p, rng, sysenv[0], sysenv[1])
    if rep is not None:
        rep.count('mode:shared=%d,static=%d' % mode)
        for n in nodes:
            rep.count('languages-of-%s:%s' % ('executable' if n.exe else 'library', n.lang))
            if not n.exe:
                rep.count('kind:' + n.kind)
            if any(w for _, w in n.deps):
                rep.count('links-with-whole-archive')
        for i in range(len(nodes)):
            if p.ver_of(i):
                rep.count('versioned-shared-library:' + ('top directory' if not nodes[i].dir else 'nested directory'))
        rep.count('libs:%d' % nlibs)
    return p


def string_runs(texts):
    """maximal runs of string tokens in a link_options list (None marks an option object)"""
    runs, cur = [], []
    for t in list(texts) + [None]:
        if t is None:
            if cur:
                runs.append(cur)
            cur = []
        else:
            cur.append(t)
    return runs


def has_block(hay, run):
    k = len(run)
    return any(hay[i:i + k] == run for i in range(len(hay) - k + 1))


def plain_before_whole(line):
    """libraries that are on a link line as plain archive and, later, as whole-archive"""
    return [l // 3 for l in line if l % 3 == 2 and l - 1 in line and line.index(l - 1) < line.index(l)]


CORPUS = [
    # DESIGN 7.7: static b; c -> {b}; a -> {b, c} (a's code uses c only); exe -> {a}
    {'mode': [True, False], 'nodes': [
        {'kind': 'static', 'deps': [], 'lopts': [], 'pkgs': [], 'dir': '', 'uses': [], 'exe': False},
        {'kind': 'static', 'deps': [[0, False]], 'lopts': [], 'pkgs': [], 'dir': '', 'uses': [0], 'exe': False},
        {'kind': 'static', 'deps': [[0, False], [1, False]], 'lopts': [], 'pkgs': [], 'dir': '', 'uses': [1], 'exe': False},
        {'kind': 'shared', 'deps': [[2, False]], 'lopts': [], 'pkgs': [], 'dir': '', 'uses': [2], 'exe': True}]},
    # the same through a shared library in another directory and a dual-use leaf
    {'mode': [True, True], 'nodes': [
        {'kind': 'dual', 'deps': [], 'lopts': [], 'pkgs': [], 'dir': 'lib/sub', 'uses': [], 'exe': False},
        {'kind': 'static', 'deps': [[0, False]], 'lopts': [[0, 0]], 'pkgs': [], 'dir': 'a/b', 'uses': [0], 'exe': False},
        {'kind': 'static', 'deps': [[0, False], [1, False]], 'lopts': [], 'pkgs': [], 'dir': 'a/z', 'uses': [1], 'exe': False},
        {'kind': 'shared', 'deps': [[2, False]], 'lopts': [], 'pkgs': [], 'dir': 'lib', 'uses': [2], 'exe': False},
        {'kind': 'shared', 'deps': [[3, False], [0, False]], 'lopts': [], 'pkgs': [], 'dir': 'bin', 'uses': [0, 3], 'exe': True}]},
    # long chain listed in reverse order plus a whole-archive
    {'mode': [False, True], 'nodes': [
        {'kind': 'default', 'deps': [], 'lopts': [], 'pkgs': [], 'dir': 'x.y', 'uses': [], 'exe': False},
        {'kind': 'default', 'deps': [[0, False]], 'lopts': [], 'pkgs': [], 'dir': '', 'uses': [0], 'exe': False},
        {'kind': 'default', 'deps': [[1, False], [0, False]], 'lopts': [], 'pkgs': [], 'dir': 'lib', 'uses': [1], 'exe': False},
        {'kind': 'static', 'deps': [[0, False], [2, False], [1, False]], 'lopts': [], 'pkgs': [], 'dir': 'a/b/c', 'uses': [2], 'exe': False},
        {'kind': 'shared', 'deps': [[3, True]], 'lopts': [], 'pkgs': [], 'dir': 'lib2', 'uses': [3], 'exe': False},
        {'kind': 'shared', 'deps': [[4, False]], 'lopts': [], 'pkgs': [], 'dir': 'bin', 'uses': [4], 'exe': True}]},
    # static a; static c -> {a}; static y -> {whole_archive(a)}; exe -> {c, y}: a is forwarded plain and whole
    {'mode': [True, False], 'nodes': [
        {'kind': 'static', 'deps': [], 'lopts': [], 'pkgs': [], 'dir': '', 'uses': [], 'exe': False},
        {'kind': 'static', 'deps': [[0, False]], 'lopts': [], 'pkgs': [], 'dir': '', 'uses': [0], 'exe': False},
        {'kind': 'static', 'deps': [[0, True]], 'lopts': [], 'pkgs': [], 'dir': '', 'uses': [0], 'exe': False},
        {'kind': 'shared', 'deps': [[1, False], [2, False]], 'lopts': [], 'pkgs': [], 'dir': '', 'uses': [1, 2], 'exe': True}]},
]


def _sysnode(i, kind, deps, dir, uses, exe=False, spec=(), pkg=None, ver=None, lang=None):
    lopts, feat = make_feat(i, exe, list(spec), pkg)
    return Node(kind, deps, lopts, [], dir, uses, exe, feat, ver, lang)


def system_corpus():
    """system-level corner cases for forwarded link options and packages (built by make_feat so that options
    and sources agree)"""
    res = []
    # two plugin archives, each forwarding -u SYM, below a static host (depth 2), plus a shared library elsewhere
    res.append(Project((True, False), [
        _sysnode(0, 'static', [], 'lib/sub', []),
        _sysnode(1, 'static', [(0, False)], 'a/b', [0], spec=[('u', 10)]),
        _sysnode(2, 'static', [(0, False)], 'a/z', [0], spec=[('u', 20)]),
        _sysnode(3, 'static', [(1, False), (2, False), (0, False)], 'lib', [0, 1, 2]),
        _sysnode(4, 'shared', [], 'lib2', []),
        _sysnode(5, 'shared', [(3, False), (4, False)], 'bin', [3, 4], exe=True)]))
    # -Xlinker --defsym -Xlinker N=V twice in one library, the library at the bottom of a diamond (depth 2, two
    # paths), another one in a sibling, and the same kind of option on the executable itself
    res.append(Project((False, True), [
        _sysnode(0, 'static', [], '', [], spec=[('x', 5), ('x', 7), ('u', 1)]),
        _sysnode(1, 'static', [(0, False)], 'a/b', [0]),
        _sysnode(2, 'default', [(0, False)], 'lib', [0], spec=[('x', 9), ('w', 3), ('xu', 2)]),
        _sysnode(3, 'shared', [(1, False), (2, False)], 'bin', [1, 2], exe=True, spec=[('x', 11), ('pthread', 0), ('w', 4)])]))
    # depth 3 chain into a shared library and into an executable; forwarded package at depth 2 and own package
    res.append(Project((True, True), [
        _sysnode(0, 'static', [], 'x.y', [], spec=[('xu', 4), ('u', 6)], pkg=(11, 13)),
        _sysnode(1, 'static', [(0, False)], 'a/b/c', [0], spec=[('wu', 8)]),
        _sysnode(2, 'static', [(1, False)], 'lib', [1], spec=[('u', 3), ('x', 2)]),
        _sysnode(3, 'shared', [(2, False)], 'lib2', [2], spec=[('u', 5)]),
        _sysnode(4, 'shared', [(2, False)], 'bin', [2], exe=True, pkg=(17, 19)),
        _sysnode(5, 'shared', [(3, False)], '', [3], exe=True, spec=[('x', 1)])]))
    # a plugin that only the executable asks for (own -u next to the forwarded one); a second executable does not
    nodes = [
        _sysnode(0, 'static', [], 'lib', [], spec=[('u', 7)]),
        _sysnode(1, 'static', [(0, False)], 'a/z', [0], spec=[('x', 3)]),
        _sysnode(2, 'shared', [(1, False), (0, False)], 'bin', [0, 1], exe=True, spec=[('x', 2)]),
        _sysnode(3, 'shared', [(0, False)], 'bin', [0], exe=True)]
    add_forced_plugin(nodes[0], 0, 2, nodes[2].lopts, nodes[2].feat, 40, False)
    res.append(Project((True, False), nodes))
    # the configure-environment dimension: system libraries asked for by name (LDLIBS) while the project has libraries
    # of its own that are called the same, in the directories of the shared libraries its programs link (directly and
    # through another shared library); one program links only archives
    p = Project((True, False), [
        _sysnode(0, 'shared', [], 'lib', []),
        _sysnode(1, 'static', [], 'a/b', [], spec=[('u', 5)]),
        _sysnode(2, 'shared', [(0, False)], 'lib/sub', [0]),
        _sysnode(3, 'shared', [(2, False), (1, False)], 'bin', [1, 2], exe=True, spec=[('x', 4)]),
        _sysnode(4, 'shared', [(0, False)], '', [0], exe=True),
        _sysnode(5, 'shared', [(1, False)], 'bin', [1], exe=True)])
    add_system_env(p, random.Random(0), {'LDLIBS': '-lz -lm'}, [])
    p.decoys = [('lib/sub', 'm'), ('lib', 'z'), ('', 'm')]
    res.append(p)
    # versioned shared libraries (file + soname link + link name) in the top directory and in nested ones, of every kind
    # that can come out shared, linked directly, through another versioned library, through an archive and whole-archived
    # into one; programs in other directories
    for mode in SYSTEM_MODES[:2]:
        res.append(Project(mode, [
            _sysnode(0, 'shared', [], 'a/b/c', [], ver=('1.2.3', '1')),
            _sysnode(1, 'shared', [(0, False)], '', [0], ver=('2.0', '2')),
            _sysnode(2, 'dual', [(0, False)], 'lib/sub', [0], ver=('0.9.1', '0'), spec=[('u', 4)]),
            _sysnode(3, 'static', [(1, False)], 'x.y', [1], spec=[('x', 8)]),
            _sysnode(4, 'default', [(3, True), (2, False)], 'lib', [2, 3], ver=('3.1.4', '3.1')),
            _sysnode(5, 'shared', [(4, False), (1, False)], 'bin', [1, 4], exe=True),
            _sysnode(6, 'shared', [(2, False), (3, False)], '', [2, 3], exe=True),
            _sysnode(7, 'shared', [(0, False)], 'a/b', [0], exe=True, spec=[('w', 5)])]))
    # the configure-mode dimension: one shape under every --enable/--disable-shared/static combination that can build
    # it.  Archives reach shared libraries in every way: listed plainly, forwarded by another archive, through a
    # library() whose kind the mode decides, through a dual-use library, and whole-archived
    for mode in SYSTEM_MODES:
        res.append(Project(mode, [
            _sysnode(0, 'static', [], 'lib', [], spec=[('u', 3)]),
            _sysnode(1, 'default', [(0, False)], 'a/b', [0]),
            _sysnode(2, 'shared', [(1, False), (0, False)], 'lib2', [0, 1], spec=[('x', 6)]),
            _sysnode(3, 'static', [], 'x.y', []),
            _sysnode(4, 'default', [(3, True)], '', [3]),
            _sysnode(5, 'dual', [(0, False)], 'a/z', [0]),
            _sysnode(6, 'shared', [(3, True), (5, False)], 'lib/sub', [3, 5]),
            _sysnode(7, 'shared', [(2, False), (4, False)], 'bin', [2, 4], exe=True),
            _sysnode(8, 'shared', [(6, False), (5, False)], '', [5, 6], exe=True, spec=[('w', 2)])]))
    # the language dimension: libraries of every kind whose sources mix C and C++ (in either listing order; the C++ part
    # needs the C++ run time), consumed directly, through chains of C-only archives and through shared libraries by
    # C-only and C++-only programs and shared libraries
    for mode in SYSTEM_MODES[:2]:
        res.append(Project(mode, [
            _sysnode(0, 'static', [], 'lib', [], lang='c+cxx', spec=[('u', 3)]),
            _sysnode(1, 'static', [(0, False)], 'a/b', [0]),
            _sysnode(2, 'static', [], 'x.y', [], lang='cxx+c'),
            _sysnode(3, 'shared', [], 'lib2', [], lang='c+cxx'),
            _sysnode(4, 'dual', [], 'a/z', [], lang='c+cxx'),
            _sysnode(5, 'static', [(1, False)], '', [1], spec=[('x', 4)]),
            _sysnode(6, 'shared', [(5, False)], 'lib/sub', [5]),
            _sysnode(7, 'default', [(2, False)], 'lib', [2], lang='cxx'),
            _sysnode(8, 'shared', [(0, False)], 'bin', [0], exe=True),
            _sysnode(9, 'shared', [(5, False)], '', [5], exe=True),
            _sysnode(10, 'shared', [(1, False), (3, False)], 'bin', [1, 3], exe=True, lang='cxx'),
            _sysnode(11, 'shared', [(6, False), (4, False)], 'a/b', [4, 6], exe=True),
            _sysnode(12, 'shared', [(2, False), (4, True)], 'x.y', [2, 4], exe=True),
            _sysnode(13, 'shared', [(7, False)], 'bin', [7], exe=True, lang='cxx+c')]))
    return res


def corpus_projects():
    """the inline corner cases plus every corpus/C14/*.json (minimised past disagreements)"""
    res = [Project.from_json(c) for c in CORPUS] + system_corpus()
    seen = set(p.text() for p in res)
    d = os.path.join(common.VERIF, 'corpus', 'C14')
    for fn in sorted(os.listdir(d)) if os.path.isdir(d) else []:
        if fn.endswith('.json'):
            pj = Project.from_json(json.load(open(os.path.join(d, fn)))['project'])
            if pj.text() not in seen:
                seen.add(pj.text())
                res.append(pj)
    return res


# ----------------------------------------------------------------------------- real objects in process
_ENVS = {}


def make_env(mode):
    """A real Environment (real toolchain detection: cc, ar, ld) as the unit tests of /repo make one."""
    if mode in _ENVS:
        return _ENVS[mode]
    from bfg9000.environment import Environment
    from bfg9000.path import abspath, InstallRoot
    env = Environment(abspath('bfgdir'), None, None, abspath('srcdir'), abspath('builddir'))
    env.finalize({InstallRoot.prefix: abspath('prefix')}, mode, False)
    _ENVS[mode] = env
    return env


def make_context(env):
    from bfg9000.builtins import builtin, compile, default, link, packages, project, install  # noqa: F401
    from bfg9000.build_inputs import BuildInputs
    from bfg9000.path import Path, Root
    build = BuildInputs(env, Path('build.bfg', Root.srcdir))
    context = builtin.BuildContext(env, build, None)
    context.path_stack.append(builtin.BuildContext.PathEntry(build.bfgpath))
    return build, context


def obj_options():
    from bfg9000 import options as opts
    return [opts.pthread(), opts.debug(), opts.static()]


class Real:
    """The real bfg9000 objects of a project: one entry per node (file object) and the link steps."""

    def __init__(self, proj):
        from bfg9000 import options as opts, file_types
        from bfg9000.packages import CommonPackage
        self.proj = proj
        env = make_env(proj.mode)
        self.env = env
        build, ctx = make_context(env)
        fmt = env.target_platform.object_format
        self.pkgs = [CommonPackage('pkg%d' % p, format=fmt,
                                   link_options=opts.option_list(opts.lib('pk%d' % p), *pkg_strings(p)))
                     for p in range(N_PKG)]
        oo = obj_options()
        self.objs = []
        self.steps = []       # (node, consumer_static, creator)
        self.path_ids = {}
        for i, n in enumerate(proj.nodes):
            # whole_archive() takes a static library; of a dual-use library its static half
            libs = [ctx['whole_archive'](ctx['static_library'](self.objs[j]) if proj.eff_kind(j) == 'dual'
                                         else self.objs[j]) if w else self.objs[j] for j, w in n.deps]
            lo = [STR_POOL[k] if t == 0 else (k if t == 3 else oo[k]) for t, k in n.lopts]
            kw = {'libs': libs, 'link_options': lo, 'packages': [self.pkgs[p] for p in n.pkgs]}
            name = posixpath.join(n.dir, 'n%d' % i)
            src = n.sources(i)
            if n.ver and not n.exe and n.kind != 'static':
                kw.update(version=n.ver[0], soversion=n.ver[1])
            if n.exe:
                o = ctx['executable'](name, src, **kw)
            elif n.kind == 'default':
                o = ctx['library'](name, src, **kw)
            elif n.kind == 'dual':
                o = ctx['library'](name, src, kind='dual', **kw)
            elif n.kind == 'static':
                o = ctx['static_library'](name, src, **kw)
            else:
                o = ctx['shared_library'](name, src, **kw)
            self.objs.append(o)
            for f in (o.all if isinstance(o, file_types.DualUseLibrary) else [o]):
                self.path_ids[f.path.suffix] = i
                # a versioned shared library is known by three names: what the builtin hands out is the link name, which
                # leads to the soname link, which leads to the file the link step makes
                while isinstance(f, file_types.LinkLibrary):
                    f = f.library
                    self.path_ids[f.path.suffix] = i
                self.steps.append((i, isinstance(f, file_types.StaticLibrary), f.creator, f))

    def archive(self, i):
        """the static library file of node i (of a dual-use library its static half)"""
        o = self.objs[i]
        return getattr(o, 'static', o)

    def lib_id(self, lib):
        t = type(lib).__name__
        v = {'SharedLibrary': 0, 'VersionedSharedLibrary': 0, 'LinkLibrary': 0, 'StaticLibrary': 1, 'WholeArchive': 2}[t]
        return 3 * self.path_ids[lib.path.suffix] + v

    def enc_opt(self, o):
        from bfg9000 import options as opts, file_types
        if isinstance(o, str):
            return (0, self.proj.str_id(o))
        if isinstance(o, opts.lib):
            if isinstance(o.library, str):
                return (1, 100 + int(o.library[2:]))
            return (2, self.lib_id(o.library))
        for k, x in enumerate(obj_options()):
            if o == x:
                return (1, k)
        raise ValueError('unexpected option %r' % (o,))


def flag_text(f):
    """a flag of linker.flags()/lib_flags() as text; paths as builddir-relative suffixes"""
    from bfg9000 import safe_str
    from bfg9000.path import BasePath
    if isinstance(f, str):
        return f
    if isinstance(f, BasePath):
        return 'PATH:' + f.suffix
    if isinstance(f, safe_str.jbos):
        return ''.join(flag_text(b) for b in f.bits)
    if isinstance(f, safe_str.literal_types):
        return f.string
    if hasattr(f, 'path'):
        return 'PATH:' + f.path.suffix
    raise TypeError(type(f))


def detect_fixed():
    """Which variant of Link.__init__ does the implementation have?  Probe with the 7.7 witness."""
    r = Real(Project.from_json(CORPUS[0]))
    from bfg9000 import options as opts
    c = r.steps[-1][2]
    line = [r.lib_id(o.library) for o in c.options if isinstance(o, opts.lib)]
    a, b, cc = 3 * 2 + 1, 1, 3 * 1 + 1
    if line == [a, cc, b]:
        return True, line
    if line == [a, b, cc]:
        return False, line
    return None, line


# ----------------------------------------------------------------------------- stage W: real builtins vs model
def dec(name, r):
    if name in ('link.recurse_libs', 'link.libs', 'link.final_libs', 'link.pkgs'):
        return d_opt(lambda x: list(x), r)
    if name in ('link.final_opts', 'link.opt_flags'):
        return d_opt(lambda x: [tuple(o) for o in x], r)
    if name == 'link.lib_flags':
        return [tuple(t) for t in r]
    if name == 'link.rpaths':
        return d_opt(lambda x: d_list(d_str, x), r)
    if name in ('ld.links',):
        return d_bool(r)
    if name in ('dedup.first', 'dedup.last'):
        return list(r)
    if name == 'rpath.relpath':
        return d_list(d_str, r)
    if name in ('rpath.local', 'rpath.join'):
        return d_str(r)
    if name == 'rpath.ldso_dir':
        return d_opt(lambda x: d_list(d_str, x), r)
    raise KeyError(name)


def impl_step_values(real, fixed, step):
    """Everything observable of one real link step, in the canonical form the model is decoded to."""
    from bfg9000 import options as opts
    n, cs, c, out = step
    vals = {}
    vals['link.recurse_libs'] = [real.lib_id(l) for l in opts.ForwardOptions.recurse(c.user_libs).libs]
    vals['link.libs'] = [real.lib_id(l) for l in c.libs]
    vals['link.pkgs'] = [int(p.name[3:]) for p in c.packages]
    if not cs:
        o = list(c.options)
        vals['link.final_opts'] = [real.enc_opt(x) for x in o]
        vals['link.final_libs'] = [real.lib_id(x.library) for x in o if isinstance(x, opts.lib) and
                                   not isinstance(x.library, str)]
        toks = []
        for f in c.lib_flags():
            t = flag_text(f)
            if t == '-Wl,--whole-archive':
                toks.append((1,))
            elif t == '-Wl,--no-whole-archive':
                toks.append((2,))
            elif t.startswith('PATH:'):
                toks.append(('p', t[5:]))
            else:
                toks.append(('other', t))
        vals['lib_flags_raw'] = toks
        fl = [flag_text(f) for f in c.flags()]
        rp = [f for f in fl if f.startswith('-Wl,-rpath,')]
        # the option part of the argv: everything CcLinker.flags emits before the rpath and soname flags
        vals['link.opt_flags'] = [f for f in fl if not f.startswith(('-Wl,-rpath,', '-Wl,-rpath-link,', '-Wl,-soname,'))]
        vals['rpath_flag'] = rp[0][len('-Wl,-rpath,'):] if rp else None
        vals['n_rpath_flags'] = len(rp)
        vals['soname'] = [f for f in fl if f.startswith('-Wl,-soname,')]
    return vals


def stage_w_links(rep, rng, fixed, projects):
    calls, impl, meta = [], [], []
    for proj in projects:
        real = Real(proj)
        w = proj.wire()
        for step in real.steps:
            n, cs, c, out = step
            v = impl_step_values(real, fixed, step)
            forwarded = any(l % 3 != 0 for l in proj.user_libs(n, cs))
            rep.case('w:%s:%d:%d' % (proj.text(), n, cs), forwarded)
            rep.count('step:static' if cs else 'step:dynamic')
            if len(v['link.recurse_libs']) != len(set(v['link.recurse_libs'])):
                rep.count('step-with-diamond')
            for name in ('link.recurse_libs', 'link.libs', 'link.pkgs'):
                calls.append((name, [w, fixed, n, cs])); impl.append(v[name]); meta.append((proj, n, cs))
            if not cs:
                for name in ('link.final_opts', 'link.final_libs'):
                    calls.append((name, [w, fixed, n, cs])); impl.append(v[name]); meta.append((proj, n, cs))
                calls.append(('link.opt_flags', [w, fixed, n])); impl.append(v['link.opt_flags']); meta.append((proj, n, cs))
                # lib_flags: tokens over the final libs
                exp = []
                for t in v['lib_flags_raw']:
                    if t[0] == 'p':
                        exp.append((0, None, t[1]))
                    elif t[0] in (1, 2):
                        exp.append((t[0],))
                    else:
                        exp.append(t)
                # attach ids to path tokens through the final libs (paths in order)
                ids = [l for l in v['link.final_libs']]
                paths = [e for e in exp if e[0] == 0]
                ok_paths = len(paths) == len(ids) and all(
                    real.path_ids.get(p[2]) == l // 3 and p[2].endswith('.so' if l % 3 == 0 else '.a')
                    for p, l in zip(paths, ids))
                it = iter(ids)
                toks = [((0, next(it)) if e[0] == 0 else e) for e in exp] if ok_paths else [('bad-paths',)] + exp
                pk = [('other', '-lpk%d' % p) for p in v['link.pkgs']]
                # package lib options (-lpkN) come from lib(str) options: not part of the modelled tokens
                toks = [t for t in toks if t[0] != 'other' or t not in pk]
                calls.append(('link.lib_flags', [ids])); impl.append(toks); meta.append((proj, n, cs))
                calls.append(('link.rpaths', [w, fixed, n])); impl.append(
                    None if v['rpath_flag'] is None else v['rpath_flag']); meta.append((proj, n, cs))
    raw = common.model_batch(calls)
    dis = []
    for i, ((name, arg), r, iv) in enumerate(zip(calls, raw, impl)):
        mv = dec(name, r)
        if name == 'link.rpaths':
            mv = None if not mv else ':'.join(mv)
        if name == 'link.opt_flags' and mv is not None:
            # model tokens as text; the lib option of a package (encoded as option object >= 100) is no flag: it
            # goes to lib_flags as -lNAME
            pj = meta[i][0]
            mv = [pj.str_text(k) if t == 0 else OBJ_FLAG[k] for t, k in mv if not (t == 1 and k >= 100)]
        if mv != iv:
            dis.append((i, (name, arg), iv, mv))
    n, ok, detail = common.vm_crosscheck(calls, raw, limit=60)
    rep.stage('W:link', cases=len(calls), projects=len(projects), disagreements=len(dis), vm_compute_rechecked=n,
              vm_agrees=ok, variant='fixed (last occurrence kept)' if fixed else 'first occurrence kept')
    if not ok:
        rep.fail('extraction glue: ' + detail, {'obligation': 'vm_compute == extracted model', 'detail': detail},
                 found_input=False)
    for c in calls[:2]:
        rep.sample({'stage': 'W:link', 'call': c[0], 'arg': c[1]})
    return dis


def stage_w_rpath(rep, rng, n):
    """BasePath.relpath(prefix=$ORIGIN) / patchelf.local_rpath and the dedupe helpers vs the model;
    ldso_dir vs posixpath.normpath."""
    from bfg9000.path import Path, Root
    from bfg9000.tools import patchelf
    from bfg9000 import file_types
    env = make_env((True, False))
    names = ['a', 'b', 'c', 'lib', 'x.y', '...', '..a', 'a..', '$ORIGIN', 'é', 'a b']
    calls, impl = [], []

    def comps():
        return [rng.choice(names) for _ in range(rng.choice([0, 1, 1, 2, 2, 3, 4]))]
    pairs = [([], []), (['a'], ['a']), (['a'], []), ([], ['a']), (['a', 'b'], ['a', 'c']), (['a'], ['a', 'b'])]
    while len(pairs) < n:
        l, o = comps(), comps()
        if rng.random() < 0.4 and l:
            k = rng.randint(0, len(l))
            o = l[:k] + o
        pairs.append((l, o))
    for l, o in pairs:
        rep.case('rp:%r:%r' % (l, o), bool(l or o))
        libf = file_types.SharedLibrary(Path('/'.join(l + ['libz.so'])), 'elf', 'c')
        outf = file_types.Executable(Path('/'.join(o + ['prog'])), 'elf', 'c')
        iv = patchelf.local_rpath(env, libf, outf)
        iv = iv if isinstance(iv, str) else 'NOT-A-STRING:' + flag_text(iv)
        calls.append(('rpath.local', [l, o])); impl.append(iv)
        lp, op = Path('/'.join(l) or '.'), Path('/'.join(o) or '.')
        calls.append(('rpath.local', [l, o])); impl.append(lp.relpath(op, prefix='$ORIGIN'))
        rel = lp.relpath(op)
        calls.append(('rpath.relpath', [l, o])); impl.append([] if rel == '.' else rel.split('/'))
        root = ['r', 'q']
        if iv.startswith('$ORIGIN'):
            # the loader model against posixpath.normpath on the implementation's own string
            calls.append(('rpath.ldso_dir', [root + o, iv]))
            impl.append([c for c in posixpath.normpath('/' + '/'.join(root + o) + iv[len('$ORIGIN'):]).split('/') if c])
    for _ in range(n):
        l = [rng.randrange(5) for _ in range(rng.randint(0, 7))]
        calls.append(('dedup.first', [l])); impl.append(list(dict.fromkeys(l)))
        calls.append(('dedup.last', [l])); impl.append([x for i, x in enumerate(l) if x not in l[i + 1:]])
    calls.append(('rpath.ldso_dir', [['b'], '/abs/lib'])); impl.append(None)
    return common.compare_model(rep, 'W:rpath', calls, impl, dec, vm_limit=60)


LANG_IDS = {'c': 0, 'c++': 1, 'objc': 2, 'objc++': 3, 'f77': 4, 'f95': 5, 'java': 6}


def lang_id(x):
    """a language name on the wire (Graph/LinkLangs.v); 7.. are names the cc linkers do not know"""
    return LANG_IDS.get(x, 7 + (sum(map(ord, str(x))) % 3))


def stage_w_langs(rep, rng, projects):
    """The language bookkeeping of the real link steps against Graph/LinkLangs.v: input_langs of every step, the
    languages the archive file object is given (ArLinker.output_file), the driver language and the language the linked
    binary is given (Link.__find_linker, CcLinker.output_file), and CcLinker.can_link of the real C and C++ linkers on
    drawn language lists."""
    from bfg9000.iterutils import iterate
    calls, impl = [], []
    for proj in projects:
        real = Real(proj)
        for n, cs, c, out in real.steps:
            own = [lang_id(f.lang) for f in c.files if f.lang is not None]
            libs = [[lang_id(j) for j in iterate(l.lang)] for l in c.libs]
            rep.case('langs:%r:%r:%d' % (own, libs, cs), len(set(own + [j for l in libs for j in l])) > 1)
            calls.append(('link.input_langs', [own, libs])); impl.append([lang_id(x) for x in c.input_langs])
            if cs:
                calls.append(('link.input_langs', [own, libs])); impl.append([lang_id(x) for x in iterate(out.lang)])
            else:
                calls.append(('link.driver', [own, libs])); impl.append(lang_id(c.linker.lang))
                calls.append(('link.driver', [own, libs])); impl.append(
                    lang_id(out.lang) if isinstance(out.lang, str) else ['not-one-language', repr(out.lang)])
    env = make_env((True, False))
    fmt = env.target_platform.object_format
    names = ['c', 'c', 'c++', 'c++', 'objc', 'objc++', 'f77', 'f95', 'java', 'rc', 'yacc', 'lex']
    for drv in ('c', 'c++'):
        linker = env.builder(drv).linker('executable')
        for _ in range(40):
            ls = [rng.choice(names) for _ in range(rng.choice([0, 1, 1, 2, 2, 3, 4]))]
            calls.append(('link.can_link', [lang_id(drv), [lang_id(x) for x in ls]]))
            impl.append(bool(linker.can_link(fmt, ls)))

    def dec_l(name, r):
        if name == 'link.input_langs':
            return list(r)
        if name == 'link.driver':
            return d_opt(lambda x: x, r)
        return d_bool(r)
    return common.compare_model(rep, 'W:langs', calls, impl, dec_l, vm_limit=60)


# ----------------------------------------------------------------------------- direct oracle on the implementation
def classify(proj, fixed, kind):
    """finding classes of a failing project: predicates on the input and on the detected variant"""
    cl = []
    if kind == 'order' and fixed is False:
        cl.append(FINDING_ORDER)
    if kind == 'whole-plain':
        cl.append(FINDING_WHOLE_PLAIN)
    return tuple(cl)


def oracle_langs(rep, proj, fixed, n, cs, c, out):
    """Languages.  What a library file says about its languages is what every consumer's choice of link driver rests
    on: an archive stands for the languages of ALL its members' sources and of everything it forwards (in whatever order
    the script lists the sources), a linked binary for the language of the driver that linked it; and a link step that
    takes in a C++ object - its own or a member of an archive anywhere in its closure - is done by the C++ driver or
    names the C++ run-time library.  Expected values from the script alone."""
    from bfg9000.iterutils import iterate
    bad = 0
    got = sorted(set(iterate(out.lang)))
    want = sorted(proj.member_langs(n, True)) if cs else [proj.shared_lang(n)]
    rep.count('oracle:languages-of-%s:%s' % ('archive' if cs else 'linked binary', '+'.join(want)))
    if got != want:
        bad += 1
        rep.fail('%s n%d (own sources %r, listed in this order; closure %r): the file object %s says its languages are %r, '
                 'the sources that go into it%s are written in %r' % (
                     'static library' if cs else 'link of', n, proj.nodes[n].sources(n),
                     proj.reachable(proj.user_libs(n, cs)), out.path.suffix, out.lang,
                     ' and the libraries it forwards' if cs else ' (driver language)', want),
                 {'project': proj.to_json(), 'node': n, 'kind': 'langs', 'static': bool(cs), 'got': got, 'want': want},
                 classes=classify(proj, fixed, 'langs'))
    if not cs and proj.needs_cxx_runtime(n):
        byname = [flag_text(f) for f in c.lib_flags() if isinstance(flag_text(f), str)]
        rep.count('oracle:link-step-taking-in-c++-objects:' + ('own' if 'c++' in proj.nodes[n].own_langs() else
                                                                 'through archives only'))
        if c.linker.lang != 'c++' and '-lstdc++' not in byname:
            bad += 1
            rep.fail('link of n%d takes in C++ objects (own sources %r; archives of its closure with C++ sources: %r) but is '
                     'done by the %r driver %r without -lstdc++ (library flags %r): undefined references to the C++ run time' % (
                         n, proj.nodes[n].sources(n),
                         ['n%d %r' % (x // 3, proj.nodes[x // 3].sources(x // 3))
                          for x in proj.reachable(proj.user_libs(n, False))
                          if x % 3 != 0 and 'c++' in proj.nodes[x // 3].own_langs()],
                         c.linker.lang, getattr(c.linker, 'command', None) and [str(w) for w in c.linker.command], byname),
                     {'project': proj.to_json(), 'node': n, 'kind': 'langs-driver', 'driver': c.linker.lang},
                     classes=classify(proj, fixed, 'langs'))
    return bad


def oracle_project(rep, proj, fixed):
    """The property itself on the real objects, without the model: closure, order, forwarded options,
    relative rpaths that resolve.  Returns number of failures."""
    from bfg9000 import options as opts
    bad = 0
    real = Real(proj)
    for n, cs, c, out in real.steps:
        user = proj.user_libs(n, cs)
        bad += oracle_langs(rep, proj, fixed, n, cs, c, out)
        reach = proj.reachable(user)
        if cs:
            got = sorted(set(real.lib_id(l) for l in c.libs))
            if got != reach:
                bad += 1
                rep.fail('static library n%d: libs %r is not the forwarding closure %r' % (n, got, reach),
                         {'project': proj.to_json(), 'node': n, 'kind': 'closure'}, classes=classify(proj, fixed, 'closure'))
            continue
        o = list(c.options)
        line = [real.lib_id(x.library) for x in o if isinstance(x, opts.lib) and not isinstance(x.library, str)]
        if sorted(line) != reach:
            bad += 1
            rep.fail('link of n%d: line %r is not exactly the closure %r' % (n, line, reach),
                     {'project': proj.to_json(), 'node': n, 'kind': 'closure', 'line': line},
                     classes=classify(proj, fixed, 'closure'))
            continue
        for j in plain_before_whole(line):
            if any(j in nd.uses for nd in proj.nodes):
                bad += 1
                rep.fail('link of n%d: library n%d is on the line as plain archive and later as whole-archive %r: '
                         'multiple definition' % (n, j, line),
                         {'project': proj.to_json(), 'node': n, 'kind': 'whole-plain', 'line': line},
                         classes=classify(proj, fixed, 'whole-plain'))
        for x in line:
            for y in proj.edges(x):
                if line.index(y) < line.index(x):
                    bad += 1
                    rep.fail('link of n%d: library %d needs %d but comes after it on the line %r' % (n, x, y, line),
                             {'project': proj.to_json(), 'node': n, 'kind': 'order', 'line': line},
                             classes=classify(proj, fixed, 'order'))
        enc = [real.enc_opt(x) for x in o]
        if not proj.nodes[n].exe:
            # a shared library takes in the objects of every archive on its line: they (and its own objects) must be
            # compiled as position-independent code, under every library mode
            from bfg9000 import file_types
            members = [(n, out)] + [(x // 3, real.archive(x // 3)) for x in reach if x % 3 != 0]
            nopic = []
            for j, f in members:
                for obj in (f.creator.files if not nopic else []):
                    cflags = [flag_text(fl_) for fl_ in obj.creator.compiler.flags(obj.creator.options, mode='normal')] \
                        if isinstance(obj, file_types.ObjectFile) and obj.creator else ['-fPIC']
                    rep.count('oracle:pic-object:mode=%d,%d' % proj.mode)
                    if not any(fl_ in ('-fPIC', '-fpic') for fl_ in cflags):
                        bad += 1
                        nopic.append(obj)          # one report per link step
                        rep.fail('shared library n%d (library mode shared=%s static=%s) links the objects of %s n%d, but '
                                 '%s is compiled without -fPIC: %r' % (n, proj.mode[0], proj.mode[1],
                                                                      'its own node' if j == n else 'archive', j,
                                                                      obj.path.suffix, cflags),
                                 {'project': proj.to_json(), 'node': n, 'kind': 'pic', 'archive': j, 'flags': cflags},
                                 classes=classify(proj, fixed, 'pic'))
                        break
        for x in reach:
            if x % 3 == 0:
                continue
            nd = proj.nodes[x // 3]
            want = [(0, proj.str_id(i)) if t == 3 else (t, i) for t, i in nd.lopts] + \
                   [q for p in nd.pkgs for q in [(1, 100 + p)] + [(0, proj.str_id(s)) for s in pkg_strings(p)]]
            for w in want:
                if w not in enc:
                    bad += 1
                    rep.fail('link of n%d: option %r forwarded by library %d is missing' % (n, w, x),
                             {'project': proj.to_json(), 'node': n, 'kind': 'options'},
                             classes=classify(proj, fixed, 'options'))
        fl = [flag_text(f) for f in c.flags()]
        # library search directories.  A project library reaches the linker by its path; a -L<dir of the build tree> is
        # justified only by a library of that directory that the line names with -l.  Any other one makes every request by
        # name on the line (LDLIBS, packages, the language run time) look into the project's own output directories first
        byname = set(flag_text(f) for f in c.lib_flags() if flag_text(f).startswith('-l'))
        justified = set()
        for x in o:
            if isinstance(x, opts.lib) and not isinstance(x.library, str):
                base = posixpath.basename(x.library.path.suffix)
                m = re.match(r'lib(.+)\.(?:so|a)$', base)
                if m and '-l' + m.group(1) in byname:
                    justified.add(posixpath.dirname(x.library.path.suffix))
        rep.count('oracle:link-steps-checked-for-search-dirs')
        strayL = [f for f in fl if f.startswith('-LPATH:') and f[len('-LPATH:'):].rstrip('/') not in justified]
        if strayL:
            rep.count('oracle:link-steps-with-unjustified-search-dir')
        if strayL and rep.hist.get('oracle:link-steps-with-unjustified-search-dir', 0) <= 6:
            # (a handful of reports; the rest is counted - the system stage shows the consequence)
            bad += 1
            rep.fail('link of n%d: the flags carry the search directories %r of the build tree, but every library of those '
                     'directories is on the line by its path (%r): a library asked for by name would be looked up among the '
                     "project's outputs first" % (n, [f[len('-LPATH:'):] or '.' for f in strayL],
                                                  [flag_text(f) for f in c.lib_flags()]),
                     {'project': proj.to_json(), 'node': n, 'kind': 'search-dir', 'flags': fl},
                     classes=classify(proj, fixed, 'search-dir'))
        # token level.  Every run of string tokens of the link options of a reachable forwarding library, of an own
        # or forwarded package and of the link step itself is a contiguous block, tokens in order, of the final
        # option list and of the flags handed to the linker (a multi-token option such as -u SYM must not be torn
        # apart or lose a token that also occurs elsewhere)
        ostr = [x if isinstance(x, str) else None for x in o]
        own = proj.nodes[n]
        sources = [('its own link options', own.opt_texts())] + \
                  [('its package %d' % p, pkg_strings(p)) for p in own.pkgs]
        for x in reach:
            if x % 3 != 0:
                nd = proj.nodes[x // 3]
                sources.append(('library %d (forwarded)' % x, nd.opt_texts()))
                sources.extend(('package %d forwarded by library %d' % (p, x), pkg_strings(p)) for p in nd.pkgs)
        torn = [(who, run, where, hay) for who, texts in sources for run in string_runs(texts)
                for where, hay in (('option list', ostr), ('linker flags', fl)) if not has_block(hay, run)]
        if torn:
            who, run, where, hay = torn[0]       # one report per link step
            bad += 1
            rep.fail('link of n%d: the tokens %r of %s are not a contiguous block of the final %s %r (%d such '
                     'blocks in this step)' % (n, run, who, where, [h for h in hay if h is not None], len(torn)),
                     {'project': proj.to_json(), 'node': n, 'kind': 'option-tokens', 'tokens': run,
                      'from': who, where: hay}, classes=classify(proj, fixed, 'options'))
        # the exact law on the unchanged code: option_list never de-duplicates strings - the string elements of the
        # final option list are those of the packages (own, then forwarded in visit order), of every visit of
        # ForwardOptions.recurse (once per path) and of the step itself, in this order with multiplicity
        visits = proj.forward_visits(user)
        exp = [s for p in list(own.pkgs) + [p for x in visits for p in proj.nodes[x // 3].pkgs] for s in pkg_strings(p)]
        exp += [t for x in visits for t in proj.nodes[x // 3].opt_texts() if t is not None]
        exp += [t for t in own.opt_texts() if t is not None]
        got = [x for x in o if isinstance(x, str)]
        if got != exp and not torn and not getattr(rep, 'c14_law', None):
            # every option is still complete somewhere on the line: a different multiplicity or order, not a lost
            # option - a broken obligation, not a failing input; reported by the driver when the run finds no
            # failing input (like a broken correspondence)
            rep.c14_law = ('link of n%d: the string options of the final option list are %r, the law (no '
                           'de-duplication of strings, one copy per forwarding path) gives %r' % (n, got, exp),
                           {'obligation': 'law:strings-kept-with-multiplicity', 'project': proj.to_json(), 'node': n,
                            'got': got, 'expected': exp})
        rp = [f[len('-Wl,-rpath,'):] for f in fl if f.startswith('-Wl,-rpath,')]
        entries = rp[0].split(':') if rp else []
        outdir = proj.nodes[n].dir
        found = set()
        for e in entries:
            if not (e == '$ORIGIN' or e.startswith('$ORIGIN/')):
                bad += 1
                rep.fail('link of n%d: rpath entry %r is not $ORIGIN-relative' % (n, e),
                         {'project': proj.to_json(), 'node': n, 'kind': 'rpath'}, classes=classify(proj, fixed, 'rpath'))
                continue
            for root in ('/r1/build', '/elsewhere/x/y/z'):
                d = posixpath.normpath(posixpath.join(root, outdir) + e[len('$ORIGIN'):])
                found.add((root, d))
        for x in line:
            if x % 3 == 0:
                for root in ('/r1/build', '/elsewhere/x/y/z'):
                    want = posixpath.normpath(posixpath.join(root, proj.nodes[x // 3].dir))
                    if (root, want) not in found:
                        bad += 1
                        rep.fail('link of n%d: no rpath entry leads to the directory of shared library %d (%s)' % (
                            n, x, want), {'project': proj.to_json(), 'node': n, 'kind': 'rpath', 'entries': entries},
                            classes=classify(proj, fixed, 'rpath'))
        so = [f for f in fl if f.startswith('-Wl,-soname,')]
        # (of a versioned library the soname is the name of the soversion link)
        if not proj.nodes[n].exe and (len(so) != 1 or so[0] != '-Wl,-soname,' + proj.shared_files(n)[-2:][0]):
            bad += 1
            rep.fail('shared library n%d: soname flag %r is not the bare file name' % (n, so),
                     {'project': proj.to_json(), 'node': n, 'kind': 'soname'}, classes=classify(proj, fixed, 'soname'))
    return bad


# ----------------------------------------------------------------------------- system level
def value_of(proj, i, memo, forced=()):
    """what f<i>() returns / executable i prints: its own number, three times the sum of what it uses, every
    plugin its link options (or its package) pull in, every defsym value, and the plugins in `forced` (those the
    running executable asked for itself)"""
    if i not in memo:
        n = proj.nodes[i]
        ft = n.feat
        v = (i + 1) + 3 * sum(value_of(proj, j, memo, forced) for j in n.uses)
        v += sum(w for _, w in ft.get('plugs', []))
        v += sum(w for name, w in ft.get('xplugs', []) if name in forced)
        v += sum(val for _, val in ft.get('defs', []))
        if n.lang != 'c':
            v += rt_value(i)
        if ft.get('pkg'):
            v += ft['pkg']['def'][1] + ft['pkg']['plug'][1]
        memo[i] = v
    return memo[i]


MOPACK_STUB = ('#!/bin/sh\n# stand-in for `mopack linkage --json NAME` (mopack is not installable here): resolve NAME\n'
               '# through pkg-config in the directory of the local .pc files\nfor a; do n=$a; done\n'
               'printf \'{"name": "%s", "type": "system", "pcnames": ["%s"], "pkg_config_path": ["%s"]}\\n\' '
               '"$n" "$n" "$C14_PCDIR"\n')


def write_project(proj, src):
    os.makedirs(src, exist_ok=True)
    lines = ['# generated by /verif harness/c14.py', "project('c14', '1.0')"]
    for i, n in enumerate(proj.nodes):
        ft = n.feat
        pk = ft.get('pkg')
        plugs = [(nm, w) for nm, w in ft.get('plugs', [])] + [(nm, w) for nm, w in ft.get('xplugs', [])]
        defs = [nm for nm, _ in ft.get('defs', [])]
        if pk:
            plugs.append(tuple(pk['plug']))
            defs.append(pk['def'][0])
        cxx_main = n.lang == 'cxx'            # the main source itself is C++
        incs = '#include <stdio.h>\n' if n.exe else ''
        protos = ''.join('long long f%d(void);\n' % j for j in n.uses)
        # a plugin is referenced weakly: nothing but the link option pulls its object out of the archive
        protos += ''.join('extern long long %s(void) __attribute__((weak));\n' % nm for nm, _ in plugs)
        # the value of an absolute symbol, read through a data relocation (right in PIE, non-PIE and shared
        # objects); 0 when nothing defines it
        protos += ''.join('extern char %s[] __attribute__((weak));\nstatic char *volatile q_%s = %s;\n' % (nm, nm, nm)
                          for nm in defs)
        terms = ['3 * (%s)' % (' + '.join('f%d()' % j for j in n.uses) or '0')]
        terms += ['(%s ? %s() : 0)' % (nm, nm) for nm, _ in plugs]
        terms += ['(long long)(long)q_%s' % nm for nm in defs]
        # a function of each system library that the configure environment asks for by name: 0 when the call reaches
        # the system library, far from 0 when it reaches a project library that merely has the same name
        for nm in ft.get('sys', []):
            hdr, decl, expr0, _ = SYSLIBS[nm]
            incs += '#include <%s>\n' % hdr
            protos += (decl % i if decl else '')
            terms.append(expr0 % i if '%d' in expr0 else expr0)
        # the C++ part of the node (a source of its own next to the C source, or the main source itself): it needs the
        # C++ run time - operator new/delete, std::string, a vtable, an exception thrown and caught
        rt_src = ''
        if n.lang != 'c':
            rt_src = ('#include <string>\n#include <stdexcept>\nnamespace {\nstruct Box%(i)d {\n    std::string s;\n'
                      '    explicit Box%(i)d(long long k) : s((std::string::size_type)k, \'x\') {}\n'
                      '    virtual ~Box%(i)d() {}\n'
                      '    virtual long long get() const { if (s.size() > 2) throw std::length_error("rt"); return -1000; }\n'
                      '};\n}\nstatic volatile long long rt%(i)d_seed = %(k)d;\n'
                      'extern "C" long long rt%(i)d(void) {\n    Box%(i)d *b = new Box%(i)d(rt%(i)d_seed);\n'
                      '    long long r = (long long)b->s.size();\n'
                      '    try { r += b->get(); } catch (const std::exception &e) { r += (long long)std::string(e.what()).size(); }\n'
                      '    delete b;\n    return r;\n}\n' % {'i': i, 'k': 5 + i})
            protos += 'long long rt%d(void);\n' % i
            terms.append('rt%d()' % i)
        # the code of a node refers to a global variable and a global function it defines itself (through the
        # variable's address as well): in a shared object such references need position-independent code, so the
        # objects of an archive that ends up in a shared library must have been compiled for that
        protos += ('long long own%d_state = %d;\nlong long *own%d_ptr = &own%d_state;\n'
                   'long long own%d(void) { return own%d_state + *own%d_ptr; }\n' % (i, i + 1, i, i, i, i, i))
        expr = '(own%d() - own%d_state) + %s' % (i, i, ' + '.join(terms))
        srcs = n.sources(i)
        main_name = [x for x in srcs if not x.endswith('_rt.cpp')][0]
        xo, xc = ('extern "C" {\n', '}\n') if cxx_main else ('', '')
        with open(os.path.join(src, main_name), 'w') as f:
            f.write(incs + (rt_src if cxx_main else '') + xo + protos)
            if n.exe:
                f.write('static long long value%d(void) { return %s; }\n%s'
                        'int main(void) { printf("%%lld\\n", (long long)value%d()); return 0; }\n' % (i, expr, xc, i))
            else:
                f.write('long long f%d(void) { return %s; }\n%s' % (i, expr, xc))
        if n.lang in ('c+cxx', 'cxx+c'):
            with open(os.path.join(src, 'n%d_rt.cpp' % i), 'w') as f:
                f.write(rt_src)
        plug_files = []
        for nm, w in plugs:
            plug_files.append('n%d_%s.%s' % (i, nm, 'cpp' if cxx_main else 'c'))
            with open(os.path.join(src, plug_files[-1]), 'w') as f:
                f.write('%slong long %s_state = %d;\nlong long %s(void) { return %s_state; }\n%s' % (xo, nm, w, nm, nm, xc))
        # the plugin objects come right after the main source
        k = srcs.index(main_name) + 1
        files = srcs[:k] + plug_files + srcs[k:]
        libs = ', '.join((('whole_archive(static_library(n%d))' if proj.eff_kind(j) == 'dual' else 'whole_archive(n%d)') % j)
                         if w else ('n%d' % j) for j, w in n.deps)
        name = posixpath.join(n.dir, 'n%d' % i)
        args = "'%s', files=%r, libs=[%s]" % (name, files, libs)
        if n.lopts:
            # (0, k) of the older corpus entries was always written as -pthread
            args += ", link_options=%r" % ['-pthread' if t == 0 else k for t, k in n.lopts]
        if pk:
            os.makedirs(os.path.join(src, 'pc'), exist_ok=True)
            with open(os.path.join(src, 'pc', pk['name'] + '.pc'), 'w') as f:
                f.write('Name: %s\nDescription: local package of node %d\nVersion: 1.0\nCflags: -DC14PK%d=1\n'
                        'Libs: %s\n' % (pk['name'], i, i, ' '.join(pkg_libs_tokens(pk))))
            lines.append("pk%d = package('%s')" % (i, pk['name']))
            args += ", packages=[pk%d]" % i
        if n.exe:
            lines.append('n%d = executable(%s)' % (i, args))
        else:
            fn = {'static': 'static_library', 'shared': 'shared_library', 'dual': 'library', 'default': 'library'}[n.kind]
            if n.kind == 'dual':
                args += ", kind='dual'"
            if n.ver and n.kind != 'static':
                args += ", version=%r, soversion=%r" % n.ver
            lines.append('n%d = %s(%s)' % (i, fn, args))
    for k, (ddir, nm) in enumerate(proj.decoys):
        with open(os.path.join(src, 'decoy_%s.c' % nm), 'w') as f:
            f.write(SYSLIBS[nm][3])
        lines.append("decoy%d = shared_library(%r, files=[%r])" % (k, posixpath.join(ddir, nm), 'decoy_%s.c' % nm))
    with open(os.path.join(src, 'build.bfg'), 'w') as f:
        f.write('\n'.join(lines) + '\n')


def sh(cmd, cwd, env, timeout=300):
    p = subprocess.run(cmd, cwd=cwd, env=env, capture_output=True, text=True, timeout=timeout)
    return p.returncode, p.stdout, p.stderr


def link_lines(make_n_output, proj):
    """{node: [tokens]} for every dynamic link command printed by make -n: library tokens in order"""
    res = {}
    for line in make_n_output.split('\n'):
        m = re.search(r' -o (\S+)\s*$', line.strip())
        if not m or ' -c ' in line:
            continue
        target = m.group(1).strip("'")
        mt = re.search(r'(?:lib)?n(\d+)(\.so(\.[-\w.]+)?)?$', posixpath.basename(target))
        if not mt:
            continue
        node = int(mt.group(1))
        toks = []
        whole = False
        for w in line.split():
            w = w.strip("'")
            if w == '-Wl,--whole-archive':
                whole = True
            elif w == '-Wl,--no-whole-archive':
                whole = False
            else:
                ml = re.match(r'(?:.*/)?libn(\d+)\.(a|so)$', w)
                if ml and w != target:
                    j = int(ml.group(1))
                    toks.append(3 * j + (0 if ml.group(2) == 'so' else (2 if whole else 1)))
        res[node] = toks
    return res


def link_argvs(make_n_output):
    """{node: argv} for every dynamic link command printed by make -n (words as the shell splits them)"""
    res = {}
    for line in make_n_output.split('\n'):
        m = re.search(r' -o (\S+)\s*$', line.strip())
        if not m or ' -c ' in line:
            continue
        mt = re.search(r'(?:lib)?n(\d+)(\.so(\.[-\w.]+)?)?$', posixpath.basename(m.group(1).strip("'")))
        if mt:
            try:
                res[int(mt.group(1))] = shlex.split(line)
            except ValueError:
                res[int(mt.group(1))] = line.split()
    return res


def option_groups(proj, n):
    """[(who, tokens)]: every link option (as the group of tokens the script passes) that the dynamic link of node
    n must carry: its own, those of its package, and those forwarded (with their packages) by every static or
    whole-archive library in its closure - computed from the script alone"""
    def of(nd, who):
        res = [(who, g) for g in nd.feat.get('groups', [])]
        if not nd.feat.get('groups'):
            res = [(who, ['-pthread' if t == 0 else k]) for t, k in nd.lopts]
        if nd.feat.get('pkg'):
            res.append((who + ' (package %s)' % nd.feat['pkg']['name'], pkg_libs_tokens(nd.feat['pkg'])))
        return res
    res = of(proj.nodes[n], 'node n%d itself' % n)
    depth = proj.depth_of(proj.user_libs(n, False))
    for x in proj.reachable(proj.user_libs(n, False)):
        if x % 3 != 0:
            res.extend(of(proj.nodes[x // 3], 'library n%d forwarded at depth %d' % (x // 3, depth.get(x, 0))))
    return res


_AS_NEEDED = []


def detect_as_needed():
    """Does the gcc driver of this sandbox pass --as-needed to ld by default?  Probe: a shared library that
    is listed before the archive that needs it."""
    if _AS_NEEDED:
        return _AS_NEEDED[0]
    d = common.scratch('c14p')
    try:
        env = {'PATH': '/usr/bin:/bin'}
        for name, text in (('p0.c', 'int p0(void) { return 1; }\n'), ('p1.c', 'int p0(void); int p1(void) { return p0(); }\n'),
                           ('pm.c', 'int p1(void); int main(void) { return p1(); }\n')):
            with open(os.path.join(d, name), 'w') as f:
                f.write(text)
        subprocess.run(['gcc', '-fPIC', '-c', 'p0.c', 'p1.c'], cwd=d, env=env, check=True, timeout=60)
        subprocess.run(['gcc', '-shared', '-o', 'libp0.so', 'p0.o'], cwd=d, env=env, check=True, timeout=60)
        subprocess.run(['ar', 'rcs', 'libp1.a', 'p1.o'], cwd=d, env=env, check=True, timeout=60)
        r = subprocess.run(['gcc', 'pm.c', 'libp0.so', 'libp1.a', '-o', 'pm'], cwd=d, env=env, capture_output=True,
                           timeout=60)
        _AS_NEEDED.append(r.returncode != 0)
    finally:
        shutil.rmtree(d, ignore_errors=True)
    return _AS_NEEDED[0]


def system_project(rep, proj, fixed, keep=False):
    """configure + make + run + move + run.  Returns (failures, model_disagreements)."""
    d = common.scratch('c14s')
    bad = 0
    dis = []
    try:
        src, bld = os.path.join(d, 'src'), os.path.join(d, 'build')
        write_project(proj, src)
        env = common.impl_env()
        env.pop('LD_LIBRARY_PATH', None)
        if any(n.feat.get('pkg') for n in proj.nodes):
            # package() asks mopack where the package is; the stub answers: pkg-config, in the project's pc/
            tools = os.path.join(d, 'tools')
            os.mkdir(tools)
            with open(os.path.join(tools, 'mopack'), 'w') as f:
                f.write(MOPACK_STUB)
            os.chmod(os.path.join(tools, 'mopack'), 0o755)
            env['PATH'] = tools + ':' + env['PATH']
            env['C14_PCDIR'] = os.path.join(src, 'pc')
            for k in ('PKG_CONFIG_PATH', 'PKG_CONFIG_LIBDIR', 'PKG_CONFIG'):
                env.pop(k, None)
        cfg = [sys.executable, '-m', 'bfg9000.driver'] if False else ['bfg9000']
        cmd = cfg + ['configure', bld, '--backend=make', '--no-resolve-packages',
                     '--enable-shared' if proj.mode[0] else '--disable-shared',
                     '--enable-static' if proj.mode[1] else '--disable-static']
        for k in ('CFLAGS', 'CPPFLAGS', 'LDFLAGS', 'LDLIBS', 'LIBRARY_PATH'):
            env.pop(k, None)
        # the flag variables of the project's configure environment exist while configuring only (bfg9000 records them)
        rc, out, err = sh(cmd, src, dict(env, **proj.env))
        if rc != 0:
            rep.fail('bfg9000 configure failed on a generated project: %s' % (err or out)[-400:],
                     {'project': proj.to_json(), 'kind': 'configure', 'stderr': err[-2000:]},
                     classes=classify(proj, fixed, 'configure'))
            return 1, dis
        rc, out, err = sh(['make', '-n'], bld, env)
        lines = link_lines(out, proj)
        # every link option of the script - own, forwarded, from packages - reaches the link command as a
        # contiguous block of words, in order
        argvs = link_argvs(out)
        lost = []
        for n, nd in enumerate(proj.nodes):
            if not (nd.exe or proj.eff_kind(n) in ('shared', 'dual')):
                continue
            for who, g in option_groups(proj, n):
                rep.count('sys:option-group:%d-token' % len(g))
                if 'forwarded' in who:
                    rep.count('sys:' + who[who.index('forwarded'):].split(' (')[0])
                if not has_block(argvs.get(n, []), g):
                    lost.append((n, who, g))
        if lost:
            n, who, g = lost[0]                  # one report per project
            bad += 1
            rep.fail('link command of n%d: the option %r of %s is not a contiguous block of its words: %r (%d such '
                     'options in this project)' % (n, g, who, argvs.get(n), len(lost)),
                     {'project': proj.to_json(), 'kind': 'build-option-tokens', 'node': n, 'option': g, 'from': who,
                      'argv': argvs.get(n), 'all': lost[:20]}, classes=classify(proj, fixed, 'options'))
        # library search directories: every project library is handed to the linker by its path, so no link command may
        # carry a -L into the build (or source) tree that neither the script nor the environment asked for - a library
        # asked for by NAME (-l from LDLIBS, a package, the language run time) would be looked up there first and found in
        # a project library that merely has the same name
        given = set(w for v in proj.env.values() for w in shlex.split(v))
        stray = []
        for n, argv in sorted(argvs.items()):
            own = set(t for _, g in option_groups(proj, n) for t in g) | given
            for k, w in enumerate(argv):
                if w.startswith('-L') and w not in own:
                    dname = w[2:] or (argv[k + 1] if k + 1 < len(argv) else '')
                    full = os.path.normpath(os.path.join(bld, dname))
                    rep.count('sys:link-search-dir-not-from-script')
                    if any((full + '/').startswith(os.path.normpath(t) + '/') for t in (bld, src)):
                        stray.append((n, w, [x for x in argv if x.startswith('-l')]))
        rep.count('sys:link-commands-checked-for-search-dirs', len(argvs))
        if stray:
            n, w, byname = stray[0]
            bad += 1
            rep.fail('link command of n%d carries the library search directory %r into the build tree although every '
                     'project library is given by its path; libraries asked for by name on this line: %r; project '
                     'libraries named like system libraries: %r (%d such directories in this project): %r' % (
                         n, w, byname, ['%s/lib%s.so' % d for d in proj.decoys], len(stray), argvs.get(n)),
                     {'project': proj.to_json(), 'kind': 'search-dir', 'node': n, 'word': w, 'argv': argvs.get(n),
                      'all': stray[:20]}, classes=classify(proj, fixed, 'search-dir'))
        # the link lines the real build uses == the model's final libs; and the ld model's verdict
        calls, meta = [], []
        w = proj.wire()
        for n, nd in enumerate(proj.nodes):
            if nd.exe or proj.eff_kind(n) in ('shared', 'dual'):
                calls.append(('link.final_libs', [w, fixed, n, False])); meta.append(n)
        raw = common.model_batch(calls)
        verdict_calls = []
        for (name, arg), r, n in zip(calls, raw, meta):
            mv = dec(name, r)
            if lines.get(n) != mv:
                dis.append((n, (name, arg), lines.get(n), mv))
            roots = [3 * j + proj.variant_for(j, wh, False) for j, wh in proj.nodes[n].deps if j in proj.nodes[n].uses]
            verdict_calls.append(('ld.links', [w, roots, lines.get(n) or [], detect_as_needed()]))
        verdicts = [dec('ld.links', r) for r in common.model_batch(verdict_calls)]
        predicted_ok = all(verdicts)
        if proj.decoys:
            # the order in which independent targets get built is not the project's choice: here the libraries that no
            # node links exist before any node is linked
            rc, out, err = sh(['make', '-j4'] + sorted(set(posixpath.join(dd, 'lib%s.so' % nm) for dd, nm in proj.decoys)),
                              bld, env, timeout=600)
            if rc != 0:
                rep.fail('the generated project does not build (libraries named like system libraries): %s' % err[-500:],
                         {'project': proj.to_json(), 'kind': 'build', 'stderr': err[-3000:]},
                         classes=classify(proj, fixed, 'build'))
                return bad + 1, dis
        rc, out, err = sh(['make', '-j4'], bld, env, timeout=600)
        rep.traces += 1
        # one direction only: a real shared library also exports the symbols of the archives linked into it, so
        # the real linker may succeed where the model (one symbol per library) predicts a failure
        if rc != 0 and predicted_ok and not any(plain_before_whole(l) for l in lines.values()):
            dis.append(('ld', 'make rc %d but the ld model predicts %r' % (rc, verdicts), err[-600:], None))
        if rc != 0:
            kind = 'order' if (not predicted_ok or 'undefined reference' in err) else 'build'
            if 'multiple definition' in err and any(plain_before_whole(l) for l in lines.values()):
                kind = 'whole-plain'
            if re.search(r"undefined reference to `(__gxx_personality|__cxa_|operator (new|delete)|std::|_Unwind_|"
                         r"vtable for __cxxabiv1)", err) and not re.search(r"undefined reference to `f\d+'", err):
                kind = 'build-cxx-runtime'      # only the C++ run time is missing: the link driver, not the order
            rep.fail('the generated project does not build: %s' % err[-500:],
                     {'project': proj.to_json(), 'kind': kind, 'stderr': err[-3000:], 'link_lines': lines},
                     classes=classify(proj, fixed, kind))
            return 1, dis
        exes = [(i, n) for i, n in enumerate(proj.nodes) if n.exe]

        def run_all(root, phase):
            nonlocal bad
            for i, n in exes:
                p = os.path.join(root, n.dir, 'n%d' % i)
                try:
                    rc, out, err = sh([p], '/', {'PATH': '/usr/bin:/bin'}, timeout=30)
                except OSError as e:
                    rc, out, err = -1, '', str(e)
                want = str(value_of(proj, i, {}, tuple(n.feat.get('force', []))))
                if rc != 0 or out.strip() != want:
                    bad += 1
                    rep.fail('executable n%d %s: exit %d, stdout %r (expected %s) %s' % (
                        i, phase, rc, out.strip(), want, err[-300:]),
                        {'project': proj.to_json(), 'kind': 'run-' + phase, 'exe': i, 'stderr': err[-1000:]},
                        classes=classify(proj, fixed, 'run'))
        # what each linked binary recorded as needed at run time: never a project library that no node links (it can
        # only have got there through a request by name that was meant for the system library of that name)
        decoy_files = set('lib%s.so' % nm for _, nm in proj.decoys)
        for i, n in enumerate(proj.nodes):
            if not decoy_files or not (n.exe or proj.eff_kind(i) in ('shared', 'dual')):
                continue
            fp = os.path.join(bld, n.dir, ('n%d' if n.exe else 'libn%d.so') % i)
            pr = subprocess.run(['patchelf', '--print-needed', fp], capture_output=True, text=True, env=env)
            needed = pr.stdout.split()
            rep.count('sys:needed-lists-read')
            if pr.returncode != 0 or decoy_files & set(needed):
                bad += 1
                rep.fail('n%d is bound to %r, a library of the project that it does not link and that is merely named like '
                         'the system library its link line asks for by name (configure environment %r); DT_NEEDED: %r, '
                         'link command: %r' % (i, sorted(decoy_files & set(needed)), proj.env, needed, argvs.get(i)),
                         {'project': proj.to_json(), 'kind': 'bound-to-namesake', 'node': i, 'needed': needed,
                          'argv': argvs.get(i)}, classes=classify(proj, fixed, 'run'))
        def links_ok(root, phase):
            """Every name under which the build offers a shared library (the file itself, and of a versioned library
            the soname link and the link name) denotes the library file that was built, wherever the build directory is;
            and no symbolic link anywhere in the build tree dangles, is absolute or leads out of the tree."""
            nonlocal bad
            wrong = []
            for i, n in enumerate(proj.nodes):
                if n.exe or proj.eff_kind(i) not in ('shared', 'dual'):
                    continue
                names = proj.shared_files(i)
                real = os.path.realpath(os.path.join(root, n.dir, names[0]))
                for nm in names:
                    fp = os.path.join(root, n.dir, nm)
                    rep.count('sys:shared-library-name-checked:' + ('versioned' if len(names) > 1 else 'plain'))
                    if not os.path.isfile(fp) or os.path.realpath(fp) != real:
                        wrong.append((posixpath.join(n.dir, nm), os.readlink(fp) if os.path.islink(fp) else None))
            for dp, dns, fns in os.walk(root):
                for fn in dns + fns:
                    fp = os.path.join(dp, fn)
                    if os.path.islink(fp):
                        rep.count('sys:symbolic-link-in-build-tree-checked')
                        rel = os.path.relpath(fp, root)
                        tgt = os.readlink(fp)
                        inside = (os.path.realpath(fp) + '/').startswith(os.path.realpath(root) + '/')
                        if (not os.path.exists(fp) or os.path.isabs(tgt) or not inside) and \
                                not any(rel == w for w, _ in wrong):
                            wrong.append((rel, tgt))
            if wrong:
                bad += 1
                rep.fail('%s: %d names in the build tree do not lead to the library they stand for (name, link text): %r' % (
                    phase, len(wrong), wrong[:6]),
                    {'project': proj.to_json(), 'kind': 'run-links-' + phase, 'wrong': wrong[:40]},
                    classes=classify(proj, fixed, 'run'))
        links_ok(bld, 'in place')
        run_all(bld, 'in place')
        moved =os.path.join(d, 'moved', 'deeper', 'elsewhere')
        os.makedirs(os.path.dirname(moved))
        os.rename(bld, moved)
        shutil.rmtree(src)           # nothing may be picked up from the old locations
        links_ok(moved, 'after moving the build directory')
        run_all(moved, 'after moving the build directory')
        return bad, dis
    finally:
        if not keep:
            shutil.rmtree(d, ignore_errors=True)


def stage_system(rep, rng, fixed, generated, ncorpus=None):
    """every corpus project that can be written out (thorough; the quick tier takes the token-level ones and a
    rotating sample of the others) plus the generated ones"""
    projs = [p for p in corpus_projects() if all(n.system_ok() for n in p.nodes)]
    if ncorpus is not None and len(projs) > ncorpus:
        rich = [p for p in projs if any(n.feat for n in p.nodes)]
        rest = [p for p in projs if not any(n.feat for n in p.nodes)]
        projs = rich + rng.sample(rest, max(0, ncorpus - len(rich)))
    projs += generated
    bad, dis = 0, []
    for p in projs:
        rep.case('sys:' + p.text(), True)
        rep.count('system-project')
        for nd in p.nodes:
            for k in ('plugs', 'xplugs', 'defs', 'force', 'pkg'):
                if nd.feat.get(k):
                    rep.count('sys:node-with-%s%s' % (k, ':exe' if nd.exe else ''))
        rep.count('sys:configure-env:' + (' '.join('%s=%s' % kv for kv in sorted(p.env.items())) or 'no flag variables'))
        for dd, nm in p.decoys:
            rep.count('sys:project-library-named-like-system-library:' + nm)
        b, d = system_project(rep, p, fixed)
        bad += b
        dis.extend((p, x) for x in d)
    rep.stage('system', projects=len(projs), failures=bad, model_disagreements=len(dis))
    return bad, dis


# ----------------------------------------------------------------------------- R validation of ld_pass
def stage_r_ld(rep, rng, count):
    """The single-pass linker model against the real gcc/ld: hand-built archives / shared objects of a
    fixed project, linked in random orders."""
    proj = Project((True, True), [
        Node('dual', [], [], [], '', [], False),
        Node('dual', [(0, False)], [], [], '', [0], False),
        Node('dual', [(0, False), (1, False)], [], [], '', [1], False),
        Node('dual', [(2, False), (0, False)], [], [], '', [0, 2], False),
        Node('dual', [(1, False)], [], [], '', [], False),
    ])
    d = common.scratch('c14r')
    bad = 0
    nlines = 0
    try:
        env = {'PATH': '/usr/bin:/bin'}
        for i, n in enumerate(proj.nodes):
            protos = ''.join('int f%d(void);\n' % j for j in n.uses)
            calls = ' + '.join('f%d()' % j for j in n.uses) or '0'
            with open(os.path.join(d, 'n%d.c' % i), 'w') as f:
                f.write('%sint f%d(void) { return %d + 3 * (%s); }\n' % (protos, i, i + 1, calls))
            subprocess.run(['gcc', '-fPIC', '-c', 'n%d.c' % i], cwd=d, env=env, check=True, timeout=60)
            subprocess.run(['ar', 'rcs', 'libn%d.a' % i, 'n%d.o' % i], cwd=d, env=env, check=True, timeout=60)
        for i in range(len(proj.nodes)):
            # self-contained shared object that exports its own symbol only: the archives of everything it
            # uses are linked in with hidden visibility
            todo, clo = list(proj.nodes[i].uses), []
            while todo:
                x = todo.pop()
                if x not in clo:
                    clo.append(x)
                    todo.extend(proj.nodes[x].uses)
            subprocess.run(['gcc', '-shared', '-o', 'libn%d.so' % i, 'n%d.o' % i, '-Wl,--exclude-libs,ALL'] +
                           ['libn%d.a' % x for x in sorted(clo, reverse=True)], cwd=d, env=env, check=True, timeout=60)
        w = proj.wire()
        cases = []
        for _ in range(count):
            roots_n = rng.sample(range(5), rng.randint(1, 2))
            if rng.random() < 0.25:
                line = [3 * rng.randrange(5) + rng.choice([0, 1, 1, 1, 2]) for _ in range(rng.randint(1, 6))]
            else:
                # the used closure of the roots in an order that works (dependents first), each library as
                # archive, whole-archive or shared object; then perturbed
                todo, clo = list(roots_n), []
                while todo:
                    x = todo.pop()
                    if x not in clo:
                        clo.append(x)
                        todo.extend(proj.nodes[x].uses)
                line = [3 * x + rng.choice([0, 1, 1, 1, 2]) for x in sorted(clo, reverse=True)]
                for _ in range(rng.choice([0, 0, 1, 1, 2])):
                    op = rng.random()
                    if op < 0.4 and len(line) >= 2:
                        i, j = rng.sample(range(len(line)), 2)
                        line[i], line[j] = line[j], line[i]
                    elif op < 0.6 and len(line) >= 2:
                        del line[rng.randrange(len(line))]
                    elif op < 0.8:
                        line.insert(rng.randint(0, len(line)), 3 * rng.randrange(5) + 1)
                    else:
                        line.append(line[rng.randrange(len(line))])
            # outside the model: a whole-archive whose symbol another entry of the line also defines
            if any(l % 3 == 2 and sum(1 for m in line if m // 3 == l // 3) > 1 for l in line):
                continue
            cases.append((roots_n, line))
        cases = [(r, l, rng.random() < 0.5) for r, l in cases]
        calls = [('ld.links', [w, [3 * r + 1 for r in roots_n], line, an]) for roots_n, line, an in cases]
        model = [dec('ld.links', r) for r in common.model_batch(calls)]
        for (roots_n, line, an), mv in zip(cases, model):
            with open(os.path.join(d, 'main.c'), 'w') as f:
                f.write(''.join('int f%d(void);\n' % r for r in roots_n) +
                        'int main(void) { return %s; }\n' % ' + '.join('f%d()' % r for r in roots_n))
            args = []
            for l in line:
                fn = 'libn%d.%s' % (l // 3, 'so' if l % 3 == 0 else 'a')
                args += ['-Wl,--whole-archive', fn, '-Wl,--no-whole-archive'] if l % 3 == 2 else [fn]
            p = subprocess.run(['gcc', '-Wl,--as-needed' if an else '-Wl,--no-as-needed', 'main.c'] + args +
                               ['-o', 'prog'], cwd=d, env=env, capture_output=True, text=True, timeout=60)
            nlines += 1
            real_ok = p.returncode == 0
            rep.count('ld-line:%s:%s' % ('as-needed' if an else 'no-as-needed', 'links' if real_ok else 'fails'))
            if real_ok != mv:
                bad += 1
                rep.fail('R:ld_pass - the linker model and the real gcc/ld disagree on line %r with roots %r '
                         '(as-needed %r): model %r, ld %r %s' % (line, roots_n, an, mv, real_ok, p.stderr[-300:]),
                         {'obligation': 'R:ld_pass', 'line': line, 'roots': roots_n, 'as_needed': an, 'model': mv,
                          'ld': real_ok},
                         found_input=False)
    finally:
        shutil.rmtree(d, ignore_errors=True)
    rep.stage('R:ld', lines=nlines, disagreements=bad, gcc_default_as_needed=detect_as_needed())
    return bad


# ----------------------------------------------------------------------------- driver
def load_own_findings(rep):
    """known_findings.json is merged from findings.d/ by the coordinator; until then (and afterwards,
    idempotently) take the open entries of findings.d/C14.json as well."""
    try:
        own = json.load(open(os.path.join(common.VERIF, 'findings.d', 'C14.json')))
    except (OSError, ValueError):
        return
    have = set(k['id'] for k in rep.known)
    rep.known.extend(k for k in own if k.get('status') == 'open' and k.get('property') == 'C14' and k['id'] not in have)


def run_check(rep, thorough):
    rng = random.Random(rep.seed)
    load_own_findings(rep)
    rep.proof_stage(coqchk=thorough)
    fixed, probe = detect_fixed()
    rep.stage('variant', probe_line=probe, fixed=fixed)
    if fixed is None:
        rep.fail('the 7.7 witness project gives the unexpected link line %r' % (probe,),
                 {'project': CORPUS[0], 'kind': 'order', 'line': probe}, classes=())
        fixed = True
    nproj = 1000 if thorough else 60
    nsys = 110 if thorough else 8
    # the projects of the system stage also go through the tie and the in-process oracle
    # the library modes are dealt out in turn, not drawn: every run builds real projects under each of them
    sysprojs = [gen_project(rng, None, system=True, max_libs=6, mode=SYSTEM_MODES[k % 3],
                            sysenv=SYSTEM_ENVS[k % len(SYSTEM_ENVS)]) for k in range(nsys)]
    projects = corpus_projects() + [gen_project(rng, rep) for _ in range(nproj)] + sysprojs
    dis = stage_w_links(rep, rng, fixed, projects)
    dis2 = stage_w_rpath(rep, rng, 600 if thorough else 120)
    # (a stream of its own: the stages after it draw what they drew before it existed)
    dis3 = stage_w_langs(rep, random.Random(rep.seed + 14), projects if thorough else projects[:120] + sysprojs)
    stage_r_ld(rep, rng, 400 if thorough else 70)
    # direct oracle on the implementation (10x when the model tie is broken)
    # failing inputs that are not known findings (those must not hide a broken correspondence)
    v0 = len(rep.violations)
    nfail = 0
    mult = 10 if (dis or dis2 or dis3) else 1
    oprojects = projects + [gen_project(rng, None) for _ in range(nproj * (mult - 1))]
    for p in oprojects:
        if len(rep.violations) - v0 >= 25:
            break               # enough concrete failing inputs
        rep.case('o:' + p.text(), True)
        nfail += oracle_project(rep, p, fixed)
    rep.stage('oracle:property-on-real-objects', projects=len(oprojects), failures_including_known_findings=nfail,
              violations=len(rep.violations) - v0)
    if dis or dis2 or dis3 or len(rep.violations) > v0:
        sysprojs = sysprojs + [gen_project(rng, None, system=True, max_libs=6, mode=SYSTEM_MODES[k % 3],
                                           sysenv=SYSTEM_ENVS[(k + 1) % len(SYSTEM_ENVS)]) for k in range(nsys)]
    sbad, sdis = stage_system(rep, rng, fixed, sysprojs, None if thorough else 7)
    found = len(rep.violations) - v0
    if sdis and not rep.n_with_input:
        p, x = sdis[0]
        rep.fail('system level: the link lines of the real build and the model differ (%d cases), e.g. node %r: '
                 'make -n %r, model %r' % (len(sdis), x[0], x[2], x[3]),
                 {'obligation': 'system:link-line == model', 'project': p.to_json(), 'detail': repr(x)[:2000]},
                 found_input=False)
    rep.stage('law:strings-kept-with-multiplicity', holds=not getattr(rep, 'c14_law', None))
    if getattr(rep, 'c14_law', None) and not rep.n_with_input:
        rep.fail(rep.c14_law[0], rep.c14_law[1], found_input=False)
    for d, what in ((dis, 'W:link'), (dis2, 'W:rpath'), (dis3, 'W:langs')):
        if d and not rep.n_with_input:
            i, call, iv, mv = d[0]
            rep.fail('%s - model and implementation disagree (%d cases), e.g. %s: impl %r, model %r' % (
                what, len(d), call[0], iv, mv),
                {'obligation': 'W:' + call[0], 'call': call, 'impl': iv, 'model': mv, 'n_disagreements': len(d)},
                found_input=False)


def run(rep):
    run_check(rep, rep.tier == 'thorough')


def replay(rep, path):
    r = json.load(open(path))
    print(json.dumps(r, indent=1)[:1500])
    if 'project' not in r:
        return run(rep)
    proj = Project.from_json(r['project'])
    load_own_findings(rep)
    fixed, _ = detect_fixed()
    fixed = True if fixed is None else fixed
    n = oracle_project(rep, proj, fixed)
    if getattr(rep, 'c14_law', None) and not n:
        rep.fail(rep.c14_law[0], rep.c14_law[1], found_input=False)
        n += 1
    if (r.get('kind', '').startswith(('run', 'build', 'order', 'configure', 'option', 'bound', 'search-dir')) or
            proj.env or proj.decoys or
            any(nd.feat for nd in proj.nodes)) and all(nd.system_ok() for nd in proj.nodes):
        b, _ = system_project(rep, proj, fixed)
        n += b
    rep.stage('replay', failures=n)
