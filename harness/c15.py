"""C15 - install/uninstall place and remove exactly the declared files."""
import json
import os
import random
import re
import shutil
import subprocess
import warnings
from functools import partial

from . import common, project, shtools

LEVEL = 'proof'
RULE = ('W: random DAGs of real bfg9000 file objects (executables, shared/versioned/static/dual-use libraries, headers, '
        'header directories with and without file lists, directories, man pages, data files, .pc files, non-installable '
        'types, phony) with random runtime/linktime dependencies, link options (lib, rpath_dir) and post_install hooks, '
        'installed by random sequences of InstallOutputs.add(item, directory=None|str|Path) under random install-dir '
        'overrides; a case is one call sequence, non-trivial when the closure adds at least one implicit file or a '
        'directory/conflict/error is involved. System: generated projects configured, built and installed for real '
        '(quick: 2, thorough: 15), each with prefix/dir overrides and DESTDIR containing blanks; every project contains '
        'shared libraries in every combination of {versioned, unversioned} x {installed implicitly as run-time dependency '
        'of the installed program, implicitly as run-time dependency of an implicitly installed library, explicitly}, '
        'whether the main library is versioned / named by a .pc file is dealt out in turn; every DT_NEEDED name of every '
        'installed ELF file that the project builds must be in the installed tree, and the installed programs are run '
        'under every DESTDIR mode while the build directory AND the source tree are moved away. Every project also keeps '
        'pre-built libraries as binary files in its source tree (a shared one and an archive, named by shared_library(path) '
        '/ static_library(path) / library(path) without files=, directory names with blanks): a second installed program '
        'links nothing but them, the main program links them next to the libraries the project builds (drawn); the rpath '
        'of EVERY installed ELF file is read back with patchelf and each entry must lie below the configured install '
        'directories (not in the source or build tree, not $ORIGIN-relative). In process: for every installed binary and '
        'every library option whose run-time file is installed, patchelf.installed_rpath is the directory that file is '
        'installed to (libraries rooted in the source tree, the build tree and absolute ones).')
TRUSTED = ('specification of doppel/rm/patchelf as file-system operations (Install.v cmd_ops), validated on this run against '
           'the real doppel, rm and patchelf by executing the generated install rules',
           'GNU Make command-line variable override semantics (exercised: make install DESTDIR=...)',
           'paths are modelled as (root, components); normalisation of user strings is done by the real Path class in the harness')
EXPLANATION = ('partial: the install map, DESTDIR composition and install/uninstall symmetry are proved over a model in which '
               'doppel, rm and patchelf are specified operations; their own correctness and the Ninja backend are not covered.')

IROOTS = ['prefix', 'exec_prefix', 'bindir', 'libdir', 'includedir', 'datadir', 'mandir']
T = {'Phony': 0, 'File': 1, 'Directory': 2, 'HeaderFile': 3, 'PrecompiledHeader': 4, 'HeaderDirectory': 5, 'ManPage': 6,
     'ObjectFile': 7, 'Executable': 8, 'SharedLibrary': 9, 'LinkLibrary': 10, 'VersionedSharedLibrary': 11,
     'StaticLibrary': 12, 'PkgConfigPcFile': 13}
VARS = {'DESTDIR': 0, 'srcdir': 1, 'DOPPEL_DATA': 20, 'DOPPEL_PROGRAM': 21, 'PATCHELF': 22, 'RM': 23}
VARS.update({n: 10 + i for i, n in enumerate(IROOTS)})
EXC = {1: 'ValueError', 2: 'TypeError', 3: 'KeyError'}


# ----------------------------------------------------------------------------- encoding of real objects
def comps_of(p):
    return [c for c in p.suffix.split('/') if c != '']


def enc_root(r):
    from bfg9000.path import Root, InstallRoot
    if r == Root.srcdir:
        return 0
    if r == Root.builddir:
        return 1
    if r == Root.absolute:
        return 2
    return 10 + IROOTS.index(r.name)


def enc_path(p):
    return [enc_root(p.root), comps_of(p), bool(p.destdir)]


def enc_key(f):
    return [T[type(f).__name__], enc_path(f.path)]


class Reg:
    """Side table: what the model needs to know about each real object (options of its post_install)."""

    def __init__(self):
        self.post = {}

    def enc_file(self, f, depth=0):
        from bfg9000.file_types import Directory, ManPage
        if depth > 30:
            raise RuntimeError('dependency graph too deep')
        tn = type(f).__name__
        if tn == 'Phony':
            return [0, [1, [f.path], False], '', [], [], []]
        files = None
        if isinstance(f, Directory) and f.files is not None:
            files = [[enc_key(i) for i in f.files]]
        post = self.post.get(id(f))
        deps = []
        for d in (f.install_deps if hasattr(f, 'install_deps') else []):
            for m in d.all:
                deps.append(self.enc_file(m, depth + 1))
        level = str(f.level) if isinstance(f, ManPage) else ''
        return [T[tn], enc_path(f.path), level, files if files is not None else [],
                [post] if post is not None else [], deps]


def canon_path(e):
    return (e[0], tuple(common.d_str(c) for c in e[1]), common.d_bool(e[2]))


def canon_path_py(p):
    return (enc_root(p.root), tuple(comps_of(p)), bool(p.destdir))


def merge(pieces):
    out = []
    for k, v in pieces:
        if k == 'l' and v == '':
            continue
        if k == 'l' and out and out[-1][0] == 'l':
            out[-1] = ('l', out[-1][1] + v)
        else:
            out.append((k, v))
    return tuple(out)


def dec_word(w):
    return merge([('v', p[1]) if p[0] == 0 else ('l', common.d_str(p[1])) for p in w])


def dec_res(f, r):
    return ('ok', f(r[1])) if r[0] == 0 else ('err', EXC.get(r[1], r[1]))


def dec_host(h):
    return [(e[0], canon_path(e[1]), canon_path(e[2])) for e in h]


def py_pieces(x, path_vars):
    """One argv element of a real command -> pieces."""
    from bfg9000.path import BasePath
    from bfg9000.safe_str import jbos, literal, shell_literal
    from bfg9000.backends.make.syntax import Variable
    from bfg9000.tools.common import Command
    if isinstance(x, Variable):
        return [('v', VARS[x.name])]
    if isinstance(x, Command):
        return [('v', {'PatchElf': 22, 'Rm': 23}[type(x).__name__])]
    if isinstance(x, str):
        return [('l', x)]
    if isinstance(x, (literal, shell_literal)):
        # text already in Make syntax: variable references $(NAME)
        out = []
        for i, bit in enumerate(re.split(r'\$\((\w+)\)', x.string)):
            if i % 2:
                out.append(('v', VARS[bit]))
            elif bit:
                out.append(('lit', bit))
        return out
    if isinstance(x, BasePath):
        return py_pieces(x.realize(path_vars, True), path_vars)
    if isinstance(x, jbos):
        out = []
        for b in x.bits:
            out.extend(py_pieces(b, path_vars))
        return out
    raise TypeError(type(x))


def py_cmds(cmds, path_vars):
    return [tuple(merge(py_pieces(a, path_vars)) for a in c) for c in cmds]


def exc_name(e):
    return type(e).__name__ if isinstance(e, (ValueError, TypeError, KeyError)) else 'Other:' + type(e).__name__ + ':' + str(e)[:80]


# ----------------------------------------------------------------------------- generators
NAME_CHARS = 'abcdeXY019 ._-+$\'"#,=@%'


def gen_name(rng, ext=''):
    while True:
        n = ''.join(rng.choice(NAME_CHARS if rng.random() < 0.5 else 'abcdxyz') for _ in range(rng.randint(1, 5)))
        if n in ('.', '..') or n.startswith('~') or ':' in n[:2] or n.strip() != n and rng.random() < 0.5:
            continue
        return n + ext


def gen_comps(rng, lo=1, hi=3, ext=''):
    c = [gen_name(rng) for _ in range(rng.randint(lo, hi))]
    if c and ext:
        c[-1] += ext
    return c


def make_env(rng, rep=None):
    from bfg9000.environment import Environment
    from bfg9000.path import Path, Root, InstallRoot, abspath
    env = Environment(abspath('/x/bfgdir'), 'make', None, abspath('/x/src dir'), abspath('/x/build'))
    over = {}
    for k in InstallRoot:
        if rng.random() < 0.3:
            over[k] = Path('/' + '/'.join(gen_comps(rng, 0, 2)), Root.absolute)
    env.finalize(over, (False, False), False)
    if rep:
        rep.count('env:overrides=%d' % len(over))
    return env


def gen_pool(rng, env, reg, rep=None):
    """A pool of real file objects with dependencies among them (a DAG: deps only point to earlier objects)."""
    from bfg9000 import file_types as ft, options as opts
    from bfg9000.path import Path, Root
    from bfg9000.tools import patchelf
    pool, libs = [], []

    def rnd_root():
        r = rng.random()
        return Root.srcdir if r < 0.35 else (Root.builddir if r < 0.985 else Root.absolute)

    def mkpath(ext='', lo=1):
        root = rnd_root()
        s = '/'.join(gen_comps(rng, lo, 3, ext))
        if root == Root.absolute:
            s = '/' + s
        return Path(s, root)

    n = rng.randint(2, 9)
    for _ in range(n):
        k = rng.choice(['exe', 'exe', 'exe', 'shared', 'shared', 'ver', 'ver', 'static', 'static', 'dual', 'hdr', 'hdrdir', 'hdrdir',
                        'dir', 'man', 'file', 'pc', 'obj'] + (['pch', 'phony'] if rng.random() < 0.15 else []))
        if rep:
            rep.count('obj:' + k)
        obj = None
        if k == 'exe':
            obj = ft.Executable(mkpath(), 'elf', 'c')
        elif k == 'shared':
            obj = ft.SharedLibrary(mkpath('.so'), 'elf', 'c')
        elif k == 'ver':
            p = mkpath('.so')
            real = ft.VersionedSharedLibrary(p.addext('.1.2'), 'elf', 'c', p.addext('.1'), p)
            obj = rng.choice([real, real.soname, real.link, real.link])
        elif k == 'static':
            obj = ft.StaticLibrary(mkpath('.a'), 'elf', 'c')
        elif k == 'dual':
            obj = ft.DualUseLibrary(ft.SharedLibrary(mkpath('.so'), 'elf', 'c'), ft.StaticLibrary(mkpath('.a'), 'elf', 'c'))
        elif k == 'hdr':
            obj = ft.HeaderFile(mkpath('.h'), 'c')
        elif k in ('hdrdir', 'dir'):
            d = mkpath(lo=0)
            files = None
            if rng.random() < 0.8:
                files = []
                for _ in range(rng.randint(0, 3)):
                    r = rng.random()
                    if r < 0.8:
                        fp = d.append('/'.join(gen_comps(rng, 1, 3, '.h')))
                    elif r < 0.9:
                        fp = mkpath('.h')          # possibly outside the directory / other root
                    else:
                        fp = Path(d.suffix, d.root).parent().append('o.h') if d.suffix else d.append('o.h')
                    files.append(ft.HeaderFile(fp, 'c') if (k == 'hdrdir' and rng.random() < 0.9) else ft.File(fp))
            obj = ft.HeaderDirectory(d, files) if k == 'hdrdir' else ft.Directory(d, files)
        elif k == 'man':
            obj = ft.ManPage(mkpath('.1'), rng.choice([1, 3, '3p', 8]))
        elif k == 'file':
            obj = ft.File(mkpath('.txt'))
        elif k == 'pc':
            obj = ft.PkgConfigPcFile(mkpath('.pc'))
        elif k == 'pch':
            obj = ft.PrecompiledHeader(mkpath('.gch'), 'c')
        elif k == 'obj':
            obj = ft.ObjectFile(mkpath('.o'), 'elf', 'c')
        elif k == 'phony':
            obj = ft.Phony('name')
        # dependencies and link options
        for m in (obj.all if hasattr(obj, 'all') else [obj]):
            if isinstance(m, ft.LinkedBinary) and libs and not isinstance(m, ft.LinkLibrary):
                used = rng.sample(libs, rng.randint(0, min(3, len(libs))))
                options = []
                for l in used:
                    one = l.all[0] if isinstance(l, ft.DualUseLibrary) else l
                    if isinstance(m, ft.StaticLibrary):
                        m.linktime_deps.append(l)
                    else:
                        if one.runtime_file is not None and rng.random() < 0.95:
                            m.runtime_deps.append(one.runtime_file)
                        rt = one.runtime_file
                        options.append((opts.lib(one), [0, [enc_key(rt)] if rt is not None else []]))
                if not isinstance(m, ft.StaticLibrary) and rng.random() < 0.85:
                    if rng.random() < 0.3:
                        rp = Path('/' + '/'.join(gen_comps(rng, 0, 2)), Root.absolute) if rng.random() < 0.6 else mkpath()
                        when = rng.choice(list(opts.RpathWhen))
                        options.insert(rng.randint(0, len(options)), (opts.rpath_dir(rp, when), [1, enc_path(rp), when.value]))
                    m.post_install = partial(patchelf.post_install, env, [o for o, _ in options], m)
                    reg.post[id(m)] = [e for _, e in options]
        pool.append(obj)
        if isinstance(obj, (ft.Library, ft.DualUseLibrary)):
            libs.append(obj)
    return pool


def gen_directory(rng, rep=None):
    from bfg9000.path import Path, Root, InstallRoot
    r = rng.random()
    if r < 0.6:
        return None, [0]
    if r < 0.65:
        return '', [0]
    if r < 0.85:
        s = '/'.join(gen_comps(rng, 1, 2))
        ab = rng.random() < 0.15
        if ab:
            s = '/' + s
        p = Path(s, InstallRoot.bindir)
        return s, [1, p.root == Root.absolute, comps_of(p)]
    root = rng.choice(list(InstallRoot) + [Root.absolute, Root.srcdir] if rng.random() < 0.3 else list(InstallRoot))
    s = '/'.join(gen_comps(rng, 0, 2))
    if root == Root.absolute:
        s = '/' + s
    p = Path(s, root)
    return p, [2, enc_path(p)]


def one_case(rng, rep=None):
    """Returns (calls_enc, impl_add, impl_plan, env) - the real results in canonical form."""
    from bfg9000.build_inputs import BuildInputs
    from bfg9000.builtins import install as inst
    from bfg9000.backends.make import syntax as make
    from bfg9000.path import Path, Root
    env = make_env(rng, rep)
    reg = Reg()
    pool = gen_pool(rng, env, reg, rep)
    build = BuildInputs(env, Path('build.bfg', Root.srcdir))
    io = build['install']
    calls_enc = []
    chosen = []
    for _ in range(rng.randint(1, 4)):
        item = rng.choice(pool)
        d, denc = gen_directory(rng, rep)
        chosen.append((item, d))
        calls_enc.append([denc, [reg.enc_file(m) for m in item.all]])
    add_res = None
    with warnings.catch_warnings():
        warnings.simplefilter('ignore')
        try:
            for item, d in chosen:
                io.add(item, d)
            add_res = ('ok', [(T[type(s).__name__], canon_path_py(s.path), canon_path_py(h.path)) for s, h in io.host.items()])
        except (ValueError, TypeError, KeyError) as e:
            add_res = ('err', exc_name(e))
        plan_res = add_res if add_res[0] == 'err' else None
        if plan_res is None:
            mk = make.Makefile('build.bfg', destdir=env.supports_destdir)
            try:
                ic = inst._install_files(io, mk, env)
                uc = inst._uninstall_files(io, env)
                plan_res = ('ok', (add_res[1], py_cmds(ic, mk.path_vars), py_cmds(uc, mk.path_vars)))
            except (ValueError, TypeError, KeyError) as e:
                plan_res = ('err', exc_name(e))
    # the target map must be the host map without destdir (C15_rpath_installed relies on it)
    if add_res[0] == 'ok':
        for s, h in io.host.items():
            t = io.target[s]
            assert (t.path.root, t.path.suffix, t.path.destdir) == (h.path.root, h.path.suffix, False), (t, h)
    implicit = add_res[0] == 'ok' and len(add_res[1]) > len(chosen)
    # direct oracle on the implementation (independent of the model): the installed set is the closure of the
    # explicit items under install_deps, and every destination is a destdir path that ends in the file's suffix
    if add_res[0] == 'ok' and rep is not None:
        want, todo = [], [m for item, _ in chosen for m in item.all]
        while todo:
            f = todo.pop()
            if not any(f is w or f == w for w in want):
                want.append(f)
                for d in f.install_deps:
                    todo.extend(d.all)
        got = list(io.host)
        if len(got) != len(want) or any(not any(g == w for w in want) for g in got):
            rep.fail('installed set %r is not the closure of the explicit items under install_deps %r' % (got, want),
                     {'calls': calls_enc, 'installed': repr(got), 'closure': repr(want)})
        # run-time search paths are rewritten to the INSTALLED library locations: for every installed binary and every
        # library among its link options whose run-time file is installed with it, the directory searched after
        # installation is the directory that file is installed to - never one of the source or the build tree
        from bfg9000 import options as opts_, file_types as ft_
        from bfg9000.tools import patchelf as pe_
        for s_ in io.host:
            if getattr(s_, 'post_install', None) is None:
                continue
            for o in s_.post_install.args[1]:
                if not (isinstance(o, opts_.lib) and isinstance(o.library, ft_.Library) and o.library.runtime_file):
                    continue
                rt = o.library.runtime_file
                try:
                    got_dir = pe_.installed_rpath(env, o.library, io)
                except KeyError:
                    got_dir = None             # a library that is not installed and not absolute: nothing to rewrite to
                rep.count('oracle:installed-rpath:%s' % ('not installed' if rt not in io.target else
                                                         'installed,from-' + rt.path.root.name))
                want_dir = io.target[rt].path.parent() if rt in io.target else None
                if got_dir is not None and (got_dir.root in (Root.srcdir, Root.builddir) or
                                            (want_dir is not None and got_dir != want_dir)):
                    rep.fail('installed %r links %r (installed to %r): the run-time search path after installation is %r' % (
                        s_, rt, want_dir, got_dir), {'calls': calls_enc, 'binary': repr(s_), 'library': repr(rt),
                                                    'installed_rpath': repr(got_dir), 'kind': 'installed-rpath'})
        for s_, h in io.host.items():
            tail = '' if isinstance(s_, __import__('bfg9000').file_types.Directory) else s_.path.basename()
            if not h.path.destdir or not h.path.suffix.endswith(tail) or h.path.root == Root.srcdir or h.path.root == Root.builddir:
                rep.fail('destination %r of %r is not a DESTDIR path under an install root ending in the file name' % (h.path, s_),
                         {'calls': calls_enc})
    return calls_enc, add_res, plan_res, env, implicit


def dec(name, r):
    if name == 'install.add':
        return dec_res(dec_host, r)
    if name == 'install.plan':
        return dec_res(lambda v: (dec_host(v[0]), [tuple(dec_word(w) for w in c) for c in v[1]],
                                  [tuple(dec_word(w) for w in c) for c in v[2]]), r)
    raise KeyError(name)


def stage_w(rep, rng, n):
    calls, impl, sym = [], [], []
    for i in range(n):
        ce, add_res, plan_res, env, implicit = one_case(rng, rep)
        rep.case('w:' + json.dumps(ce), implicit or add_res[0] == 'err' or any(c[0][0] != 0 for c in ce))
        rep.count('add:' + (add_res[0] if add_res[0] == 'ok' else add_res[1]))
        rep.count('plan:' + (plan_res[0] if plan_res[0] == 'ok' else plan_res[1]))
        if plan_res[0] == 'ok':
            rep.count('plan:patchelf=%d' % sum(1 for c in plan_res[1][1] if c[0] == (('v', 22),)))
            rep.count('plan:into=%d' % min(2, sum(1 for c in plan_res[1][1] if (('l', '-ipN'),) in c)))
        calls.append(('install.add', [ce])); impl.append(add_res)
        calls.append(('install.plan', [ce, env.supports_destdir])); impl.append(plan_res)
        if i < 2:
            rep.sample({'stage': 'W:install', 'calls': ce, 'impl': repr(plan_res)[:600]})
        if plan_res[0] == 'ok':
            sym.append(('install.run', [ce, '/d d', '/s', DEFAULT_IDIRS]))
    dis = common.compare_model(rep, 'W:install', calls, impl, dec, vm_limit=60)
    # model-level symmetry on the generated install sets (the hypothesis dirs_ok of C15_symmetry holds whenever
    # the files of a directory lie inside it): removed paths = created paths, uninstall . install = identity
    nsym = 0
    for (name, arg), r in zip(sym, common.model_batch(sym)):
        if r[0] != 0:
            continue
        v = r[1]
        dests, removed, after = [common.d_str(x) for x in v[2]], [common.d_str(x) for x in v[3]], v[5]
        inside = all(f[3] == [] or all(k[1][0] == f[1][0] and k[1][1][:len(f[1][1])] == f[1][1] and len(k[1][1]) > len(f[1][1])
                                       for k in f[3][0]) for f in all_files(arg[0]))
        if not inside:
            rep.count('sym:files outside their directory')
            continue
        nsym += 1
        if removed != dests or after or not all(d.startswith('/d d/') for d in dests):
            rep.fail('model: uninstall does not remove exactly what install creates (%r vs %r, left %r)' % (removed, dests, after),
                     {'obligation': 'model symmetry', 'calls': arg[0]}, found_input=False)
    rep.stage('W:symmetry', cases=nsym)
    return dis


DEFAULT_IDIRS = [[2, ['opt', 'p'], False], [10, [], False], [11, ['bin'], False], [11, ['lib'], False], [10, ['include'], False],
                 [10, ['share'], False], [15, ['man'], False]]


def all_files(calls):
    def walk(f):
        yield f
        for d in f[5]:
            yield from walk(d)
    for c in calls:
        for f in c[1]:
            yield from walk(f)


# ----------------------------------------------------------------------------- system level
DUMP_CODE = ("import sys; sys.path[:0] = [%r, %r]; from harness import c15; c15.dump_main(sys.argv[1])")


def dump_main(builddir):
    """Runs in a fresh interpreter: re-executes build.bfg of a configured build directory with the real bfg9000,
    records every InstallOutputs.add(item, directory) call and prints calls / install dirs / host map as JSON."""
    import sys
    from bfg9000.environment import Environment
    from bfg9000 import build as bfgbuild
    from bfg9000.builtins import install as inst
    from bfg9000.path import Path, Root, InstallRoot
    from bfg9000 import options as opts
    from bfg9000.file_types import Library
    log = []
    orig = inst.InstallOutputs.add

    def add(self, item, directory=None):
        log.append((item, directory))
        return orig(self, item, directory)
    inst.InstallOutputs.add = add
    env = Environment.load(builddir)
    with warnings.catch_warnings():
        warnings.simplefilter('ignore')
        b = bfgbuild.configure_build(env)
    reg = Reg()
    io = b['install']
    for f in io.host:
        if f.post_install is not None:
            options = f.post_install.args[1]
            e = []
            for o in options:
                if isinstance(o, opts.lib) and isinstance(o.library, Library):
                    rt = o.library.runtime_file
                    e.append([0, [enc_key(rt)] if rt is not None else []])
                elif isinstance(o, opts.rpath_dir):
                    e.append([1, enc_path(o.path), o.when.value])
            reg.post[id(f)] = e
    calls = []
    for item, d in log:
        if d is None or d == '':
            denc = [0]
        elif isinstance(d, str):
            p = Path(d, InstallRoot.bindir)
            denc = [1, p.root == Root.absolute, comps_of(p)]
        else:
            denc = [2, enc_path(d)]
        calls.append([denc, [reg.enc_file(m) for m in item.all]])
    out = {'calls': calls, 'idirs': [enc_path(env.install_dirs[InstallRoot[n]]) for n in IROOTS],
           'srcdir': env.srcdir.string(), 'supports_destdir': env.supports_destdir,
           'host': [[T[type(s_).__name__], enc_path(s_.path), enc_path(h.path)] for s_, h in io.host.items()]}
    sys.stdout.write('C15DUMP' + json.dumps(out) + '\n')


# how a shared library of a generated project gets installed
WAYS = ('exe', 'lib', 'explicit')
# (versioned, .pc file naming foo) of the main library, dealt out in turn over the projects of a run
FOO_SCHEDULE = [(True, False), (False, True), (True, True), (False, False)]


def gen_project(rng, root, rep=None, idx=0, offset=0):
    """A generated project: files of the source tree, configure arguments and the expected installed set
    (independent of the model: relative to the directory kinds).

    Shared libraries come in every combination of {versioned (link -> soname -> real file), unversioned} x
    {installed only implicitly as run-time dependency of the installed program, only implicitly as run-time dependency
    of an implicitly installed library, passed to install() explicitly} in EVERY project; whether the main library is
    versioned / named by a .pc file is dealt out in turn (idx)."""
    ver, pc = FOO_SCHEDULE[(idx + offset) % len(FOO_SCHEDULE)]
    lib2 = rng.random() < 0.6
    static_inst = rng.random() < 0.5
    recursive = rng.random() < 0.7
    tooldir = rng.choice([None, 'tools', 'my tools/x'])
    sub = rng.choice(['sub', 'sub dir', 'a/b c'])
    datadir_arg = rng.choice(['demo', 'demo data/v 1'])
    hdrdir_arg = rng.choice([None, None, 'demo-1.0', 'my hdrs'])
    if (idx + offset) % 2 == 0:
        hdrdir_arg = None          # dealt out in turn: a directory installed AT an install root (destination with an empty suffix)
    man = rng.random() < 0.8
    man_gz = rng.random() < 0.7          # a compressed page: the installed file is a build-directory output with a directory part
    extras = [{'name': ('v' if v else 'u') + {'exe': 'p', 'lib': 'l', 'explicit': 'e'}[w], 'ver': v, 'way': w, 'value': 3 + 2 * k}
              for k, (v, w) in enumerate((v, w) for w in WAYS for v in (True, False))]
    rng.shuffle(extras)
    for k, v in (('ver', ver), ('lib2', lib2), ('static', static_inst), ('pc', pc), ('recursive', recursive), ('man', man),
                 ('tooldir', tooldir is not None), ('hdrdir_arg', hdrdir_arg is not None)):
        if rep:
            rep.count('proj:%s=%s' % (k, v))
    for x in extras:
        # without a second library level the run-time dependencies of a library are those of the program
        x['via'] = 'baz' if (x['way'] == 'lib' and lib2) else 'prog'
        if rep:
            rep.count('proj:shlib:%s,installed-%s' % ('versioned' if x['ver'] else 'unversioned',
                                                      'explicitly' if x['way'] == 'explicit' else 'implicitly-by-' + x['via']))
    by_prog = [x for x in extras if x['via'] == 'prog']
    by_baz = [x for x in extras if x['via'] == 'baz']
    # libraries that exist already: binary files kept in the SOURCE tree and named without files= (a shared one and
    # an archive).  A second installed program links nothing but them; the main program links them next to the
    # libraries the project builds (drawn)
    predir = rng.choice(['prebuilt', 'third party/lib', 'vendor/x86-64'])
    pre_prog = rng.random() < 0.6             # the main program links the pre-built shared library too
    pst_fn = rng.choice(['static_library', 'library'])
    pst_solo, pst_prog = rng.choice([(True, False), (False, True), (True, True)])
    pst_inst = rng.random() < 0.5
    if rep:
        rep.count('proj:prebuilt-shared:linked-by=%s' % ('solo+prog' if pre_prog else 'solo'))
        rep.count('proj:prebuilt-static:%s,linked-by=%s,installed=%s' % (
            pst_fn, '+'.join(n for n, f in (('solo', pst_solo), ('prog', pst_prog)) if f), pst_inst))
    prebuilt = [{'path': predir + '/libext.so', 'kind': 'shared', 'source': 'int ext(void){return 23;}\n'},
                {'path': predir + '/libpst.a', 'kind': 'static', 'source': 'int pst(void){return 29;}\n'}]
    total = 3 + (2 + sum(x['value'] for x in by_baz) if lib2 else 0) + sum(x['value'] for x in by_prog)
    total += (23 if pre_prog else 0) + (29 if pst_prog else 0)
    files = {
        'foo.c': '#include <foo.h>\nint foo(void){return 1;}\n',
        'baz.c': 'int foo(void);\n%sint baz(void){return foo() + 1%s;}\n' % (
            ''.join('int %s(void);\n' % x['name'] for x in by_baz), ''.join(' + %s()' % x['name'] for x in by_baz)),
        'bar.c': 'int bar(void){return 2;}\n',
        'main.c': '#include <foo.h>\nint bar(void);\nint ext(void);\nint pst(void);\n%s%sint main(void){return foo() + bar()%s%s%s%s - %d;}\n' % (
            'int baz(void);\n' if lib2 else '', ''.join('int %s(void);\n' % x['name'] for x in by_prog),
            ' + baz()' if lib2 else '', ''.join(' + %s()' % x['name'] for x in by_prog),
            ' + ext()' if pre_prog else '', ' + pst()' if pst_prog else '', total),
        'solo.c': 'int ext(void);\nint pst(void);\nint main(void){return ext()%s - %d;}\n' % (
            ' + pst()' if pst_solo else '', 23 + (29 if pst_solo else 0)),
        'tool.c': 'int main(void){return 0;}\n',
        'include/foo.h': 'int foo(void);\n',
        'include/%s/x.h' % sub: '/* x */\n',
        'include/%s/notes.txt' % sub: 'not a header\n',
        'include/README': 'not a header\n',
        'top.h': '/* top */\n',
        'man/prog.1': '.TH prog 1\n',
        'man/fmt/demofmt.5': '.TH demofmt 5\n',
        'man/api/deep/demo_foo.3': '.TH demo_foo 3\n',
        'data/my data.txt': 'data\n',
    }
    VER = ", version='1.2.3', soversion='1'"
    L = ["project('demo', version='1.0')",
         "hd = header_directory('include', include=%r)" % ('**/*.h' if recursive else '*.h'),
         "foo = shared_library('foo', files=['foo.c'], includes=[hd]%s)" % (VER if ver else ''),
         "bar = static_library('bar', files=['bar.c'])"]
    for x in extras:
        files[x['name'] + '.c'] = 'int %s(void){return %d;}\n' % (x['name'], x['value'])
        L.append("%s = shared_library(%r, files=[%r]%s)" % (x['name'], x['name'], x['name'] + '.c', VER if x['ver'] else ''))
    libs = ['foo', 'bar']
    if lib2:
        L.append("baz = shared_library('deep/baz', files=['baz.c'], libs=[%s])" % ', '.join(['foo'] + [x['name'] for x in by_baz]))
        libs.insert(0, 'baz')
    libs += [x['name'] for x in by_prog]
    libs += (['ext'] if pre_prog else []) + (['pst'] if pst_prog else [])
    L += ["ext = shared_library(%r)" % prebuilt[0]['path'],
          "pst = %s(%r)" % (pst_fn, prebuilt[1]['path']),
          "prog = executable('prog', files=['main.c'], libs=[%s], includes=[hd])" % ', '.join(libs),
          "solo = executable('solo', files=['solo.c'], libs=[%s])" % ', '.join(['ext'] + (['pst'] if pst_solo else [])),
          "tool = executable('tool', files=['tool.c'])",
          "install(prog)",
          "install(hd%s)" % (', directory=%r' % hdrdir_arg if hdrdir_arg else ''),
          "install(tool%s)" % (', directory=%r' % tooldir if tooldir else ''),
          "install(generic_file('data/my data.txt'), directory=Path(%r, InstallRoot.datadir))" % datadir_arg,
          "install(header_file('top.h'))"]
    inst = [["install(%s)" % x['name']] for x in extras if x['way'] == 'explicit']
    if man:
        inst.append(["install(man_page('man/prog.1', compress=False))"])
    if man_gz:
        inst.append(["install(man_page('man/fmt/demofmt.5', compress=True))",
                     "install(man_page('man/api/deep/demo_foo.3', compress=False))"])
    if static_inst:
        inst.append(["install(bar)"])
    inst.append(["install(solo)"])
    if pst_inst:
        inst.append(["install(pst)"])
    if pc:
        inst.append(["pkg_config('demo', version='1.0', libs=[foo])"])
    rng.shuffle(inst)               # explicit installs before and after the implicit ones
    k = rng.randint(0, len(inst))
    at = L.index("install(prog)")
    L[at:at] = [ln for grp in inst[:k] for ln in grp]
    L += [ln for grp in inst[k:] for ln in grp]
    files['build.bfg'] = '\n'.join(L) + '\n'
    # configuration: every directory lives below <root>/sys so that nothing can escape the scratch area
    sysroot = os.path.join(root, rng.choice(['sys', 'sys root']))
    names = {'prefix': ['usr', 'opt/my pre', 'p'], 'exec_prefix': ['ex', 'e x/y'], 'bindir': ['b in', 'bin2'],
             'libdir': ['lib 64', 'l'], 'includedir': ['inc', 'my inc/d'], 'datadir': ['sh are'], 'mandir': ['m an', 'mm']}
    args = ['--prefix=' + os.path.join(sysroot, rng.choice(names['prefix']))]
    over = {}
    for k in IROOTS[1:]:
        if rng.random() < 0.35:
            over[k] = os.path.join(sysroot, 'o', rng.choice(names[k]))
            args.append('--%s=%s' % (k.replace('_', '-'), over[k]))
    if rep:
        rep.count('proj:overrides=%d' % len(over))
    # expected installed set, by kind

    def shlib_files(name, versioned, named_itself):
        """a versioned library is three files: the development link (installed when the library itself is named by
        install()/pkg_config()), the soname link that binaries record as DT_NEEDED, and the real file"""
        if not versioned:
            return ['lib%s.so' % name]
        return ['lib%s.so.1' % name, 'lib%s.so.1.2.3' % name] + (['lib%s.so' % name] if named_itself else [])
    exp = [('bindir', 'prog'), ('bindir', (tooldir + '/' if tooldir else '') + 'tool'),
           ('datadir', datadir_arg + '/my data.txt'), ('includedir', 'top.h')]
    hp = (hdrdir_arg + '/') if hdrdir_arg else ''
    exp.append(('includedir', hp + 'foo.h'))
    if recursive:
        exp.append(('includedir', hp + sub + '/x.h'))
    exp += [('libdir', f) for f in shlib_files('foo', ver, pc)]
    for x in extras:
        exp += [('libdir', f) for f in shlib_files(x['name'], x['ver'], x['way'] == 'explicit')]
    if lib2:
        exp.append(('libdir', 'deep/libbaz.so'))
    if man:
        exp.append(('mandir', 'man1/prog.1'))
    if man_gz:
        exp += [('mandir', 'man5/demofmt.5.gz'), ('mandir', 'man3/demo_foo.3')]
    if static_inst:
        exp.append(('libdir', 'libbar.a'))
    # the pre-built shared library is a run-time dependency of an installed program; files of the source tree are
    # installed under their base name
    exp += [('bindir', 'solo'), ('libdir', 'libext.so')]
    if pst_inst:
        exp.append(('libdir', 'libpst.a'))
    if pc:
        exp.append(('libdir', 'pkgconfig/demo.pc'))
    rt_dirs = ['libdir/deep', 'libdir'] if lib2 else ['libdir']
    return {'files': files, 'args': args, 'expected': exp, 'sysroot': sysroot, 'rpath_dirs': rt_dirs, 'bfg': files['build.bfg'],
            'prebuilt': prebuilt, 'programs': {'prog': rt_dirs, 'solo': ['libdir']}}


def tree_files(top):
    out = {}
    for d, dirs, fs in os.walk(top):
        for n in fs + [x for x in dirs if os.path.islink(os.path.join(d, x))]:
            p = os.path.join(d, n)
            out[os.path.relpath(p, top)] = os.readlink(p) if os.path.islink(p) else open(p, 'rb').read()
    return out


def run_make(build, args, extra_env=None, timeout=300, stdin=None):
    e = common.impl_env()
    if extra_env:
        e.update(extra_env)
    p = subprocess.run(['make', '--no-print-directory'] + list(args), cwd=build, env=e, capture_output=True, timeout=timeout,
                       input=stdin)
    return p.returncode, (p.stdout + p.stderr).decode('utf-8', 'replace')


def classify_system(proj, what):
    return ()


def elf_needed(path, env):
    """DT_NEEDED entries of an ELF file (None for anything else)"""
    try:
        with open(path, 'rb') as f:
            if f.read(4) != b'\x7fELF':
                return None
    except OSError:
        return None
    p = subprocess.run(['patchelf', '--print-needed', path], capture_output=True, text=True, env=env)
    return [x for x in p.stdout.split('\n') if x] if p.returncode == 0 else None


def make_prebuilt(rep, s, proj):
    """the libraries a project keeps in its source tree as binary files: made here, outside the project, with gcc / ar"""
    e = common.impl_env()
    tmp = os.path.join(s.root, 'pre.tmp')
    os.mkdir(tmp)
    try:
        for k, pb in enumerate(proj['prebuilt']):
            dst = os.path.join(s.src, pb['path'])
            os.makedirs(os.path.dirname(dst), exist_ok=True)
            with open(os.path.join(tmp, 'p%d.c' % k), 'w') as f:
                f.write(pb['source'])
            base = os.path.basename(dst)
            if pb['kind'] == 'shared':
                cmds = [['gcc', '-shared', '-fPIC', '-Wl,-soname,' + base, '-o', dst, 'p%d.c' % k]]
            else:
                cmds = [['gcc', '-c', '-fPIC', 'p%d.c' % k, '-o', 'p%d.o' % k], ['ar', 'cr', dst, 'p%d.o' % k]]
            for c in cmds:
                p = subprocess.run(c, cwd=tmp, env=e, capture_output=True, text=True, timeout=120)
                if p.returncode != 0:
                    rep.fail('system setup: cannot make the pre-built library %s: %s' % (pb['path'], p.stderr[-300:]),
                             {'obligation': 'system setup'}, found_input=False)
                    return False
        return True
    finally:
        shutil.rmtree(tmp, ignore_errors=True)


def system_project(rep, rng, idx, offset=0):
    """One generated project through configure, build, install, uninstall; returns number of failures."""
    bad = 0
    with project.Scratch('c15') as s:
        proj = gen_project(rng, s.root, rep, idx, offset)
        project.write_tree(s.src, proj['files'])
        if not make_prebuilt(rep, s, proj):
            return bad + 1
        cfgdest = os.path.join(s.root, 'cfg dest')
        rc, out = project.configure(s.src, s.build, 'make', proj['args'], extra_env={'DESTDIR': cfgdest})
        replay = {'build.bfg': proj['bfg'], 'configure_args': proj['args'],
                  'prebuilt (binary files of the source tree, made with gcc -shared / ar from these sources)': proj['prebuilt']}

        def fail(what, **kw):
            nonlocal bad
            r = dict(replay)
            r.update(kw)
            if rep.fail('project %d: %s' % (idx, what), r, classes=classify_system(proj, what)):
                bad += 1
        if rc != 0:
            fail('configure failed', output=out[-1500:])
            return bad
        e = common.impl_env()
        p = subprocess.run(['/venv/bin/python', '-c', DUMP_CODE % (common.VERIF, common.REPO), s.build], cwd=s.src, env=e,
                           capture_output=True, text=True, timeout=120)
        m = re.search(r'^C15DUMP(.*)$', p.stdout, re.M)
        if not m:
            rep.fail('cannot re-execute build.bfg to read the install set', {'obligation': 'system dump', 'out': (p.stdout + p.stderr)[-1500:]},
                     found_input=False)
            return bad + 1
        dump = json.loads(m.group(1))
        rc, out = run_make(s.build, [])
        if rc != 0:
            fail('build failed', output=out[-1500:])
            return bad
        mk_text = project.read(s.build, 'Makefile')

        def model_run(destdir):
            r = common.model_batch([('install.run', [dump['calls'], destdir, dump['srcdir'], dump['idirs']])])[0]
            if r[0] != 0:
                return None
            v = r[1]
            return {'iargv': [[common.d_str(a) for a in c] for c in v[0]], 'uargv': [[common.d_str(a) for a in c] for c in v[1]],
                    'dests': [common.d_str(x) for x in v[2]], 'removed': [common.d_str(x) for x in v[3]],
                    'fs': {common.d_str(x[0]): (common.d_str(x[1]), common.d_opt(common.d_str, x[2])) for x in v[4]},
                    'fs_after': [common.d_str(x[0]) for x in v[5]]}
        # directory values: model vs what Make computes from the emitted assignments
        ivals = [common.d_str(x) for x in common.model_batch([('install.ival', [dump['idirs']])])[0]]
        rc, out = run_make(s.build, ['-f', 'Makefile', '-f', '-', 'c15-print-dirs'],
                           stdin=('c15-print-dirs:\n' + ''.join("\t@printf '%%s\\n' '$(%s)'\n" % n for n in IROOTS)).encode())
        real_dirs = out.split('\n')[:7]
        rep.case('dirs:%r' % (proj['args'],), True)
        if real_dirs != ivals:
            fail('install directory variables: Make gives %r, model %r' % (real_dirs, ivals))
            return bad
        dirval = dict(zip(IROOTS, real_dirs))
        snap0 = (project.snapshot(s.src), project.snapshot(s.build))
        for mode in ('cmdline', 'configure-time', 'empty'):
            if mode == 'cmdline':
                dest = os.path.join(s.root, rng.choice(['dest dir', 'd e s t/x', 'dd']))
                margs = ['DESTDIR=' + dest]
            elif mode == 'configure-time':
                dest = cfgdest
                margs = []
            else:
                dest = ''
                margs = ['DESTDIR=']
            rep.count('destdir:' + mode)
            mr = model_run(dest)
            if mr is None:
                rep.fail('model rejects the install set of a project the implementation accepted',
                         {'obligation': 'W:install.run', 'dump': dump}, found_input=False)
                return bad + 1
            top = dest or proj['sysroot']
            # 1. argv delivered to the tools (recorder in place of doppel/patchelf/rm)
            log = os.path.join(s.root, 'rec.log')
            for tgt, want in (('install', mr['iargv']), ('uninstall', mr['uargv'])):
                if os.path.exists(log):
                    os.remove(log)
                rc, out = run_make(s.build, [tgt] + margs + ['DOPPEL=' + shtools.ARGVREC, 'PATCHELF=' + shtools.ARGVREC + ' patchelf',
                                                              'RM=' + shtools.ARGVREC + ' rm -f'],
                                   extra_env={'ARGVREC_OUT': log})
                recs = shtools.parse_rec(open(log, encoding='utf-8', errors='surrogateescape').read()) if os.path.exists(log) else []
                got = [(['doppel'] if r['argv'][:1] not in (['patchelf'], ['rm']) else []) + r['argv'] for r in recs]
                rep.case('argv:%d:%s:%s' % (idx, mode, tgt), True)
                if rc != 0 or got != want:
                    fail('%s (%s DESTDIR): the tools receive %r, the model says %r' % (tgt, mode, got, want), make_output=out[-800:])
            if os.path.exists(log):
                os.remove(log)
            if os.path.exists(top):
                fail('recorder run created files under %r' % top)
                shutil.rmtree(top, ignore_errors=True)
            # 2. the real install
            rc, out = run_make(s.build, ['install'] + margs)
            if rc != 0:
                fail('make install failed (%s DESTDIR)' % mode, output=out[-1500:])
                continue
            real = tree_files(top)
            realset = sorted(real)
            ntop = os.path.normpath(top)
            want_model = sorted(os.path.relpath(os.path.normpath(d), ntop) for d in mr['dests'])
            want_spec = sorted(os.path.relpath(os.path.normpath(dest + dirval[k] + '/' + rel), ntop) for k, rel in proj['expected'])
            rep.case('tree:%d:%s:%r' % (idx, mode, realset), True)
            if realset != want_spec:
                fail('installed tree (%s DESTDIR) is %r, declared files give %r' % (mode, realset, want_spec))
            if realset != want_model:
                if not bad:
                    rep.fail('model destinations %r differ from the installed tree %r' % (want_model, realset),
                             {'obligation': 'R:doppel/dests', 'bfg': proj['bfg']}, found_input=False)
                bad += 1
            # contents: every installed file is a copy of its source (patched binaries excepted), links stay links
            for d, (src, rp) in mr['fs'].items():
                rel = os.path.relpath(os.path.normpath(d), ntop)
                sp = os.path.join(s.build, src)
                if rel not in real:
                    continue
                if os.path.islink(sp):
                    okc = real[rel] == os.readlink(sp)
                elif rp is not None:
                    pr = subprocess.run(['patchelf', '--print-rpath', os.path.join(top, rel)], capture_output=True, text=True, env=e)
                    got_rp = pr.stdout.strip()
                    rep.case('rpath:%d:%s:%s' % (idx, mode, got_rp), True)
                    okc = got_rp == rp
                    for pname, pdirs in proj['programs'].items():
                        want_rp = ':'.join(dirval['libdir'] + x[len('libdir'):] for x in pdirs)
                        if got_rp != want_rp and os.path.basename(rel) == pname:
                            fail('rpath of installed %s is %r, installed library directories are %r' % (rel, got_rp, want_rp))
                else:
                    okc = real[rel] == open(sp, 'rb').read()
                if not okc:
                    fail('installed %s differs from what the model says (copy of %s, rpath %r)' % (rel, src, rp))
            # mode of data vs program files
            for k, rel in proj['expected']:
                fp = os.path.normpath(dest + dirval[k] + '/' + rel)
                if os.path.exists(fp) and not os.path.islink(fp):
                    isprog = k == 'bindir' or '.so' in rel
                    mode_bits = os.stat(fp).st_mode & 0o111
                    if bool(mode_bits) != isprog:
                        fail('mode of %s: executable bits %o' % (rel, mode_bits))
            # nothing else changed
            snap1 = (project.snapshot(s.src), project.snapshot(s.build))
            if snap1 != snap0:
                diff = [k for i in (0, 1) for k in set(snap0[i]) | set(snap1[i]) if snap0[i].get(k) != snap1[i].get(k)]
                fail('make install changed the source/build directory: %r' % diff[:10])
                snap0 = snap1
            others = sorted(x for x in os.listdir(s.root) if os.path.join(s.root, x) not in (s.src, s.build) and
                            not (ntop + '/').startswith(os.path.join(s.root, x) + '/'))
            if others:
                fail('make install (%s DESTDIR=%r) created %r outside the destination' % (mode, dest, others))
            # what the installed binaries need at run time is installed with them: every DT_NEEDED name that the
            # project itself builds is present in the installed tree (under exactly that name: the loader opens the
            # soname, not the development link or the real file)
            built = {os.path.basename(k) for k in snap0[1]} | {os.path.basename(pb['path']) for pb in proj['prebuilt']}
            have = {os.path.basename(k) for k in real}
            trees = [os.path.normpath(s.src), os.path.normpath(s.build)]
            for rel in realset:
                fp = os.path.join(top, rel)
                needed = None if os.path.islink(fp) else elf_needed(fp, e)
                if needed is not None:
                    # run-time search paths are rewritten to the installed library locations: no entry of any installed
                    # ELF file (the model says nothing here: the file itself is read) may lead into the source or the
                    # build tree, or be relative to where the file was built
                    pr = subprocess.run(['patchelf', '--print-rpath', fp], capture_output=True, text=True, env=e)
                    entries = [x for x in pr.stdout.strip().split(':') if x]
                    rep.count('rpath-entries-read', len(entries))
                    rep.count('installed-elf:' + ('with' if entries else 'without') + '-rpath')
                    for x in entries:
                        nx = os.path.normpath(x)
                        if x.startswith('$ORIGIN') or any((nx + '/').startswith(t + '/') for t in trees) or \
                                not (nx + '/').startswith(os.path.normpath(proj['sysroot']) + '/'):
                            fail('installed %s (%s DESTDIR) searches %r at run time (rpath %r): not an installed library '
                                 'location (source tree %r, build tree %r)' % (rel, mode, x, pr.stdout.strip(), s.src, s.build))
                for nm in needed or []:
                    rep.count('needed:' + ('project library' if nm in built else 'system library'))
                    if nm in built and nm not in have:
                        fail('installed %s (%s DESTDIR) needs %r at run time (DT_NEEDED), which the project builds but does '
                             'not install; installed: %r' % (rel, mode, nm, realset))
            # the installed program runs: from its final location when installed without staging, from the staging
            # area (library directories given to the loader) otherwise - with the build directory out of the way
            # and with the source tree out of the way: an installation does not depend on the tree it was made from
            away = s.build + '.away'
            os.rename(s.build, away)
            os.rename(s.src, s.src + '.away')
            try:
                for pname, pdirs in sorted(proj['programs'].items()):
                    libdirs = [os.path.normpath(dest + dirval['libdir'] + x[len('libdir'):]) for x in pdirs]
                    renv = {'PATH': '/usr/bin:/bin'}
                    if dest:
                        renv['LD_LIBRARY_PATH'] = ':'.join(libdirs)
                    pr = subprocess.run([os.path.normpath(dest + dirval['bindir'] + '/' + pname)], capture_output=True, env=renv,
                                        cwd='/')
                    rep.case('runs:%d:%s:%s' % (idx, mode, pname), True)
                    if pr.returncode != 0:
                        fail('installed %s (%s DESTDIR) does not run once the build directory and the source tree are gone: '
                             'rc=%d %s' % (pname, mode, pr.returncode, pr.stderr.decode('utf-8', 'replace')[-300:]),
                             installed=realset)
            finally:
                os.rename(away, s.build)
                os.rename(s.src + '.away', s.src)
            # 3. uninstall: removes exactly what install created
            rc, out = run_make(s.build, ['uninstall'] + margs)
            left = sorted(tree_files(top)) if os.path.exists(top) else []
            rep.case('uninstall:%d:%s' % (idx, mode), True)
            if rc != 0 or left:
                fail('after make uninstall (%s DESTDIR, rc=%d) these files remain: %r' % (mode, rc, left), output=out[-800:])
            if sorted(mr['removed']) != sorted(mr['dests']) or mr['fs_after']:
                rep.fail('model: uninstall does not remove what install created', {'obligation': 'model symmetry', 'bfg': proj['bfg']},
                         found_input=False)
                bad += 1
            shutil.rmtree(os.path.join(s.root, os.path.relpath(ntop, s.root).split('/')[0]), ignore_errors=True)
        # every destination in the emitted rules goes through $(DESTDIR)
        rules = re.findall(r'^(?:install|uninstall):.*\n((?:\t.*\n)+)', mk_text, re.M)
        rep.case('text:%d' % idx, True)
        nwords = 0
        for body in rules:
            for line in body.strip('\n').split('\n'):
                words = shtools.dash_words(re.sub(r'\$\((\w+)\)', r'@{\1}@', line.strip()).replace('$$', '$')) or []
                for i, w in enumerate(words):
                    if re.search(r'@\{(prefix|exec_prefix|bindir|libdir|includedir|datadir|mandir)\}@', w):
                        nwords += 1
                        if not w.startswith('@{DESTDIR}@') and words[i - 1] != '--set-rpath':
                            fail('rule line %r: word %r names an install directory without $(DESTDIR)' % (line, w))
        if len(rules) != 2 or nwords == 0:
            fail('install/uninstall rules not found in the Makefile')
    return bad


def stage_directories(rep, rng):
    """Installed plain directories (directory(..., include=...)): files-only patterns must install and uninstall
    cleanly; a pattern that also matches sub-directories (known finding) makes uninstall run rm -f on directories."""
    bad = 0
    for pattern, with_dirs in (('**/*.txt', False), ('**', True), ('*', True)):
        with project.Scratch('c15d') as s:
            sub = rng.choice(['sub', 's u b'])
            files = {'data/a.txt': 'a\n', 'data/%s/b.txt' % sub: 'b\n',
                     'build.bfg': "project('demo', version='1.0')\nd = directory('data', include=%r)\n"
                                  "install(d, directory=Path('demo dir', InstallRoot.datadir))\n" % pattern}
            project.write_tree(s.src, files)
            sysroot = os.path.join(s.root, 'sys root')
            dest = os.path.join(s.root, 'de st')
            rc, out = project.configure(s.src, s.build, 'make', ['--prefix=' + sysroot])
            replay = {'build.bfg': files['build.bfg'], 'pattern': pattern}
            rep.case('dir:' + pattern, True)
            rep.count('directory-pattern:' + pattern)
            if rc != 0:
                bad += bool(rep.fail('configure failed for an installed directory (%s)' % pattern, dict(replay, output=out[-800:])))
                continue
            rc, out = run_make(s.build, ['install', 'DESTDIR=' + dest])
            top = dest + sysroot + '/share/demo dir'
            got = sorted(tree_files(top)) if os.path.exists(top) else None
            want = ['a.txt', sub + '/b.txt'] if pattern != '*' else ['a.txt']
            if rc != 0 or got != want or sorted(tree_files(dest)) != sorted('/'.join([sysroot[1:], 'share/demo dir', w]) for w in want):
                bad += bool(rep.fail('install of directory(data, include=%r): rc=%d, tree %r, expected %r' % (pattern, rc, got, want),
                                     dict(replay, output=out[-800:])))
                continue
            rc, out = run_make(s.build, ['uninstall', 'DESTDIR=' + dest])
            left = sorted(tree_files(dest))
            if rc != 0 or left:
                cls = ('uninstall-rm-on-directory',) if (with_dirs and not left and 'Is a directory' in out) else ()
                bad += bool(rep.fail('make uninstall of directory(data, include=%r) exits with %d, files left %r: %s' % (
                    pattern, rc, left, out.strip().split('\n')[-2:]), dict(replay, output=out[-800:]), classes=cls))
    rep.stage('system:installed directories', patterns=3, failures=bad)
    return bad


def stage_system(rep, rng, n):
    bad = 0
    offset = rng.randrange(len(FOO_SCHEDULE))
    for i in range(n):
        bad += system_project(rep, rng, i, offset)
    rep.stage('system:configure+make+install+uninstall', projects=n, failures=bad)
    return bad


def run(rep):
    rng = random.Random(rep.seed)
    thorough = rep.tier == 'thorough'
    # findings recorded for this property but not yet merged into known_findings.json by the coordinator
    fd = os.path.join(common.VERIF, 'findings.d', 'C15.json')
    if os.path.exists(fd):
        have = {k['id'] for k in rep.known}
        rep.known += [k for k in json.load(open(fd)) if k.get('status') == 'open' and k['id'] not in have]
    rep.proof_stage(coqchk=thorough)
    dis = stage_w(rep, rng, 3000 if thorough else 500)
    found = stage_system(rep, rng, 15 if thorough else 2)
    found += stage_directories(rep, rng)
    if dis and not rep.n_with_input:
        i, call, iv, mv = dis[0]
        rep.fail('W:%s - model and implementation disagree (%d cases), e.g. %r: impl %r, model %r' % (
            call[0], len(dis), call[1], iv, mv),
            {'obligation': 'W:' + call[0], 'call': call, 'impl': iv, 'model': mv, 'n_disagreements': len(dis)},
            found_input=False)


def replay(rep, path):
    r = json.load(open(path))
    print(json.dumps(r, indent=1)[:2000])
    run(rep)
