"""C16 - Semantic options have their documented effect with the detected compiler.

Stages: proof; W-correspondence of coq/theories/Misc/Options.v with the real CcBaseCompiler.flags,
CcLinker.flags/lib_flags/_extract_lib_name, option_list and the compile/link _get_flags merge; R-validation of the
accepted-flag grammar against the real gcc and clang; direct oracle: the flags the real bfg9000 code produces for
each semantic option are given to the real gcc/clang (acceptance and effect probes); thorough: generated projects
configured by the real bfg9000 and built with make."""
import contextlib
import json
import os
import random
import shutil
import subprocess
import threading
from concurrent.futures import ThreadPoolExecutor
from unittest import mock

from . import common
from .common import d_str, d_bool, d_opt, d_list

LEVEL = 'proof'
RULE = ('option lists of length 0..7 are drawn with replacement from a per-case pool of 2..6 options (so equal options '
        'recur and de-duplication matters); each option is drawn from all 17 modelled kinds with arguments from small '
        'pools of directories (some of them compiler-default), identifiers, values (absent, empty, numeric, with '
        'blanks/quotes/equals signs), standards, library basenames (matching and not matching lib*.a / lib*.so) and '
        'raw flags; both modes (normal, pkg-config) and a compile-side, link-side and mixed (error-branch) stream; '
        'every finite option of the model enumeration is also run alone. A case is non-trivial when its option list '
        'is non-empty and distinct by its canonical text. Compiler probes: every word of the finite grammar part and '
        'a sample of the parameterised part on gcc and clang (g++/clang++ for the C++ standards). System level: option '
        'placements global / per target / environment / toolchain file (--toolchain FILE with compile_options) in ordered '
        'pairs; raw option words with blanks, double blanks, quotes, backslashes, $, shell operators (string macros, an '
        'rpath directory, a --defsym, a library directory and -lm) given as toolchain-file list (one element = one word), '
        'toolchain-file string and CFLAGS/LDFLAGS/LDLIBS, each built and run: the program compares every macro with '
        'strcmp, the rpath is read back with patchelf; words with a single quote go into projects of their own. '
        'Placement oracle: every semantic compile and link option (incl. lib by name / by file, lib_literal, lib_dir, '
        'rpath_dir, rpath_link_dir) placed among the global options, the options a step derives (libs=, packages, '
        'forwarded) and the step\'s own options (compile_options= / link_options=): the words it translates to alone must '
        'be words of the final command line of the real _get_flags + tool call. Link options by placement, really built: '
        'opts.lib("m") / opts.lib_literal("-lm"), opts.lib_dir + opts.lib of an outside archive (directory option at '
        'the same or another placement) and opts.rpath_dir given in global_link_options, in link_options= of the program, '
        'of a shared library and of a static library (forwarded); the code of that binary calls cbrt/hypot on run-time '
        'values and the outside library; DT_NEEDED and RUNPATH are read back with readelf. Flag variables stay on their '
        'side: configurations whose link-side variables (LDFLAGS, toolchain link_options) hold words that mean something '
        'when compiling (-pthread, -O2, -fopenmp, -ffast-math, -funsigned-char, -fstack-protector-all) and whose '
        'compile-side variables (CPPFLAGS, CFLAGS, CXXFLAGS, toolchain compile_options in list and string form) hold words '
        'that mean something when linking (-s, -no-pie, -Wl,--defsym), sometimes one word on both sides; in process the '
        'final compile and link command lines carry every such word exactly as often as the variables of that side give '
        'it; as real projects (program in C, static and shared library in C or C++, one target asking for opts.pthread() '
        'itself, raw words on targets and globally) every translation unit reports the predefined macros it was compiled '
        'under (exact set, so also what it must NOT see), the program reads a weak absolute symbol, every linked binary '
        'is read back (symbol table, file type) and the command lines make prints are compared word by word. Search-path '
        'variables: projects (C or C++) configured in environments where CPATH / C_INCLUDE_PATH / CPLUS_INCLUDE_PATH / '
        'LIBRARY_PATH list 2..5 project directories (the ones the script names never first, a directory with a competing '
        'header first; sometimes a second variable with other directories); the script names a plain and a system=True '
        'directory by absolute path as includes=[path], includes=[header_directory(path)], opts.include_dir in '
        'compile_options= or global_options, sometimes also one of the compiler\'s own default directories, under '
        'warnings-as-errors; built by make WITHOUT and WITH those variables (order drawn); each build must behave like the '
        'compiler called directly, in the same environment, with one -I/-isystem per named non-default directory (default '
        'list read off cc -E -v in a clean environment), and the printed compile line must carry exactly one such option per '
        'named non-default directory.')
TRUSTED = ('R model: accepted-flag grammar of Misc/Options.v, validated against gcc 12 and clang 14 on this run '
           '(exit status of -fsyntax-only / link probes)',
           'effects (predefined macros, warnings-as-errors, entry point, sections) are observed on the real compilers, '
           'not proved',
           'the harness expands the per-target flags variable into the global one the way Make/Ninja do (C06 covers '
           'the expansion itself) when it ties _get_flags',
           'search-path variables: the reference is the real cc / c++ called with the -I / -isystem words the include_dir '
           'options stand for, in the environment make runs in')
EXPLANATION = ('Level is partial by design: translation tables, option_list de-duplication and merge order are proved '
               'on the model; acceptance and effect by gcc/clang are oracles run on every check. Linux/ELF target, '
               'C and C++ only (no Fortran/Java/ObjC compiler installed; MSVC tables not modelled).')

WARN = ['disable', 'all', 'extra', 'error']
OPTV = ['disable', 'size', 'speed', 'linktime']
TAGS = ['include', 'define', 'std', 'warning', 'debug', 'static', 'optimize', 'pthread', 'pic', 'pch', 'sanitize',
        'lib_dir', 'lib', 'entry', 'gui', 'lib_literal', 'raw']
LIBK = ['name', 'static', 'shared']

DEFAULT_DIRS = ['/usr/include', '/usr/local/include']
DIRS = ['/usr/include', '/usr/local/include', '/opt/a/include', '/opt/b', '/srv/x y', '/l/lib', '/l/lib64', "/q/it's",
        '/opt/a']
IDENTS = ['A', 'FOO', '_x', 'B2', 'NDEBUG', 'A']
VALUES = [None, None, '', '1', '42', 'a b', '"str"', 'x=y', '0x10', "it's", '=']
C_STD_POOL = ['c99', 'c11', 'gnu99', 'c17', 'c89']
ENTRIES = ['main2', '_start2', 'my_entry']
LIBNAMES = ['m', 'foo', 'z-1', 'foo']
BASENAMES = ['libfoo.a', 'libbar.so', 'libx.a.so', 'liby.so.a', 'lib.a', 'lib.so', 'foo.a', 'libfoo.so.1', 'libq',
             'libfoo.ab', 'liblib.a', 'libfoo.a.a', 'xlibfoo.a', 'lib', 'li', 'libfooa', 'libfoo.so', 'LIBfoo.a',
             'libfoo..so', 'libé.a']
RAWS = ['-O1', '-DRAW=1', '-Wl,--as-needed', '-funroll-loops', '-s', '-O1']
LITERALS = ['-lraw', '/abs/libz.a', '-lraw']
PCHS = ['/build/hdr.h', '/build/pre.hpp']


# ----------------------------------------------------------------------------- option specs
def enc_opt(o):
    t = o[0]
    i = TAGS.index(t)
    if t == 'include':
        return [i, o[1], bool(o[2])]
    if t == 'define':
        return [i, o[1], [] if o[2] is None else [o[2]]]
    if t == 'warning':
        return [i, [WARN.index(w) for w in o[1]]]
    if t == 'optimize':
        return [i, [OPTV.index(w) for w in o[1]]]
    if t == 'lib':
        k = o[1]
        return [i, [LIBK.index(k[0])] + list(k[1:])]
    if t == 'gui':
        return [i, bool(o[1])]
    if len(o) == 1:
        return [i]
    return [i, o[1]]


def dec_opt(r):
    t = TAGS[r[0]]
    if t == 'include':
        return (t, d_str(r[1]), d_bool(r[2]))
    if t == 'define':
        return (t, d_str(r[1]), d_opt(d_str, r[2]))
    if t == 'warning':
        return (t, tuple(WARN[w] for w in r[1]))
    if t == 'optimize':
        return (t, tuple(OPTV[w] for w in r[1]))
    if t == 'lib':
        k = r[1]
        return (t, (LIBK[k[0]],) + tuple(d_str(x) for x in k[1:]))
    if t == 'gui':
        return (t, d_bool(r[1]))
    if len(r) == 1:
        return (t,)
    return (t, d_str(r[1]))


def canon_spec(o):
    """Specs as hashable tuples (lists inside become tuples)."""
    return tuple(tuple(x) if isinstance(x, list) else x for x in o)


def corpus_lists():
    """Minimised past disagreements / corner cases (corpus/C16/*.json); they run first."""
    out = []
    d = os.path.join(common.VERIF, 'corpus', 'C16')
    for fn in sorted(os.listdir(d)) if os.path.isdir(d) else []:
        if fn.endswith('.json'):
            for l in json.load(open(os.path.join(d, fn))).get('lists', []):
                out.append([canon_spec(o) for o in l])
    return out


def mk_obj(o):
    from bfg9000 import options as opts
    from bfg9000.path import Path
    from bfg9000.file_types import HeaderDirectory, PrecompiledHeader, Directory, StaticLibrary, SharedLibrary
    t = o[0]
    if t == 'include':
        return opts.include_dir(HeaderDirectory(Path(o[1]), system=o[2]))
    if t == 'define':
        return opts.define(o[1], o[2])
    if t == 'std':
        return opts.std(o[1])
    if t == 'warning':
        return opts.warning(*o[1])
    if t == 'optimize':
        return opts.optimize(*o[1])
    if t == 'pch':
        return opts.pch(PrecompiledHeader(Path(o[1] + '.gch'), 'c'))
    if t == 'lib_dir':
        return opts.lib_dir(Directory(Path(o[1])))
    if t == 'lib':
        k = o[1]
        if k[0] == 'name':
            return opts.lib(k[1])
        cls = StaticLibrary if k[0] == 'static' else SharedLibrary
        return opts.lib(cls(Path(k[1] + '/' + k[2]), 'elf', 'c'))
    if t == 'entry':
        return opts.entry_point(o[1])
    if t == 'gui':
        return opts.gui(o[1])
    if t == 'lib_literal':
        return opts.lib_literal(o[1])
    if t == 'raw':
        return o[1]
    return getattr(opts, {'debug': 'debug', 'static': 'static', 'pthread': 'pthread', 'pic': 'pic',
                          'sanitize': 'sanitize'}[t])()


CC_KINDS = ['include', 'define', 'std', 'warning', 'debug', 'static', 'optimize', 'pthread', 'pic', 'pch', 'sanitize',
            'raw']
LD_KINDS = ['lib_dir', 'lib', 'entry', 'gui', 'lib_literal', 'raw', 'debug', 'static', 'optimize', 'pthread']


def gen_opt(rng, kinds):
    t = rng.choice(kinds)
    if t == 'include':
        return (t, rng.choice(DIRS), rng.random() < 0.5)
    if t == 'define':
        return (t, rng.choice(IDENTS), rng.choice(VALUES))
    if t == 'std':
        return (t, rng.choice(C_STD_POOL))
    if t == 'warning':
        return (t, tuple(rng.choice(WARN) for _ in range(rng.choice([0, 1, 1, 2, 3]))))
    if t == 'optimize':
        return (t, tuple(rng.choice(OPTV) for _ in range(rng.choice([0, 1, 1, 2, 3]))))
    if t == 'pch':
        return (t, rng.choice(PCHS))
    if t == 'lib_dir':
        return (t, rng.choice(DIRS))
    if t == 'lib':
        k = rng.choice(LIBK)
        if k == 'name':
            return (t, (k, rng.choice(LIBNAMES)))
        base = rng.choice(BASENAMES if rng.random() < 0.5 else BASENAMES[:5])
        return (t, (k, rng.choice(DIRS), base))
    if t == 'entry':
        return (t, rng.choice(ENTRIES))
    if t == 'gui':
        return (t, rng.random() < 0.5)
    if t == 'lib_literal':
        return (t, rng.choice(LITERALS))
    if t == 'raw':
        return (t, rng.choice(RAWS))
    return (t,)


def gen_opts(rng, rep, stream):
    kinds = {'cc': CC_KINDS, 'ld': LD_KINDS, 'mixed': TAGS}[stream]
    if stream != 'mixed' and rng.random() < 0.08:
        kinds = TAGS                       # error branch inside a mostly valid stream
    pool = [gen_opt(rng, kinds) for _ in range(rng.randint(2, 6))]
    n = rng.choice([0, 1, 2, 2, 3, 3, 4, 5, 6, 7])
    l = [rng.choice(pool) for _ in range(n)]
    if rep is not None:
        rep.count('len:%d' % n)
        rep.count('stream:' + stream)
        for o in l:
            rep.count('kind:' + o[0])
        if len(set(l)) < len(l):
            rep.count('has-duplicate')
    return l


# ----------------------------------------------------------------------------- the real tools, mocked environment
class Tools:
    """CcBuilder for C on a linux target, built the way test/unit/tools/cc does (shell.which / shell.execute mocked)."""

    def __init__(self, variables=None, default_dirs=DEFAULT_DIRS):
        self.variables = variables or {}
        self.default_dirs = default_dirs
        self._stack = contextlib.ExitStack()

    def _which(self, *a, **k):
        return ['cc']

    def _execute(self, args, **kwargs):
        args = [a if isinstance(a, str) else str(a) for a in args]
        if '--version' in args:
            return 'gcc (Debian 12.2.0-14) 12.2.0\nCopyright (C) 2022 Free Software Foundation, Inc.'
        if '-Wl,--version' in args:
            return '', 'COLLECT_GCC=gcc\n/usr/bin/collect2 --version\n/usr/bin/ld --version\n'
        if '-print-search-dirs' in args:
            return 'libraries: =/lib/search/dir1:/lib/search/dir2\n'
        if '-print-sysroot' in args:
            return '/'
        if '-Wp,-v' in args:
            return ('#include <...> search starts here:\n' + ''.join(' %s\n' % d for d in self.default_dirs) +
                    'End of search list.\n')
        if '--verbose' in args:
            return 'SEARCH_DIR("/usr")\n'
        raise OSError('unknown command: {}'.format(args))

    def __enter__(self):
        from bfg9000.environment import Environment, EnvVarDict
        from bfg9000.path import abspath, InstallRoot
        from bfg9000.languages import Languages
        from bfg9000.tools.cc import CcBuilder
        st = self._stack
        st.enter_context(mock.patch('bfg9000.shell.which', self._which))
        st.enter_context(mock.patch('bfg9000.shell.execute', self._execute))
        with mock.patch('bfg9000.platforms.core.platform_name', return_value='linux'):
            env = Environment(abspath('/bfgdir'), None, None, abspath('/srcdir'), abspath('/builddir'))
        env.finalize({InstallRoot.prefix: abspath('/prefix')}, (False, False), False)
        env.variables = EnvVarDict()
        env.variables.update(self.variables)
        langs = Languages()
        with langs.make('c') as x:
            x.vars(compiler='CC', flags='CFLAGS')
        self.env = env
        self.builder = CcBuilder(env, langs['c'], ['cc'], True, self._execute(['--version']))
        self.compiler = self.builder.compiler
        self.linker = self.builder.linker('executable')
        return self

    def __exit__(self, *a):
        self._stack.close()

    def canon_flag(self, f):
        from bfg9000 import safe_str
        from bfg9000.path import BasePath
        if isinstance(f, str):
            return f
        if isinstance(f, BasePath):
            return f.string(self.env.base_dirs)
        if isinstance(f, safe_str.jbos):
            return ''.join(self.canon_flag(b) for b in f.bits)
        if isinstance(f, safe_str.literal_types):
            return f.string
        if hasattr(f, 'path'):
            return self.canon_flag(f.path)
        if hasattr(f, 'command'):
            return ' '.join(f.command)
        raise TypeError('flag of unexpected type %r' % (type(f),))

    def canon(self, fn):
        try:
            return ('ok', [self.canon_flag(f) for f in fn()])
        except TypeError:
            return 'TypeError'
        except ValueError:
            return 'ValueError'

    def output(self):
        from bfg9000.file_types import Executable
        from bfg9000.path import Path
        return Executable(Path('prog'), 'elf', 'c')


def impl_fixed():
    """Which variant of the optimisation table does the implementation have (DESIGN 7.2)?"""
    from bfg9000 import options as opts
    from bfg9000.tools.cc.flags import optimize_flags
    return optimize_flags.get(opts.OptimizeValue.size) != '-Osize'


def impl_dfix():
    """Does the implementation keep an explicitly empty define value (-DNAME=)?  (finding C16-define-empty-value)"""
    with Tools() as t:
        return t.canon(lambda: t.compiler.flags([mk_obj(('define', 'E', ''))])) == ('ok', ['-DE='])


def dec_res(r):
    if r[0] == 0:
        return ('ok', [d_str(f) for f in r[1]])
    return 'TypeError' if r[0] == 1 else 'ValueError'


def dec(name, r):
    if name in ('opts.cc_flags', 'opts.ld_flags', 'opts.ld_lib_flags', 'opts.cc_final', 'opts.ld_final'):
        return dec_res(r)
    if name == 'opts.extract_lib_name':
        return d_opt(d_str, r)
    if name in ('opts.ol_make', 'opts.ol_add'):
        return [dec_opt(o) for o in r]
    raise KeyError(name)


# ----------------------------------------------------------------------------- W-correspondence
def finite_opts():
    raw = common.model_batch([('opts.finite_opts', [])])[0]
    return [dec_opt(o) for o in raw]


def stage_w_tables(rep, rng, n, fixed, dfix):
    from bfg9000.file_types import StaticLibrary
    from bfg9000.path import Path
    calls, impl = [], []
    with Tools() as t:
        out = t.output()
        singles = corpus_lists() + [[o] for o in finite_opts()]
        singles += [[('define', 'X', v)] for v in VALUES] + [[('include', d, s)] for d in DIRS for s in (False, True)]
        singles += [[('lib', (k, '/l/lib', b))] for k in ('static', 'shared') for b in BASENAMES]
        lists = singles + [gen_opts(rng, rep, rng.choice(['cc', 'cc', 'ld', 'ld', 'mixed'])) for _ in range(n)]
        for l in lists:
            rep.case('f:' + repr(l), len(l) > 0)
            for pk in (False, True):
                mode = 'pkg-config' if pk else 'normal'
                e = [enc_opt(o) for o in l]
                calls.append(('opts.cc_flags', [fixed, dfix, pk, DEFAULT_DIRS, e]))
                impl.append(t.canon(lambda: t.compiler.flags([mk_obj(o) for o in l], mode=mode)))
                calls.append(('opts.ld_flags', [fixed, pk, e]))
                impl.append(t.canon(lambda: t.linker.flags([mk_obj(o) for o in l], output=out, mode=mode)))
                calls.append(('opts.ld_lib_flags', [pk, e]))
                impl.append(t.canon(lambda: t.linker.lib_flags([mk_obj(o) for o in l], mode=mode)))
                for r in impl[-3:]:
                    rep.count('result:' + (r if isinstance(r, str) else 'ok'))
        for b in BASENAMES + [rng.choice(['lib', 'li', '', 'x']) + rng.choice(['', 'a', 'foo', '.a', 'b.so']) +
                              rng.choice(['', '.a', '.so', '.a.so', '.so.a', 'a', '.']) for _ in range(n // 4)]:
            if not b or '/' in b or b in ('.', '..'):
                continue
            rep.case('n:' + b, True)
            calls.append(('opts.extract_lib_name', [b]))
            try:
                impl.append(t.linker._extract_lib_name(StaticLibrary(Path('/d/' + b), 'elf', 'c')))
            except ValueError:
                impl.append(None)
    for c in calls[:2]:
        rep.sample({'stage': 'W:tables', 'call': c[0], 'arg': c[1]})
    return common.compare_model(rep, 'W:tables', calls, impl, dec)


def stage_w_optlist(rep, rng, n, exhaustive):
    from bfg9000 import options as opts
    calls, impl = [], []

    def survivors(objs, specs, result):
        ids = {id(o): s for o, s in zip(objs, specs)}
        out = []
        for o in result:
            if isinstance(o, str):
                out.append(('raw', o))
            else:
                out.append(canon_spec(ids[id(o)]))
        return out

    cases = [(l, []) for l in corpus_lists()] + [(l[:1], l[1:]) for l in corpus_lists()]
    for _ in range(n):
        cases.append((gen_opts(rng, rep, 'mixed'), gen_opts(rng, None, 'mixed')))
    if exhaustive:
        pool = [('include', '/opt/b', False), ('include', '/opt/b', True), ('define', 'A', None), ('define', 'A', ''),
                ('define', 'A', '1'), ('optimize', ('speed',)), ('optimize', ('disable',)), ('raw', '-O1'), ('pic',),
                ('lib', ('name', 'm')), ('lib', ('static', '/l/lib', 'libm.a')), ('lib', ('shared', '/l/lib', 'libm.a'))]
        for a in pool:
            for b in pool:
                cases.append(([a, b], []))
                cases.append(([a], [b]))
                for c in pool:
                    cases.append(([a, b], [c]))
                    cases.append(([a], [b, c]))
    for a, b in cases:
        rep.case('ol:' + repr((a, b)), len(a) + len(b) > 0)
        oa, ob = [mk_obj(o) for o in a], [mk_obj(o) for o in b]
        calls.append(('opts.ol_make', [[enc_opt(o) for o in a]]))
        impl.append(survivors(oa, a, opts.option_list(oa)))
        calls.append(('opts.ol_add', [[enc_opt(o) for o in a], [enc_opt(o) for o in b]]))
        impl.append(survivors(oa + ob, a + b, opts.option_list(oa) + opts.option_list(ob)))
    dis = common.compare_model(rep, 'W:option_list', calls, impl,
                               lambda name, r: [canon_spec(o) for o in dec(name, r)])
    return dis


class _Var:
    """A build-file variable reference (not iterable, so iterutils.iterate treats it as one word)."""

    def __init__(self, kind, name):
        self.kind, self.name = kind, name

    def __hash__(self):
        return hash((self.kind, self.name))

    def __eq__(self, o):
        return isinstance(o, _Var) and (self.kind, self.name) == (o.kind, o.name)


class _Backend:
    """Stands for backends.make/ninja.writer in _get_flags: records the two variables instead of writing them."""

    def __init__(self):
        self.globals = {}

    def flags_vars(self, name, value, buildfile):
        g, v = _Var('GLOBAL', name), _Var('VAR', name)
        self.globals[g] = list(value)
        return g, v

    def var(self, name):
        return _Var('VAR', name)

    def expand(self, argv, variables):
        """What Make/Ninja do with the recorded variables: the per-target value if the rule set one, else the
        default binding VAR = $(GLOBAL_VAR)."""
        out = []
        for a in argv:
            if isinstance(a, _Var) and a.kind == 'VAR':
                out.extend(self.expand(variables.get(a, [_Var('GLOBAL', a.name)]), variables))
            elif isinstance(a, _Var):
                out.extend(self.globals[a])
            else:
                out.append(a)
        return out


def stage_w_merge(rep, rng, n, fixed, dfix):
    from bfg9000 import options as opts
    from bfg9000.builtins import compile as bcompile, link as blink
    calls, impl = [], []
    envs = [{}, {'CFLAGS': '-O1 -DENV=1', 'CPPFLAGS': '-DCPP', 'LDFLAGS': '-Wl,--as-needed -O1', 'LDLIBS': '-lm'},
            {'CFLAGS': "-DQ='a b'", 'LDLIBS': '-lz -lm'}, {'LDFLAGS': '-pthread -s', 'CPPFLAGS': '-DCPP=2 -s'}]
    for vi, variables in enumerate(envs):
        with Tools(variables) as t:
            StubC = type('StubCompile', (bcompile.BaseCompile,), {})
            StubL = type('StubLink', (blink.DynamicLink,), {})
            # what the flag variables give each side, read off the variables themselves (not off the builder: merging
            # them is CcBuilder.__init__, which is part of what is tied)
            import shlex
            envc = shlex.split(variables.get('CPPFLAGS', '')) + shlex.split(variables.get('CFLAGS', ''))
            envl = shlex.split(variables.get('LDFLAGS', ''))
            envlibs = shlex.split(variables.get('LDLIBS', ''))
            for _ in range(n // len(envs)):
                for side in ('cc', 'ld'):
                    stream = side if rng.random() < 0.85 else 'mixed'
                    g, it, us = gen_opts(rng, rep, stream), gen_opts(rng, None, stream), gen_opts(rng, None, stream)
                    rep.case('m:%d:%s:%r' % (vi, side, (g, it, us)), len(g) + len(it) + len(us) > 0)
                    gobj = list(opts.option_list([mk_obj(o) for o in g]))    # global_options(): one listify per call
                    genc = [enc_opt(o) for o in dec_ol(g)]
                    ienc, uenc = [enc_opt(o) for o in it], [enc_opt(o) for o in us]
                    be = _Backend()
                    if side == 'cc':
                        st = object.__new__(StubC)
                        st.compiler = t.compiler
                        st._internal_options = opts.option_list([mk_obj(o) for o in it])
                        st.user_options = opts.option_list([mk_obj(o) for o in us])
                        st.raw_output = None
                        deps = rng.choice([None, 'out.o.d'])

                        def run_cc():
                            variables, kw = bcompile._get_flags(be, st, {'compile_options': {'c': gobj}}, None)
                            argv = t.compiler('in.c', 'out.o', deps=deps, **kw)
                            return be.expand(argv, variables)
                        calls.append(('opts.cc_final', [fixed, DEFAULT_DIRS, ['cc'], [t.canon_flag(f) for f in
                                                                                    t.compiler._always_flags],
                                                        envc, genc, ienc, uenc, 'in.c', 'out.o',
                                                        [] if deps is None else [deps], dfix]))
                        impl.append(t.canon(run_cc))
                    else:
                        st = object.__new__(StubL)
                        st.linker = t.linker
                        st._internal_options = opts.option_list([mk_obj(o) for o in it])
                        st.user_options = opts.option_list([mk_obj(o) for o in us])
                        st.raw_output = t.output()

                        def run_ld():
                            bi = {'link_options': {'dynamic': {t.linker.family: gobj}}}
                            variables, kw = blink._get_flags(be, st, bi, None)
                            argv = t.linker(['a.o', 'b.o'], 'prog', **kw)
                            return be.expand(argv, variables)
                        calls.append(('opts.ld_final', [fixed, ['cc'], [t.canon_flag(f) for f in
                                                                        t.linker._always_flags],
                                                        envl, envlibs, genc, ienc, uenc, ['a.o', 'b.o'], 'prog']))
                        impl.append(t.canon(run_ld))
                    r = impl[-1]
                    rep.count('merge:' + (r if isinstance(r, str) else 'ok'))
    for c in calls[:1]:
        rep.sample({'stage': 'W:merge', 'call': c[0], 'arg': c[1]})
    return common.compare_model(rep, 'W:merge', calls, impl, dec)


def dec_ol(specs):
    """Python-side replica of option_list de-duplication on specs, used only to feed the model the global list the
    way global_options() stores it (the de-duplication itself is tied in W:option_list)."""
    out = []

    def key(o):
        return ('include', o[1]) if o[0] == 'include' else canon_spec(o)
    for o in specs:
        if o[0] == 'raw' or all(key(o) != key(p) for p in out):
            out.append(o)
    return out


# ----------------------------------------------------------------------------- the real compilers
class Compilers:
    def __init__(self, root):
        self.root = root
        self.cache = {}
        self.lock = threading.Lock()
        self.n = 0
        self.seq = 0
        with open(os.path.join(root, 'probe.c'), 'w') as f:
            f.write('#include <stddef.h>\nint main(void) { return 0; }\n')
        with open(os.path.join(root, 'probe.cpp'), 'w') as f:
            f.write('#include <cstddef>\nint main() { return 0; }\n')
        os.mkdir(os.path.join(root, 'inc dir'))
        with open(os.path.join(root, 'inc dir', 'c16hdr.h'), 'w') as f:
            f.write('#define C16_FROM_HEADER 7\n')
        self.env = dict(os.environ, LC_ALL='C')
        for k in ('CFLAGS', 'CPPFLAGS', 'CXXFLAGS', 'LDFLAGS', 'LDLIBS', 'CPATH', 'LIBRARY_PATH'):
            self.env.pop(k, None)

    def run(self, argv):
        """argv[0] is the tool; cached by argv. Returns (rc, stdout, stderr)."""
        key = tuple(argv)
        with self.lock:
            if key in self.cache:
                return self.cache[key]
            self.n += 1
        try:
            p = subprocess.run(list(argv), cwd=self.root, env=self.env, capture_output=True, text=True, timeout=120,
                               errors='replace')
            r = (p.returncode, p.stdout, p.stderr)
        except (OSError, subprocess.TimeoutExpired) as e:
            r = (127, '', repr(e))
        with self.lock:
            self.cache[key] = r
        return r

    def write(self, text, suffix='.c'):
        with self.lock:
            self.seq += 1
            name = 'src%d%s' % (self.seq, suffix)
        with open(os.path.join(self.root, name), 'w') as f:
            f.write(text)
        return name

    def many(self, argvs):
        with ThreadPoolExecutor(max_workers=8) as ex:
            return list(ex.map(self.run, argvs))


CC = {'c': ['gcc', 'clang'], 'c++': ['g++', 'clang++']}


def stage_r_grammar(rep, rng, cs, thorough):
    """Every word of the finite part of the grammar, and a sample of the parameterised part, must be accepted by the
    real compilers (exit status 0 on a probe file)."""
    g = common.model_batch([('opts.grammar', [])])[0]
    finite = [d_str(x) for x in g[0]]
    c_stds = [d_str(x) for x in g[1]]
    cxx_stds = [d_str(x) for x in g[2]]
    jobs = []          # (lang, words)
    for f in finite:
        jobs.append(('c', [f]))
        if thorough:
            jobs.append(('c++', [f]))
    jobs += [('c', ['-std=' + s]) for s in c_stds] + [('c++', ['-std=' + s]) for s in cxx_stds]
    inc = os.path.join(cs.root, 'inc dir')
    param = [['-I' + inc], ['-isystem', inc], ['-include', os.path.join(inc, 'c16hdr.h')], ['-DA'], ['-D_x=1'],
             ['-DFOO=a b'], ['-DFOO="str"'], ['-DFOO=x=y'], ["-DB2=it's"], ['-DFOO='], ['-L' + inc], ['-L/l/lib'],
             ['-lm'], ['-Wl,-e,main'], ['-Wl,-rpath,/l/lib:/opt/b'], ['-I/nonexistent/x y'], ['-lz-1']]
    pool = 'abcXYZ019_ =+-,.:/%@#~^"\'()[]{}<>|&;$*?!\\\t'
    for _ in range(12 if thorough else 4):
        v = ''.join(rng.choice(pool) for _ in range(rng.randint(0, 8)))
        param.append(['-DC16_R=' + v])
        d = '/' + ''.join(rng.choice(pool) for _ in range(rng.randint(1, 8)))
        param.append([rng.choice(['-I', '-L']) + d])
    jobs += [('c', w) for w in param]
    # the model must accept each of these words too (otherwise the probe says nothing about the grammar)
    acc = common.model_batch([('opts.accepted_args', [0 if lang == 'c' else 1, w]) for lang, w in jobs])
    argvs, meta = [], []
    for (lang, w), a in zip(jobs, acc):
        if not d_bool(a):
            rep.fail('R:grammar - the accepted-flag grammar of the model rejects the probe word %r it is validated on' % (w,),
                     {'obligation': 'R:grammar', 'words': w}, found_input=False)
            continue
        src = 'probe.c' if lang == 'c' else 'probe.cpp'
        for tool in CC[lang]:
            argvs.append([tool, '-x', lang, '-fsyntax-only'] + w + [src])
            meta.append((tool, w))
    res = cs.many(argvs)
    bad = 0
    for (tool, w), (rc, out, err) in zip(meta, res):
        rep.case('r:%s:%r' % (tool, w), True)
        rep.count('r:' + tool)
        if rc != 0:
            bad += 1
            rep.fail('R:grammar - %s rejects %r although the grammar of the model accepts it: %s' % (tool, w, err[-300:]),
                     {'obligation': 'R:grammar', 'tool': tool, 'words': w, 'stderr': err[-1000:]}, found_input=False)
    # and the grammar must not be vacuous: words it rejects
    rej = common.model_batch([('opts.accepted_args', [0, w]) for w in (['-Osize'], ['-isystem'], ['-std=c++14'],
                                                                        ['-D1X'], ['-I'], ['-Wfoo'], ['-DX=a\nb'])])
    if any(d_bool(a) for a in rej):
        rep.fail('R:grammar - the grammar accepts a word it must reject', {'obligation': 'R:grammar (rejections)'},
                 found_input=False)
    rep.stage('R:grammar', words=len(jobs), invocations=len(argvs), rejected_by_compiler=bad)
    return bad


# ----------------------------------------------------------------------------- direct oracle on the implementation
def classify(spec, flags):
    cl = []
    if spec[0] == 'optimize' and 'size' in spec[1] and '-Osize' in flags:
        cl.append('optimize-size-flag')
    if spec[0] == 'define' and spec[2] == '':
        cl.append('define-empty-value')
    return tuple(cl)


def macros(text):
    m = {}
    for line in text.split('\n'):
        p = line.split(None, 2)
        if len(p) >= 2 and p[0] == '#define':
            m[p[1]] = p[2] if len(p) > 2 else ''
    return m


def stage_oracle(rep, rng, cs, thorough, budget=1):
    """For each semantic option with each documented value: the flags produced by the real bfg9000 translation are
    given to the real gcc and clang; they must be accepted and have the documented effect."""
    inc = os.path.join(cs.root, 'inc dir')
    hdr = os.path.join(inc, 'c16hdr.h')
    unused = cs.write('static int f(int p) { int unused; return 0; }\nint main(void) { return f(1); }\n')
    signcmp = cs.write('int g(int a, unsigned b) { return a < b; }\nint main(void) { return g(1, 2u); }\n')
    use_hdr = cs.write('#include <c16hdr.h>\n_Static_assert(C16_FROM_HEADER == 7, "header");\nint main(void){return 0;}\n')
    use_pch = cs.write('_Static_assert(C16_FROM_HEADER == 7, "header");\nint main(void){return 0;}\n')
    asan = cs.write('#if defined(__SANITIZE_ADDRESS__)\n#elif defined(__has_feature)\n# if !__has_feature(address_sanitizer)\n'
                    '#  error no asan\n# endif\n#else\n# error no asan\n#endif\nint main(void){return 0;}\n')
    entry = cs.write('int my_entry(void) { return 0; }\nint main(void) { return 0; }\n')
    libsrc = cs.write('int c16_libfn(void) { return 42; }\n')
    uselib = cs.write('int c16_libfn(void);\nint main(void) { return c16_libfn() == 42 ? 0 : 1; }\n')
    libdir = os.path.join(cs.root, 'lib dir')
    os.mkdir(libdir)
    failures = []

    def fail(what, spec, flags, tool, extra=None):
        rp = {'option': list(spec), 'flags': flags, 'tool': tool,
              'replay_hint': 'PYTHONPATH=/repo python -c "see harness/c16.py Tools(); compiler.flags([option])"'}
        rp.update(extra or {})
        if rep.fail('%s: option %r -> flags %r, %s' % (what, spec, flags, tool), rp, classes=classify(spec, flags)):
            failures.append(spec)        # known findings do not count as the failing input of a broken obligation

    with Tools(default_dirs=[]) as t:
        def ccf(spec):
            return [t.canon_flag(f) for f in t.compiler.flags([mk_obj(spec)])]

        def ldf(spec):
            o = [mk_obj(spec)]
            return ([t.canon_flag(f) for f in t.linker.flags(o, output=t.output())],
                    [t.canon_flag(f) for f in t.linker.lib_flags(o)])

        checks = []       # (spec, flags, lang, kind, payload)
        # 1. acceptance of everything the finite enumeration produces, compile side and link side
        for spec in finite_opts():
            rep.case('o:' + repr(spec), True)
            try:
                fl = ccf(spec)
                checks.append((spec, fl, 'c', 'accept', None))
            except TypeError:
                pass
            try:
                lf, ll = ldf(spec)
                if lf or ll:
                    checks.append((spec, lf + ll, 'c', 'link', None))
            except TypeError:
                pass
        # 2. effects
        E = checks.append
        for vals, want in ((('disable',), {'__OPTIMIZE__': False}), (('size',), {'__OPTIMIZE_SIZE__': True, '__OPTIMIZE__': True}),
                           (('speed',), {'__OPTIMIZE__': True, '__OPTIMIZE_SIZE__': False}),
                           (('speed', 'disable'), {'__OPTIMIZE__': False}), (('disable', 'size'), {'__OPTIMIZE_SIZE__': True})):
            E((('optimize', vals), ccf(('optimize', vals)), 'c', 'macros', want))
        E((('optimize', ('linktime',)), ccf(('optimize', ('linktime',))), 'c', 'lto', None))
        E((('pic',), ccf(('pic',)), 'c', 'macros', {'__PIC__': True, '__PIE__': False}))
        E((('pthread',), ccf(('pthread',)), 'c', 'macros', {'_REENTRANT': True}))
        E((('debug',), ccf(('debug',)), 'c', 'debuginfo', None))
        E((('sanitize',), ccf(('sanitize',)), 'c', 'compile', asan))
        E((('warning', ('all',)), ccf(('warning', ('all',))), 'c', 'warns', (unused, True, 'unused')))
        E((('warning', ('extra',)), ccf(('warning', ('extra',))), 'c', 'warns', (signcmp, True, 'Wsign-compare')))
        E((('warning', ('all', 'error')), ccf(('warning', ('all', 'error'))), 'c', 'fails', unused))
        E((('warning', ('all', 'disable')), ccf(('warning', ('all', 'disable'))), 'c', 'warns', (unused, False, 'warning')))
        for s, v in (('c99', '199901L'), ('c11', '201112L'), ('gnu99', '199901L'), ('c17', '201710L')):
            E((('std', s), ccf(('std', s)), 'c', 'macros', {'__STDC_VERSION__': v}))
        for s, v in (('c++11', '201103L'), ('c++14', '201402L'), ('c++17', '201703L')):
            E((('std', s), ccf(('std', s)), 'c++', 'macros', {'__cplusplus': v}))
        defs = [('A', None, 'A == 1'), ('FOO', '42', 'FOO == 42'), ('_x', '0x10', '_x == 16'), ('B2', '(1+2)', 'B2 == 3'),
                ('S', '"a b"', 'sizeof(S) == 4'), ('E', '', '1 E == 1')]
        if thorough:
            defs += [('Q', "'x'", "Q == 'x'"), ('T', 'x=y', '1'), ('NEG', '-1', 'NEG + 1 == 0')]
        for n_, v_, cond in defs:
            src = cs.write('_Static_assert(%s, "define");\nint main(void){return 0;}\n' % cond)
            E((('define', n_, v_), ccf(('define', n_, v_)), 'c', 'compile', src))
        E((('include', inc, False), ccf(('include', inc, False)), 'c', 'compile', use_hdr))
        E((('include', inc, True), ccf(('include', inc, True)), 'c', 'compile', use_hdr))
        E((('pch', hdr[:-2] + '.h'), ccf(('pch', hdr[:-2] + '.h')), 'c', 'compile', use_pch))
        lf, ll = ldf(('entry', 'my_entry'))
        E((('entry', 'my_entry'), lf + ll, 'c', 'entry', entry))
        lf, ll = ldf(('static',))
        E((('static',), lf + ll, 'c', 'static', None))
        lf, ll = ldf(('pthread',))
        E((('pthread',), lf + ll, 'c', 'link', None))

        # run them
        jobs = []
        for spec, fl, lang, kind, payload in checks:
            src = 'probe.c' if lang == 'c' else 'probe.cpp'
            for tool in CC[lang]:
                if kind == 'accept':
                    argv = [tool, '-x', lang, '-fsyntax-only'] + fl + [src]
                elif kind == 'macros':
                    argv = [tool, '-x', lang, '-dM', '-E'] + fl + ['/dev/null']
                elif kind in ('compile', 'fails'):
                    argv = [tool, '-x', 'c', '-fsyntax-only'] + fl + [payload]
                elif kind == 'warns':
                    argv = [tool, '-x', 'c', '-fsyntax-only'] + fl + [payload[0]]
                elif kind in ('debuginfo', 'lto'):
                    argv = [tool, '-x', 'c'] + fl + ['-c', 'probe.c', '-o', '%s-%s.o' % (kind, tool)]
                elif kind == 'link':
                    argv = [tool] + fl + ['probe.c', '-o', 'link-%s-%d' % (tool, len(jobs))]
                elif kind == 'entry':
                    argv = [tool] + fl + [payload, '-o', 'entry-' + tool]
                elif kind == 'static':
                    argv = [tool] + fl + ['probe.c', '-o', 'static-' + tool]
                jobs.append((spec, fl, tool, kind, payload, argv))
        res = cs.many([j[-1] for j in jobs])
        for (spec, fl, tool, kind, payload, argv), (rc, out, err) in zip(jobs, res):
            rep.count('oracle:' + kind)
            if kind == 'fails':
                if rc == 0:
                    fail('a warning is not turned into an error', spec, fl, tool)
                continue
            if rc != 0:
                what = ('the effect probe (%s) does not compile with these flags' % open(os.path.join(cs.root, payload)).read()
                        .split('\n')[0] if kind == 'compile' else 'flags rejected by the compiler')
                fail('%s (exit %d: %s)' % (what, rc, err.strip()[-200:]), spec, fl, tool)
                continue
            if kind == 'macros':
                m = macros(out)
                for k, want in payload.items():
                    ok = (k in m) == want if isinstance(want, bool) else m.get(k) == want
                    if not ok:
                        fail('predefined macro %s is %r, expected %r' % (k, m.get(k), want), spec, fl, tool)
            elif kind == 'warns':
                if (payload[2] in err) != payload[1]:
                    fail('warning text %r %s in the diagnostics' % (payload[2], 'missing' if payload[1] else 'present'),
                         spec, fl, tool, {'stderr': err[-500:]})
            elif kind == 'debuginfo':
                r = cs.run(['readelf', '-S', 'debuginfo-%s.o' % tool])
                if '.debug_info' not in r[1]:
                    fail('no .debug_info section in the object', spec, fl, tool)
            elif kind == 'lto':
                data = open(os.path.join(cs.root, 'lto-%s.o' % tool), 'rb').read()
                r = cs.run(['readelf', '-S', 'lto-%s.o' % tool])
                if not (data[:4] == b'BC\xc0\xde' or '.gnu.lto_' in r[1]):
                    fail('object carries no link-time-optimisation payload', spec, fl, tool)
            elif kind == 'entry':
                h = cs.run(['readelf', '-h', 'entry-' + tool])[1]
                nm = cs.run(['nm', 'entry-' + tool])[1]
                ent = [l.split(':')[1].strip() for l in h.split('\n') if 'Entry point' in l]
                sym = [l.split()[0] for l in nm.split('\n') if l.endswith(' T my_entry')]
                if not ent or not sym or int(ent[0], 16) != int(sym[0], 16):
                    fail('entry point %r is not the address of my_entry %r' % (ent, sym), spec, fl, tool)
            elif kind == 'static':
                h = cs.run(['readelf', '-l', 'static-' + tool])[1]
                if 'INTERP' in h or 'Requesting program interpreter' in h:
                    fail('statically linked program still requests a program interpreter', spec, fl, tool)

        # 3. lib / lib_dir: a static library built here, linked through the flags of the real linker object
        for tool in CC['c']:
            o = 'c16lib-%s.o' % tool
            r1 = cs.run([tool, '-c', libsrc, '-o', o])
            a = os.path.join(libdir, 'libc16%s.a' % tool)
            r2 = cs.run(['ar', 'cr', a, o])
            if r1[0] or r2[0]:
                rep.fail('oracle setup: cannot build the probe library with %s' % tool, {'obligation': 'oracle setup'},
                         found_input=False)
                continue
            variants = [[('lib_dir', libdir), ('lib', ('name', 'c16' + tool))],
                        [('lib', ('static', libdir, 'libc16%s.a' % tool))]]
            for specs in variants:
                objs = [mk_obj(s) for s in specs]
                fl = [t.canon_flag(f) for f in t.linker.flags(objs, output=t.output())]
                ll = [t.canon_flag(f) for f in t.linker.lib_flags(objs)]
                rep.case('o:lib:%s:%r' % (tool, specs), True)
                rc, out, err = cs.run([tool] + fl + [uselib] + ll + ['-o', 'uselib-%s-%d' % (tool, len(specs))])
                rep.count('oracle:lib')
                if rc != 0:
                    fail('link with library flags fails (%s)' % err.strip()[-200:], tuple(specs[-1]), fl + ll, tool)
    rep.stage('oracle:flags->gcc/clang', checks=len(checks), failures=len(failures))
    return failures


def stage_oracle_placement(rep, rng):
    """Wherever a semantic option is given - among the global options, among the options a step derives itself (libs=,
    packages, forwarded by a static library) or among the step's OWN options (compile_options= / link_options=) - the
    words it translates to when given alone must be words of the final command line (the real _get_flags of the compile
    and link steps, the real tool call, variables expanded the way the backends do).  Independent of the model."""
    from bfg9000 import options as opts
    from bfg9000.builtins import compile as bcompile, link as blink
    from bfg9000.path import Path
    cc_specs = [('include', '/opt/a/include', False), ('include', '/opt/b', True), ('define', 'FOO', '42'), ('define', 'A', None),
                ('std', 'c11'), ('warning', ('all', 'error')), ('debug',), ('optimize', ('speed',)), ('pthread',), ('pic',),
                ('sanitize',), ('raw', '-funroll-loops')]
    ld_specs = [('lib', ('name', 'm')), ('lib', ('name', 'z-1')), ('lib_literal', '-lraw'), ('lib_literal', '/abs/libz.a'),
                ('lib_dir', '/opt/a'), ('lib_dir', '/srv/x y'), ('lib', ('static', '/l/lib', 'libfoo.a')),
                ('lib', ('shared', '/l/lib64', 'libbar.so')), ('entry', 'main2'), ('debug',), ('pthread',), ('static',),
                ('optimize', ('speed',)), ('raw', '-Wl,--as-needed'), ('rpath_dir', '/opt/c16 rp'),
                ('rpath_link_dir', '/opt/c16 rl')]

    def obj(spec):
        if spec[0] == 'rpath_dir':
            return opts.rpath_dir(Path(spec[1]))
        if spec[0] == 'rpath_link_dir':
            return opts.rpath_link_dir(Path(spec[1]))
        return mk_obj(spec)
    bad = 0
    with Tools({'CFLAGS': '-O1', 'LDFLAGS': '-Wl,-O1', 'LDLIBS': '-lenvlib'}) as t:
        StubC = type('StubCompile', (bcompile.BaseCompile,), {})
        StubL = type('StubLink', (blink.DynamicLink,), {})
        others_cc = [('define', 'OTHER', '1'), ('raw', '-DRAW=1')]
        others_ld = [('lib', ('name', 'other')), ('raw', '-s')]
        for side, specs in (('cc', cc_specs), ('ld', ld_specs)):
            for spec in specs:
                for place in ('global', 'derived', 'own'):
                    # the other two places hold unrelated options (drawn, so that the lists are not all alike)
                    oth = others_cc if side == 'cc' else others_ld
                    lists = {p: [obj(o) for o in oth if rng.random() < 0.6] for p in ('global', 'derived', 'own')}
                    lists[place].insert(rng.randint(0, len(lists[place])), obj(spec))
                    be = _Backend()
                    rep.case('place:%s:%r:%s' % (side, spec, place), True)
                    rep.count('placement:%s:%s' % (side, place))
                    try:
                        if side == 'cc':
                            st = object.__new__(StubC)
                            st.compiler = t.compiler
                            st._internal_options = opts.option_list(lists['derived'])
                            st.user_options = opts.option_list(lists['own'])
                            st.raw_output = None
                            variables, kw = bcompile._get_flags(be, st, {'compile_options': {'c': lists['global']}}, None)
                            argv = be.expand(t.compiler('in.c', 'out.o', **kw), variables)
                            alone = t.compiler.flags([obj(spec)])
                        else:
                            st = object.__new__(StubL)
                            st.linker = t.linker
                            st._internal_options = opts.option_list(lists['derived'])
                            st.user_options = opts.option_list(lists['own'])
                            st.raw_output = t.output()
                            bi = {'link_options': {'dynamic': {t.linker.family: lists['global']}}}
                            variables, kw = blink._get_flags(be, st, bi, None)
                            argv = be.expand(t.linker(['a.o'], 'prog', **kw), variables)
                            alone = (list(t.linker.flags([obj(spec)], output=t.output())) +
                                     list(t.linker.lib_flags([obj(spec)])))
                        argv = [t.canon_flag(f) for f in argv]
                        alone = [t.canon_flag(f) for f in alone]
                    except (TypeError, ValueError) as e:
                        argv, alone = [], ['<%s: %s>' % (type(e).__name__, e)]
                    missing = [w for w in alone if w not in argv]
                    if missing or not alone:
                        bad += 1
                        rep.fail('option %r placed among the %s options of a %s step: its words %r are missing from the final '
                                 'command line %r (given alone it translates to %r)' % (
                                     spec, {'global': 'global', 'derived': "step's derived (libs=/packages/forwarded)",
                                            'own': "step's own (%s=)" % ('compile_options' if side == 'cc' else 'link_options')
                                            }[place], 'compile' if side == 'cc' else 'link', missing, argv, alone),
                                 {'placed_option': list(spec), 'placement': place, 'side': side, 'argv': argv, 'alone': alone})
    rep.stage('oracle:option placement -> final command line', options=len(cc_specs) + len(ld_specs), placements=3,
              failures=bad)
    return bad


# ----------------------------------------------------------------------------- system level (thorough)
BUILD_BFG ='''# -*- python -*-
project('c16', intermediate_dirs=False)
{globals}
executable('prog', files=['main.c'], compile_options=[{copts}], link_options=[{lopts}])
'''

MAIN_C = '''#include <stdio.h>
int main(void) {{
{checks}
  puts("c16-ok");
  return 0;
}}
'''


def stage_oracle_default_dirs(rep, cs):
    """include_dir on one of the compiler's own default include directories (plain and system=True): the flags the real
    code produces must leave a C++ translation unit that reaches libc through #include_next compilable with the real g++
    (-isystem on /usr/include breaks libstdc++'s <cstdlib>)."""
    import subprocess
    p = subprocess.run(['g++', '-E', '-x', 'c++', '-', '-v'], input='', capture_output=True, text=True)
    dirs, on = [], False
    for line in p.stderr.split('\n'):
        if line.startswith('#include <...> search starts here'):
            on = True
        elif line.startswith('End of search list'):
            on = False
        elif on and line.strip():
            dirs.append(os.path.normpath(line.strip()))
    src = cs.write('#include <cstdlib>\n#include <cmath>\nint main() { return std::abs(-1) == 1 ? 0 : 1; }\n', suffix='.cpp')
    bad = 0
    with Tools(default_dirs=dirs) as t:
        for d in dirs:
            for system in (False, True):
                spec = ('include', d, system)
                flags = [t.canon_flag(f) for f in t.compiler.flags([mk_obj(spec)])]
                r = subprocess.run(['g++', '-fsyntax-only', '-x', 'c++'] + flags + [src], capture_output=True, text=True, cwd=cs.root)
                rep.case('defdir:%s:%s' % (d, system), True)
                if r.returncode != 0:
                    bad += 1
                    rep.fail('include_dir(%r, system=%s) -> %r makes g++ fail on <cstdlib>: %s' % (d, system, flags, r.stderr[-200:]),
                             {'option': list(spec), 'flags': flags, 'tool': 'g++', 'stderr': r.stderr[-600:]},
                             classes=classify(spec, flags))
    rep.stage('oracle:default include dirs', dirs=len(dirs), failures=bad)
    return bad


def stage_oracle_pch(rep, rng):
    """The pch option given by file name: the header must be precompiled for the language of the SOURCE that uses it
    (a .h header on a C++ target is a C++ header) and the compile must really use it; built with the real gcc/g++."""
    from . import project
    import subprocess
    bad = 0
    cases = [('main.cpp', 'pre.h', 'c++'), ('main.cpp', 'pre.hpp', 'c++'), ('main.c', 'pre.h', 'c'), ('main.cc', 'inc/pre.h', 'c++')]
    for src, hdr, lang in cases:
        with project.Scratch('c16pch') as s:
            body = '#include <%s>\n' % ('cstdlib' if lang == 'c++' else 'stdlib.h')
            project.write_tree(s.src, {
                'build.bfg': "project('p')\nexecutable('prog', files=[%r], pch=%r)\n" % (src, hdr),
                hdr: body + 'static inline int pre_value(void) { return 37; }\n',
                src: 'int main(void) { return pre_value() == 37 ? 0 : 1; }\n'})
            rc, out = project.configure(s.src, s.build, 'make')
            rep.case('pch:%s:%s' % (src, hdr), True)
            if rc != 0:
                bad += 1
                rep.fail('configure fails for executable(%r, pch=%r): %s' % (src, hdr, out[-300:]), {'option': ['pch', hdr], 'source': src})
                continue
            p = subprocess.run(['make', '--no-print-directory'], cwd=s.build, env=common.impl_env(), capture_output=True, text=True, timeout=120)
            ran = subprocess.run([os.path.join(s.build, 'prog')], capture_output=True).returncode if p.returncode == 0 else None
            want_x = 'c++-header' if lang == 'c++' else 'c-header'
            cmds = p.stdout
            if p.returncode != 0 or ran != 0 or ('-x ' + want_x) not in cmds:
                bad += 1
                rep.fail('pch=%r on a %s target (%s): build rc=%s, program rc=%s, expected the header to be precompiled with -x %s: %s' % (
                    hdr, lang, src, p.returncode, ran, want_x, (p.stderr or p.stdout)[-400:]),
                    {'option': ['pch', hdr], 'source': src, 'lang': lang, 'make_stdout': p.stdout[-1500:], 'make_stderr': p.stderr[-800:]})
    rep.stage('oracle:pch projects', cases=len(cases), failures=bad)
    return bad


def stage_system(rep, rng, cs):
    """Generated projects with pairwise option placements, configured by the real bfg9000 and built by make."""
    placements = ['global', 'target', 'env']
    opts_src = {
        'define': ('opts.define("PLACED", "%d")', '-DPLACED=%d'),
        'optimize': (None, None),
    }
    cases = []
    # a define placed twice with different values in every ordered pair of placements: the later source must win
    rank = {'env': 0, 'toolchain': 0, 'global': 1, 'target': 2}
    for a in placements:
        for b in placements:
            if a == b:
                continue
            cases.append(('define-override', a, b))
    # the toolchain file (--toolchain FILE: compile_options([...], 'c')) is a fourth place; it stores its options where
    # the environment would (so the pair with 'env' has no defined winner and is left out)
    for o in ('global', 'target'):
        cases.append(('define-override', 'toolchain', o))
        cases.append(('define-override', o, 'toolchain'))
    cases.append(('optimize-size+pic+pthread', 'toolchain', 'toolchain'))
    for a in placements:
        cases.append(('optimize-size+pic+pthread', a, a))
    # a SYSTEM include directory (not one of the compiler's defaults) together with warnings-as-errors, placed globally
    # and on the target: diagnostics inside its headers must stay suppressed (-isystem), wherever the option is given
    for a in ('global', 'target'):
        for b in ('global', 'target'):
            cases.append(('system-include-dir', a, b))
    env0 = common.impl_env()
    n_ok = 0
    for kind, a, b in cases:
        d = os.path.join(cs.root, 'sys-%s-%s-%s' % (kind.replace('+', '_'), a, b))
        src, bld = os.path.join(d, 'src'), os.path.join(d, 'build')
        os.makedirs(src)
        env = dict(env0)
        glob, copts, cflags, tcflags = [], [], [], []
        pre = ''
        if kind == 'define-override':
            vals = {a: 1, b: 2}
            for pl, v in vals.items():
                if pl == 'global':
                    glob.append('opts.define("PLACED", "%d")' % v)
                elif pl == 'target':
                    copts.append('opts.define("PLACED", "%d")' % v)
                elif pl == 'toolchain':
                    tcflags.append('-DPLACED=%d' % v)
                else:
                    cflags.append('-DPLACED=%d' % v)
            winner = vals[max(vals, key=lambda p: rank[p])]
            checks = '#if PLACED != %d\n#error wrong definition wins\n#endif\n' % winner
        elif kind == 'system-include-dir':
            os.makedirs(os.path.join(src, 'vendor'))
            with open(os.path.join(src, 'vendor', 'vend.h'), 'w') as f:
                f.write('static inline int vend(void) { int scratch; return 42; }\n')      # -Wunused-variable under -Wall
            pre = 'vendor = header_directory("vendor", system=True)\n'
            for pl, o in ((a, 'opts.include_dir(vendor)'), (b, 'opts.warning("all", "error")')):
                (glob if pl == 'global' else copts).append(o)
            checks = '  if (vend() != 42) return 1;\n'
        else:
            for o in ('opts.optimize("size")', 'opts.pic()', 'opts.pthread()'):
                if a == 'global':
                    glob.append(o)
                elif a == 'target':
                    copts.append(o)
            if a == 'env':
                cflags += ['-Os', '-fPIC', '-pthread']
            if a == 'toolchain':
                tcflags += ['-Os', '-fPIC', '-pthread']
            checks = ('#if !defined(__OPTIMIZE_SIZE__) || !defined(__PIC__) || !defined(_REENTRANT)\n'
                      '#error option without effect\n#endif\n')
        if cflags:
            env['CFLAGS'] = ' '.join(cflags)
        with open(os.path.join(src, 'build.bfg'), 'w') as f:
            f.write(BUILD_BFG.format(globals=pre + (('global_options([%s], lang="c")' % ', '.join(glob)) if glob else ''),
                                     copts=', '.join(copts), lopts=''))
        with open(os.path.join(src, 'main.c'), 'w') as f:
            f.write(('#include <vend.h>\n' if kind == 'system-include-dir' else '') + MAIN_C.format(checks=checks))
        rep.case('s:%s:%s:%s' % (kind, a, b), True)
        rep.count('system:' + kind)
        tcargs = []
        if tcflags:
            with open(os.path.join(d, 'toolchain.bfg'), 'w') as f:
                f.write('compile_options(%r, %r)\n' % (tcflags, 'c'))
            tcargs = ['--toolchain', os.path.join(d, 'toolchain.bfg')]
        p = subprocess.run(['bfg9000', 'configure-into', src, bld, '--backend=make', '--no-resolve-packages'] + tcargs,
                           env=env, capture_output=True, text=True, timeout=300)
        if p.returncode != 0:
            rep.fail('system: configure fails for %s placed %s/%s: %s' % (kind, a, b, (p.stderr or p.stdout)[-400:]),
                     {'kind': kind, 'placements': [a, b], 'stderr': p.stderr[-2000:]})
            continue
        # -Wno-error so that the redefinition warning of the override case cannot mask the effect
        p = subprocess.run(['make', '-C', bld], env=env, capture_output=True, text=True, timeout=300)
        ok = p.returncode == 0
        if ok:
            r = subprocess.run([os.path.join(bld, 'prog')], capture_output=True, text=True, timeout=60)
            ok = r.returncode == 0 and 'c16-ok' in r.stdout
        if not ok:
            rep.fail('system: %s with placements %s then %s does not have its effect: %s' % (
                kind, a, b, (p.stderr or p.stdout)[-400:]),
                {'kind': kind, 'placements': [a, b], 'make': (p.stdout + p.stderr)[-3000:]})
        else:
            n_ok += 1
        shutil.rmtree(d, ignore_errors=True)
    rep.stage('system:configure+make', projects=len(cases), ok=n_ok)


LINK_PLACES = ['global', 'target', 'shared-library', 'static-library']


def link_project(cs, tag, place, libform, libdir_place, extdir, rpdir, env0):
    """One project whose link-side semantic options are given at `place`: a library by name (opts.lib('m') or
    opts.lib_literal('-lm')), a library of a directory outside the project (opts.lib_dir + opts.lib('c16x'); the
    directory option at `libdir_place`) and a run-time search directory (opts.rpath_dir).  The code that needs the
    libraries is the code of the binary the options are given for.  Returns None or (what, replay)."""
    d = os.path.join(cs.root, 'lnk-' + tag)
    src, bld = os.path.join(d, 'src'), os.path.join(d, 'build')
    os.makedirs(src)
    libopt = 'opts.lib("m")' if libform == 'lib' else 'opts.lib_literal("-lm")'
    at = {p: [] for p in LINK_PLACES}
    at[place] += [libopt, 'opts.lib("c16x")', 'opts.rpath_dir(Path(%r))' % rpdir]
    at[libdir_place].append('opts.lib_dir(directory(%r))' % extdir)
    needs = ('#include <math.h>\nint c16x(void);\nvolatile double c16_a = 27.0, c16_b = 3.0, c16_c = 4.0;\n'
             'int needs_libs(void) { return (int)(cbrt(c16_a) + hypot(c16_b, c16_c) + 0.5) + c16x(); }\n')
    main = '#include <stdio.h>\nint needs_libs(void);\nint main(void) { if (needs_libs() != 50) return 1; puts("c16-ok"); return 0; }\n'
    files = {'main.c': main}
    L = ["project('c16link')"]
    if at['global']:
        L.append('global_link_options([%s])' % ', '.join(at['global']))
    libs = ''
    if place in ('shared-library', 'static-library'):
        files['inner.c'] = needs
        fn = 'shared_library' if place == 'shared-library' else 'static_library'
        L.append("inner = %s('sub/inner', files=['inner.c'], link_options=[%s])" % (fn, ', '.join(at[place])))
        libs = ', libs=[inner]'
    else:
        files['main.c'] = needs + main
    L.append("executable('prog', files=['main.c']%s, link_options=[%s])" % (libs, ', '.join(at['target'])))
    files['build.bfg'] = '\n'.join(L) + '\n'
    for k, v in files.items():
        with open(os.path.join(src, k), 'w') as f:
            f.write(v)
    env = {k: v for k, v in env0.items() if k not in ('CFLAGS', 'CPPFLAGS', 'LDFLAGS', 'LDLIBS')}
    replay = {'kind': 'link-options', 'placement': place, 'lib_dir_placement': libdir_place, 'build.bfg': files['build.bfg'],
              'inner.c' if 'inner.c' in files else 'main.c': needs}
    try:
        p = subprocess.run(['bfg9000', 'configure-into', src, bld, '--backend=make', '--no-resolve-packages'],
                           env=env, capture_output=True, text=True, timeout=300)
        if p.returncode != 0:
            return 'configure fails: %s' % (p.stderr or p.stdout)[-400:], dict(replay, stderr=p.stderr[-2000:])
        p = subprocess.run(['make', '-C', bld], env=env, capture_output=True, text=True, timeout=300)
        if p.returncode != 0:
            return ('the build fails (the libraries the options name are not on the link line?): %s' % (p.stderr or p.stdout)[-500:],
                    dict(replay, make=(p.stdout + p.stderr)[-3000:]))
        r = subprocess.run([os.path.join(bld, 'prog')], capture_output=True, text=True, timeout=60, cwd='/')
        if r.returncode != 0 or 'c16-ok' not in r.stdout:
            return 'the program fails (exit %d: %s)' % (r.returncode, (r.stdout + r.stderr).strip()[-200:]), replay
        # the binary the options were given for: what it records as needed and where it searches at run time
        target = os.path.join(bld, 'sub', 'libinner.so') if place == 'shared-library' else os.path.join(bld, 'prog')
        dyn = subprocess.run(['readelf', '-d', target], capture_output=True, text=True).stdout
        needed = [l.split('[')[1].split(']')[0] for l in dyn.split('\n') if '(NEEDED)' in l and '[' in l]
        runpath = [x for l in dyn.split('\n') if ('(RUNPATH)' in l or '(RPATH)' in l) and '[' in l
                   for x in l.split('[', 1)[1].rsplit(']', 1)[0].split(':')]
        if not any(n.startswith('libm.so') for n in needed):
            return '%s does not record libm as needed (NEEDED %r)' % (os.path.basename(target), needed), dict(replay, dynamic=dyn[-1500:])
        if rpdir not in runpath:
            return ('%s does not search the directory of the rpath_dir option at run time (RUNPATH %r)' % (
                os.path.basename(target), runpath), dict(replay, dynamic=dyn[-1500:]))
        return None
    finally:
        shutil.rmtree(d, ignore_errors=True)


def stage_system_link(rep, rng, cs, thorough):
    """Link-side semantic options in every placement (global_link_options, link_options= of the program, of a shared
    library, of a static library that forwards them), two spellings of a library by name, the library directory given at
    the same or at another placement; really configured, built, run and read back with readelf."""
    extdir = os.path.join(cs.root, 'ext libs')
    os.makedirs(extdir, exist_ok=True)
    xsrc = cs.write('int c16x(void) { return 42; }\n')
    r1 = cs.run(['gcc', '-fPIC', '-c', xsrc, '-o', 'c16x.o'])
    r2 = cs.run(['ar', 'cr', os.path.join(extdir, 'libc16x.a'), 'c16x.o'])
    if r1[0] or r2[0]:
        rep.fail('system setup: cannot build the outside library', {'obligation': 'system setup'}, found_input=False)
        return
    env0 = common.impl_env()
    cases = []
    for k, place in enumerate(LINK_PLACES):
        # the library directory: with the library that needs it, and at another placement from which it still reaches
        # that link (global reaches every link; the program's own options reach the program only)
        other = 'global' if place != 'global' else 'target'
        cases.append((place, 'lib', place))
        cases.append((place, 'lib_literal', other))
        if thorough:
            cases.append((place, 'lib', other))
            cases.append((place, 'lib_literal', place))
    rp = ['/opt/c16 rp', '/opt/c16rp/x', '/opt/c16 $rp']
    jobs = [(place, libform, ldp, rng.choice(rp)) for place, libform, ldp in cases]
    with ThreadPoolExecutor(max_workers=4) as ex:
        res = list(ex.map(lambda j: link_project(cs, '%s-%s-%s' % (j[0], j[1], j[2]), j[0], j[1], j[2], extdir, j[3], env0), jobs))
    n_ok = 0
    for (place, libform, ldp, rpdir), r in zip(jobs, res):
        rep.case('lnk:%s:%s:%s:%s' % (place, libform, ldp, rpdir), True)
        rep.count('system:link-options:' + place)
        if r is None:
            n_ok += 1
            continue
        what, replay = r
        rep.fail('system: link options (%s, lib_dir + lib("c16x"), rpath_dir(%r)) given as %s (lib_dir as %s) do not have '
                 'their effect: %s' % ('opts.lib("m")' if libform == 'lib' else 'opts.lib_literal("-lm")', rpdir,
                                       {'global': 'global_link_options', 'target': "the program's link_options=",
                                        'shared-library': "a shared library's link_options=",
                                        'static-library': "a static library's link_options= (forwarded)"}[place],
                                       ldp, what), replay)
    rep.stage('system:link options by placement', projects=len(jobs), ok=n_ok)


WORD_VALUES = ['hello world', 'a  b', "it's", 'say "hi"', 'back\\slash', '$HOME', '${HOME}', 'a;b', 'x&y', '*', 'tab\there',
               'q\'"mix', ' lead', 'trail ', '~', '`id`', '(p)', 'a|b', '<i>', '%s', '\\', 'a\\ b', '$$', "''", '""', 'a=b c=d', ',x y']


def c_literal(v):
    """the C string literal denoting v"""
    return '"' + v.replace('\\', '\\\\').replace('"', '\\"').replace('\t', '\\t') + '"'


FINDING_TC_QUOTE = 'toolchain-list-word-with-single-quote'
FINDING_LD_QUOTE = 'ldflags-word-with-single-quote'


def words_project(rep, cs, form, vals, rdir, libdir, plain, tag):
    """one project whose raw option words are given in one form; returns True when they all arrive"""
    import shlex
    env0 = common.impl_env()
    cwords = ['-DW%d=%s' % (k, c_literal(v)) for k, v in enumerate(vals)] + [plain]
    lwords = ['-Wl,-rpath,' + rdir, '-Wl,--defsym=c16_abs=0x2a']
    libwords = ['-L' + libdir, '-lm']
    d = os.path.join(cs.root, 'words-' + tag)
    shutil.rmtree(d, ignore_errors=True)
    src, bld = os.path.join(d, 'src'), os.path.join(d, 'build')
    os.makedirs(src)
    env = {k: v for k, v in env0.items() if k not in ('CFLAGS', 'CPPFLAGS', 'LDFLAGS', 'LDLIBS')}
    tcargs, tc = [], None
    if form == 'env':
        # shlex.join writes a single quote as '"'"' (no backslash: bfg9000 does not treat it as an escape in these variables)
        env.update({'CFLAGS': shlex.join(cwords), 'LDFLAGS': shlex.join(lwords), 'LDLIBS': shlex.join(libwords)})
    else:
        def arg(words):
            return repr(words if form == 'toolchain-list' else shlex.join(words))
        tc = 'compile_options(%s, %r)\nlink_options(%s)\nlib_options(%s)\n' % (arg(cwords), 'c', arg(lwords), arg(libwords))
        with open(os.path.join(d, 'toolchain.bfg'), 'w') as f:
            f.write(tc)
        tcargs = ['--toolchain', os.path.join(d, 'toolchain.bfg')]
    checks = ''.join('  if (strcmp(W%d, %s) != 0) { printf("W%d is [%%s]\\n", W%d); return 1; }\n' % (k, c_literal(v), k, k)
                     for k, v in enumerate(vals))
    checks += '  if ((long)c16_absp != 42) return 2;\n  if (floor(c16_half + c16_half) != 1.0) return 3;\n'
    with open(os.path.join(src, 'build.bfg'), 'w') as f:
        f.write(BUILD_BFG.format(globals='', copts='', lopts=''))
    with open(os.path.join(src, 'main.c'), 'w') as f:
        # the absolute symbol is read through a data relocation (right in position-independent executables too)
        f.write('#include <string.h>\n#include <math.h>\nextern char c16_abs[];\nstatic char *volatile c16_absp = c16_abs;\n'
                'volatile double c16_half = 0.5;\n' + MAIN_C.format(checks=checks))
    replay = {'kind': 'option-words', 'form': form, 'compile_words': cwords, 'link_words': lwords, 'lib_words': libwords,
              'toolchain.bfg': tc, 'environment': {k: env[k] for k in ('CFLAGS', 'LDFLAGS', 'LDLIBS') if k in env}}
    rep.case('words:%s:%r' % (form, cwords + lwords + libwords), True)
    rep.count('system:option-words:' + tag)
    quoted = [w for w in cwords + lwords + libwords if "'" in w]

    def classes(output):
        """the known finding explains a failure only when the words are given as a toolchain-file list, one of them
        contains a single quote, and the failure is the one that quote causes: the configure error of an unbalanced
        quote, or that very word arriving with backslashes in place of its quotes"""
        if 'No closing quotation' in output and any(w.count("'") % 2 for w in lwords):
            # a second known finding: the probe of the linker (cc LDFLAGS -v -Wl,--version) echoes the link flags and
            # CcBuilder splits that line as shell words; any form of giving the link flags
            return (FINDING_LD_QUOTE,)
        if form != 'toolchain-list' or not quoted:
            return ()
        if 'No closing quotation' in output and any(w.count("'") % 2 for w in quoted):
            return (FINDING_TC_QUOTE,)
        got = []
        for line in output.split('\n'):
            try:
                got += shlex.split(line)
            except ValueError:
                pass
        if any(w.replace("'", '\\') in got for w in quoted):
            return (FINDING_TC_QUOTE,)
        return ()
    p = subprocess.run(['bfg9000', 'configure-into', src, bld, '--backend=make', '--no-resolve-packages'] + tcargs,
                       env=env, capture_output=True, text=True, timeout=300)
    if p.returncode != 0:
        rep.fail('system: configure fails with the option words %r / %r / %r given as %s: %s' % (
            cwords, lwords, libwords, form, (p.stderr or p.stdout)[-400:]), dict(replay, stderr=p.stderr[-2000:]),
            classes=classes(p.stderr + p.stdout))
        shutil.rmtree(d, ignore_errors=True)
        return False
    p = subprocess.run(['make', '-C', bld], env=env, capture_output=True, text=True, timeout=300)
    what = None
    if p.returncode != 0:
        what = 'the build fails: %s' % (p.stderr or p.stdout)[-500:]
    else:
        r = subprocess.run([os.path.join(bld, 'prog')], capture_output=True, text=True, timeout=60)
        if r.returncode != 0 or 'c16-ok' not in r.stdout:
            what = 'the program sees other values (exit %d: %s)' % (r.returncode, r.stdout.strip()[-200:])
        else:
            rp = subprocess.run(['patchelf', '--print-rpath', os.path.join(bld, 'prog')], capture_output=True, text=True)
            if rdir not in rp.stdout.strip().split(':'):
                what = 'the rpath of the program is %r' % rp.stdout.strip()
    if what:
        rep.fail('system: option words %r (compile), %r (link), %r (libs) given as %s do not reach the tools as those '
                 'words: %s' % (cwords, lwords, libwords, form, what), dict(replay, make=(p.stdout + p.stderr)[-3000:]),
                 classes=classes(p.stdout + p.stderr))
    shutil.rmtree(d, ignore_errors=True)
    return not what


def stage_system_words(rep, rng, cs, thorough):
    """Raw option WORDS given where bfg9000 stores them as one shell-syntax string - the toolchain file builtins
    compile_options / link_options / lib_options in list form (one element = one word) and in string form (shell syntax),
    and the CFLAGS / LDFLAGS / LDLIBS environment variables - must reach the compiler and the linker as exactly those
    words.  Observed in the built program: string macros with blanks, quotes, backslashes, dollars compared with strcmp, an
    rpath entry with a blank (patchelf --print-rpath), a --defsym value, and a library needed to link at all.
    Words containing a single quote are given in a project of their own in the list form (known finding), so that the
    project with the other words has to pass."""
    forms = ['toolchain-list', 'toolchain-string', 'env']
    rounds = 3 if thorough else 1
    n, n_ok = 0, 0
    for k, form in enumerate(forms * rounds):
        vals = ['hello world'] + rng.sample(WORD_VALUES[1:], 5 if thorough else 4)
        rng.shuffle(vals)
        rdir = rng.choice(['/opt/c16 libs/a', '/opt/c16  two', '/opt/c16 "q"', '/opt/c16 $x'])
        libdir = rng.choice(['/opt/c16 no such dir', "/opt/c16 it's"])
        plain = rng.choice(['-DPLAINWORD=7', '-DPLAINWORD=7', '-O1'])
        runs = [(vals, rdir, libdir, form)]
        if form == 'toolchain-list':
            # ONE value with a single quote per such project: the failure signature of the known finding (that word
            # arriving with backslashes for its quotes / the configure error of an odd number of quotes) is stated for
            # a single quoted word; the quotes of two such words of one list pair up ACROSS the words and merge them
            # (same defect, another signature, so the narrow class would not explain it)
            q = [v for v in vals if "'" in v][:1] or ["it's"]
            runs = [([v for v in vals if "'" not in v], rdir, libdir.replace("'", ' '), form),
                    (q, '/opt/c16 d', libdir if "'" in libdir else "/opt/c16 l", form + '-quote')]
        for vs, rd, ld_, tag in runs:
            n += 1
            n_ok += bool(words_project(rep, cs, form, vs, rd, ld_, plain, '%s-%d' % (tag, k)))
    # a link option with a single quote, in a project of its own (known finding), in one of the forms
    n += 1
    n_ok += bool(words_project(rep, cs, rng.choice(forms), ['hello world'], "/opt/c16'q", '/opt/c16 l', '-DPLAINWORD=7',
                               'ldflags-quote'))
    rep.stage('system:option words', projects=n, ok=n_ok)


# ----------------------------------------------------------------------------- flag variables stay on their side
# Words a flag variable can hold, with what they mean on EACH side.  A word of the link-side variables (LDFLAGS, toolchain
# link_options) that the compiler driver also understands when compiling would change the translation units of targets
# that never asked for it; a word of the compile-side variables (CPPFLAGS, CFLAGS/CXXFLAGS, toolchain compile_options)
# that the driver understands when linking would change every linked binary.  macro: predefined macros the word switches
# on when compiling (validated against the real gcc on every run); link: what it does to a linked binary.
SIDE_WORDS = {
    '-pthread': {'macros': ['_REENTRANT']},
    '-O2': {'macros': ['__OPTIMIZE__']},
    '-fopenmp': {'macros': ['_OPENMP', '_REENTRANT']},
    '-ffast-math': {'macros': ['__FAST_MATH__']},
    '-funsigned-char': {'macros': ['__CHAR_UNSIGNED__']},
    '-fstack-protector-all': {'macros': ['__SSP_ALL__']},
    '-s': {'macros': [], 'link': 'stripped'},
    '-no-pie': {'macros': [], 'link': 'exec'},
    '-Wl,--defsym=c16_side_sym=0x2a': {'macros': [], 'link': 'defsym'},
}
SIDE_MACROS = ['_REENTRANT', '__OPTIMIZE__', '_OPENMP', '__FAST_MATH__', '__CHAR_UNSIGNED__', '__SSP_ALL__']
# link-side words that are harmless on every link step (executables and shared libraries alike)
SIDE_LD_POOL = ['-pthread', '-O2', '-fopenmp', '-ffast-math', '-funsigned-char', '-fstack-protector-all', '-s',
                '-Wl,--defsym=c16_side_sym=0x2a']
SIDE_CC_POOL = ['-pthread', '-O2', '-ffast-math', '-funsigned-char', '-fstack-protector-all', '-s', '-no-pie',
                '-Wl,--defsym=c16_side_sym=0x2a']
# semantic options a target can ask for itself, with the word the documentation promises
SIDE_SEMANTIC = {'opts.pthread()': '-pthread'}


def side_macros(words):
    res = set()
    for w in words:
        res.update(SIDE_WORDS.get(w, {}).get('macros', []))
    return sorted(res)


def gen_side_config(rng, form):
    """Flag variables of one configuration.  form 'env': CPPFLAGS / CFLAGS / CXXFLAGS / LDFLAGS in the environment;
    'toolchain': compile_options(...) / link_options(...) of a toolchain file (list or string form).  The link side always
    holds a word that means something when compiling which the compile side does not hold, and the other way round;
    sometimes one word is given on both sides (then it belongs on both)."""
    cc_only = rng.sample([w for w in SIDE_CC_POOL if SIDE_WORDS[w].get('link')], rng.choice([1, 1, 2]))
    ld_only = rng.sample([w for w in SIDE_LD_POOL if SIDE_WORDS[w]['macros']], rng.choice([1, 2, 3]))
    both = [w for w in rng.sample(sorted(set(SIDE_CC_POOL) & set(SIDE_LD_POOL)), rng.choice([0, 0, 1]))
            if w not in cc_only and w not in ld_only]
    cc_macro = [w for w in rng.sample([w for w in SIDE_CC_POOL if SIDE_WORDS[w]['macros']], rng.choice([0, 1]))
                if w not in ld_only]
    cfg = {'form': form, 'cpp': [], 'c': [], 'c++': [], 'ld': ld_only + both}
    compile_words = cc_only + both + cc_macro
    rng.shuffle(compile_words)
    rng.shuffle(cfg['ld'])
    for w in compile_words:
        # CPPFLAGS reach every language; CFLAGS / CXXFLAGS one each (a toolchain file has no CPPFLAGS)
        where = rng.choice(['cpp', 'lang', 'lang']) if form == 'env' else 'lang'
        if where == 'cpp':
            cfg['cpp'].append(w)
        else:
            cfg['c'].append(w)
            cfg['c++'].append(w)
    if rng.random() < 0.4 and cfg['c++']:
        cfg['c++'] = cfg['c++'][:-1]          # the two languages need not agree
    cfg['tcstyle'] = rng.choice(['list', 'string'])
    return cfg


def side_compile_words(cfg, lang):
    return cfg['cpp'] + cfg[lang]


def stage_oracle_sides(rep, rng, n):
    """In process: the real CcBuilder built from flag variables; the final compile and link command lines (real _get_flags
    and tool calls, no options of the project).  Every word of the link-side variables is on the link line and not on the
    compile line, every word of the compile-side variables is on the compile line and not on the link line - unless the
    same word was given on the other side as well (counted with multiplicity)."""
    import shlex
    from bfg9000 import options as opts
    from bfg9000.builtins import compile as bcompile, link as blink
    bad = 0
    for k in range(n):
        cfg = gen_side_config(rng, 'env')
        variables = {}
        if cfg['cpp']:
            variables['CPPFLAGS'] = shlex.join(cfg['cpp'])
        if cfg['c']:
            variables['CFLAGS'] = shlex.join(cfg['c'])
        if cfg['ld']:
            variables['LDFLAGS'] = shlex.join(cfg['ld'])
        libs = rng.choice([[], ['-lm'], ['-lm', '-lz']])
        if libs:
            variables['LDLIBS'] = shlex.join(libs)
        rep.case('sides:%r' % (sorted(variables.items()),), True)
        with Tools(variables) as t:
            StubC = type('StubCompile', (bcompile.BaseCompile,), {})
            StubL = type('StubLink', (blink.DynamicLink,), {})
            be = _Backend()
            sc = object.__new__(StubC)
            sc.compiler = t.compiler
            sc._internal_options = opts.option_list()
            sc.user_options = opts.option_list()
            sc.raw_output = None

            def run_cc():
                variables_, kw = bcompile._get_flags(be, sc, {'compile_options': {'c': []}}, None)
                return be.expand(t.compiler('in.c', 'out.o', **kw), variables_)
            sl = object.__new__(StubL)
            sl.linker = t.linker
            sl._internal_options = opts.option_list()
            sl.user_options = opts.option_list()
            sl.raw_output = t.output()

            def run_ld():
                variables_, kw = blink._get_flags(be, sl, {'link_options': {'dynamic': {t.linker.family: []}}}, None)
                return be.expand(t.linker(['a.o'], 'prog', **kw), variables_)
            rc, rl = t.canon(run_cc), t.canon(run_ld)
        if not (isinstance(rc, tuple) and isinstance(rl, tuple)):
            bad += 1
            rep.fail('flag variables %r: the compile / link command line cannot be produced (%r / %r)' % (variables, rc, rl),
                     {'kind': 'flag-variable-sides', 'variables': variables})
            continue
        want_cc, want_ld = side_compile_words(cfg, 'c'), cfg['ld'] + libs
        wrong = []
        for w in sorted(set(want_cc + want_ld)):
            for side, argv, want in (('compile', rc[1], want_cc), ('link', rl[1], want_ld)):
                if argv.count(w) != want.count(w):
                    wrong.append((w, side, argv.count(w), want.count(w)))
        rep.count('oracle:flag-variable-sides:' + ('word on both sides' if set(want_cc) & set(want_ld) else 'disjoint words'))
        if wrong:
            bad += 1
            w, side, got, want = wrong[0]
            rep.fail('flag variables %r: the word %r occurs %d times on the %s command line, the variables of that side give '
                     'it %d times (%d such words); compile: %r, link: %r' % (variables, w, got, side, want, len(wrong),
                                                                            rc[1], rl[1]),
                     {'kind': 'flag-variable-sides', 'variables': variables, 'compile_argv': rc[1], 'link_argv': rl[1],
                      'wrong': wrong})
    rep.stage('oracle:flag variables stay on their side (in process)', configurations=n, failures=bad)
    return bad


SIDE_PROBE = ''.join('#ifdef %s\n  m |= %du;\n#endif\n' % (m, 1 << k) for k, m in enumerate(SIDE_MACROS))


def side_mask(macros):
    return sum(1 << SIDE_MACROS.index(m) for m in set(macros))


def validate_side_words(rep, cs):
    """the table above against the real gcc / g++: each word alone switches on exactly its macros"""
    src = cs.write('unsigned seen(void) { unsigned m = 0;\n%s  return m; }\n' % SIDE_PROBE)
    ok = True
    for tool, x in (('gcc', 'c'), ('g++', 'c++')):
        for w in [None] + sorted(SIDE_WORDS):
            rc, out, err = cs.run([tool, '-x', x, '-dM', '-E'] + ([w] if w else []) + [src])
            got = sorted(m for m in SIDE_MACROS if any(l.split()[1:2] == [m] for l in out.split('\n')))
            want = sorted(SIDE_WORDS[w]['macros']) if w else []
            if rc != 0 or got != want:
                ok = False
                rep.fail('R:side-words - %s %s defines %r, the table says %r (%s)' % (tool, w, got, want, err.strip()[-200:]),
                         {'obligation': 'R:side-words', 'tool': tool, 'word': w, 'got': got, 'want': want}, found_input=False)
    return ok


def sides_project(cs, tag, cfg, shape, env0):
    """One project configured under the flag variables cfg.  shape: per target ('prog', 'sa' static library, 'sb' shared
    library in a sub-directory) its language, its own compile options and its own link options (raw words or semantic
    options).  Every translation unit reports the predefined macros it was compiled under; every linked binary is read
    back.  Returns [(what, replay)]."""
    import shlex
    d = os.path.join(cs.root, 'sides-' + tag)
    src, bld = os.path.join(d, 'src'), os.path.join(d, 'build')
    os.makedirs(src)
    files = {}
    ext = {'c': '.c', 'c++': '.cpp'}
    for t in ('sa', 'sb'):
        lang = shape[t]['lang']
        files[t + ext[lang]] = ('%sunsigned seen_%s(void) { unsigned m = 0;\n%s  return m; }\n' % (
            'extern "C" ' if lang == 'c++' else '', t, SIDE_PROBE))
    files['main.c'] = ('#include <stdio.h>\nunsigned seen_sa(void);\nunsigned seen_sb(void);\n'
                       'extern char c16_side_sym[] __attribute__((weak));\nstatic char *volatile c16_side_p = c16_side_sym;\n'
                       'int main(void) { unsigned m = 0;\n%s  printf("prog=%%u sa=%%u sb=%%u sym=%%ld\\n", m, seen_sa(), seen_sb(), '
                       '(long)c16_side_p);\n  return 0; }\n' % SIDE_PROBE)

    def lst(words):
        return ', '.join(w if w in SIDE_SEMANTIC else repr(w) for w in words)
    L = ["project('c16sides', intermediate_dirs=False)"]
    if shape['global']['c'] or shape['global']['c++']:
        for lang in ('c', 'c++'):
            if shape['global'][lang]:
                L.append('global_options([%s], lang=%r)' % (lst(shape['global'][lang]), lang))
    if shape['global']['ld']:
        L.append('global_link_options([%s])' % lst(shape['global']['ld']))
    L.append("sa = static_library('sa', files=[%r], compile_options=[%s])" % ('sa' + ext[shape['sa']['lang']], lst(shape['sa']['cc'])))
    L.append("sb = shared_library('sub/sb', files=[%r], compile_options=[%s], link_options=[%s])" % (
        'sb' + ext[shape['sb']['lang']], lst(shape['sb']['cc']), lst(shape['sb']['ld'])))
    L.append("executable('prog', files=['main.c'], libs=[sa, sb], compile_options=[%s], link_options=[%s])" % (
        lst(shape['prog']['cc']), lst(shape['prog']['ld'])))
    files['build.bfg'] = '\n'.join(L) + '\n'
    for k, v in files.items():
        with open(os.path.join(src, k), 'w') as f:
            f.write(v)
    env = {k: v for k, v in env0.items() if k not in ('CFLAGS', 'CPPFLAGS', 'CXXFLAGS', 'LDFLAGS', 'LDLIBS')}
    tcargs, tc = [], None
    if cfg['form'] == 'env':
        for var, key in (('CPPFLAGS', 'cpp'), ('CFLAGS', 'c'), ('CXXFLAGS', 'c++'), ('LDFLAGS', 'ld')):
            if cfg[key]:
                env[var] = shlex.join(cfg[key])
    else:
        def arg(words):
            return repr(words if cfg['tcstyle'] == 'list' else shlex.join(words))
        tc = ''.join('compile_options(%s, %r)\n' % (arg(cfg[l]), l) for l in ('c', 'c++') if cfg[l])
        tc += 'link_options(%s)\n' % arg(cfg['ld']) if cfg['ld'] else ''
        with open(os.path.join(d, 'toolchain.bfg'), 'w') as f:
            f.write(tc)
        tcargs = ['--toolchain', os.path.join(d, 'toolchain.bfg')]
    replay = {'kind': 'flag-variable-sides-project', 'config': cfg, 'shape': shape, 'build.bfg': files['build.bfg'],
              'toolchain.bfg': tc, 'environment': {k: env[k] for k in ('CPPFLAGS', 'CFLAGS', 'CXXFLAGS', 'LDFLAGS') if k in env}}
    res = []

    def words_of(ws):
        return [SIDE_SEMANTIC.get(w, w) for w in ws]
    try:
        p = subprocess.run(['bfg9000', 'configure-into', src, bld, '--backend=make', '--no-resolve-packages'] + tcargs,
                           env=env, capture_output=True, text=True, timeout=300)
        if p.returncode != 0:
            return [('configure fails: %s' % (p.stderr or p.stdout)[-400:], dict(replay, stderr=p.stderr[-2000:]))]
        # the flag variables exist while configuring only
        benv = {k: v for k, v in env.items() if k not in ('CFLAGS', 'CPPFLAGS', 'CXXFLAGS', 'LDFLAGS', 'LDLIBS')}
        p = subprocess.run(['make', '-C', bld, '--no-print-directory'], env=benv, capture_output=True, text=True, timeout=300)
        if p.returncode != 0:
            return [('the build fails: %s' % (p.stderr or p.stdout)[-500:], dict(replay, make=(p.stdout + p.stderr)[-3000:]))]
        # what each side was given, per target
        cc_want = {t: side_compile_words(cfg, shape[t]['lang']) + words_of(shape['global'][shape[t]['lang']]) +
                   words_of(shape[t]['cc']) for t in ('prog', 'sa', 'sb')}
        ld_want = {t: cfg['ld'] + words_of(shape['global']['ld']) + words_of(shape[t]['ld']) for t in ('prog', 'sb')}
        # static: the command lines make printed
        seen_lines = {'compile': set(), 'link': set()}
        for line in p.stdout.split('\n'):
            try:
                argv = shlex.split(line)
            except ValueError:
                continue
            if not argv or os.path.basename(argv[0]) not in ('cc', 'gcc', 'c++', 'g++') or '-o' not in argv:
                continue
            if '-c' in argv:
                t = next((t for t in ('prog', 'sa', 'sb') if any(
                    os.path.basename(a) in ('main.c' if t == 'prog' else t + '.c', t + '.cpp') for a in argv)), None)
                side, want = 'compile', cc_want.get(t)
            else:
                out = os.path.basename(argv[argv.index('-o') + 1])
                t = {'prog': 'prog', 'libsb.so': 'sb'}.get(out)
                side, want = 'link', ld_want.get(t)
            if t is None:
                continue
            seen_lines[side].add(t)
            wrong = [(w, argv.count(w), want.count(w)) for w in sorted(SIDE_WORDS) if argv.count(w) != want.count(w)]
            if wrong:
                w, got, wn = wrong[0]
                res.append(('the %s command line of %s carries the word %r %d times; the options and flag variables of that side '
                            'give it %d times (%d such words): %r' % (side, t, w, got, wn, len(wrong), argv),
                            dict(replay, target=t, side=side, argv=argv, wrong=wrong)))
        if seen_lines['compile'] != {'prog', 'sa', 'sb'} or seen_lines['link'] != {'prog', 'sb'}:
            res.append(('the command lines printed by make are not those of the three compile and two link steps: %r' % seen_lines,
                        dict(replay, make=p.stdout[-3000:])))
        # dynamic: the macros every translation unit saw, and the linked binaries
        r = subprocess.run([os.path.join(bld, 'prog')], capture_output=True, text=True, timeout=60, cwd='/')
        want_line = 'prog=%d sa=%d sb=%d sym=%d' % (
            side_mask(side_macros(cc_want['prog'])), side_mask(side_macros(cc_want['sa'])), side_mask(side_macros(cc_want['sb'])),
            42 if any(SIDE_WORDS.get(w, {}).get('link') == 'defsym' for w in ld_want['prog']) else 0)
        if r.returncode != 0 or r.stdout.strip() != want_line:
            def names(mask):
                return [m for k, m in enumerate(SIDE_MACROS) if mask >> k & 1]
            got = dict(x.split('=') for x in r.stdout.split() if '=' in x)
            detail = '; '.join('%s was compiled with %r defined, its options and the compile-side variables give %r' % (
                t, names(int(got.get(t, '0') or 0)), side_macros(cc_want[t])) for t in ('prog', 'sa', 'sb')
                if got.get(t) != str(side_mask(side_macros(cc_want[t]))))
            res.append(('the program prints %r (exit %d), expected %r: %s' % (r.stdout.strip(), r.returncode, want_line,
                                                                             detail or 'the link-side symbol differs'),
                        dict(replay, stdout=r.stdout[-500:], expected=want_line)))
        for t, path in (('prog', os.path.join(bld, 'prog')), ('sb', os.path.join(bld, 'sub', 'libsb.so'))):
            sec = subprocess.run(['readelf', '-S', '-h', '--wide', path], capture_output=True, text=True).stdout
            stripped = '.symtab' not in sec
            exec_type = 'EXEC (Executable file)' in sec
            kinds = set(SIDE_WORDS.get(w, {}).get('link') for w in ld_want[t])
            if stripped != ('stripped' in kinds) or (t == 'prog' and exec_type != ('exec' in kinds)):
                res.append(('the linked binary of %s is %sstripped and %s position-dependent executable; its link options and the '
                            'link-side variables %r say %sstripped and %s' % (
                                t, '' if stripped else 'not ', 'a' if exec_type else 'no', ld_want[t],
                                '' if 'stripped' in kinds else 'not ', 'one' if 'exec' in kinds else 'none'),
                            dict(replay, target=t, link_words=ld_want[t])))
        return res
    finally:
        shutil.rmtree(d, ignore_errors=True)


def gen_side_shape(rng):
    """own options of the targets: one of the two libraries asks for pthread itself (semantic option), the other targets
    do not; raw words here and there"""
    asker = rng.choice(['sa', 'sb', 'prog'])
    shape = {'global': {'c': [], 'c++': [], 'ld': []}}
    for t in ('prog', 'sa', 'sb'):
        cc = ['opts.pthread()'] if t == asker else []
        if rng.random() < 0.3:
            cc.append(rng.choice(['-funsigned-char', '-ffast-math']))
        shape[t] = {'lang': 'c' if t == 'prog' else rng.choice(['c', 'c', 'c++']), 'cc': cc, 'ld': []}
    if rng.random() < 0.3:
        shape[rng.choice(['prog', 'sb'])]['ld'].append('-s')
    if rng.random() < 0.3:
        w = rng.choice(['-O2', '-fstack-protector-all'])
        shape['global']['c'].append(w)
        shape['global']['c++'].append(w)
    if rng.random() < 0.25:
        shape['global']['ld'].append('-Wl,--defsym=c16_side_sym=0x2a')
    return shape


def stage_system_sides(rep, rng, cs, thorough, extra=0):
    """Projects (program + static library + shared library in a sub-directory, C and C++) configured under flag variables
    whose link-side words mean something when compiling and whose compile-side words mean something when linking, given
    in the environment and in a toolchain file; really configured, built with gcc/g++, run, read back."""
    if not validate_side_words(rep, cs):
        return
    env0 = common.impl_env()
    n = (12 if thorough else 4) + extra
    jobs = []
    for k in range(n):
        form = ['env', 'toolchain'][k % 2]
        jobs.append(('%d-%s' % (k, form), gen_side_config(rng, form), gen_side_shape(rng)))
    with ThreadPoolExecutor(max_workers=4) as ex:
        res = list(ex.map(lambda j: sides_project(cs, j[0], j[1], j[2], env0), jobs))
    n_ok = 0
    for (tag, cfg, shape), r in zip(jobs, res):
        rep.case('sides-project:%r:%r' % (cfg, shape), True)
        rep.count('system:flag-variable-sides:' + cfg['form'])
        for t in ('sa', 'sb'):
            rep.count('system:flag-variable-sides:library-language:' + shape[t]['lang'])
        n_ok += not r
        for what, replay in r[:3]:
            rep.fail('system: flag variables (compile side: CPPFLAGS %r, C %r, C++ %r; link side: %r; given as %s): %s' % (
                cfg['cpp'], cfg['c'], cfg['c++'], cfg['ld'], 'environment variables' if cfg['form'] == 'env' else
                'toolchain file (%s form)' % cfg['tcstyle'], what), replay)
    rep.stage('system:flag variables stay on their side', projects=len(jobs), ok=n_ok)


# ----------------------------------------------------------------------------- search-path variables of the environment
# The compiler driver reads directory lists from the environment: CPATH (every language, searched after -I), C_INCLUDE_PATH /
# CPLUS_INCLUDE_PATH (one language each, searched as system directories) and LIBRARY_PATH (link time).  A project that is
# configured in a shell where such a variable lists project directories (several entries) and names some of those
# directories itself (absolute path) must still get its include_dir options translated: the Makefile is used from shells
# without those variables too, -I outranks CPATH entries, and system=True must keep the header's diagnostics quiet.
SEARCH_VARS = ['CPATH', 'C_INCLUDE_PATH', 'CPLUS_INCLUDE_PATH', 'LIBRARY_PATH']
SEARCH_LANG_VAR = {'c': 'C_INCLUDE_PATH', 'c++': 'CPLUS_INCLUDE_PATH'}
SEARCH_FORMS = ['string', 'header_directory', 'compile_options', 'global_options']
SEARCH_HEADERS = {'old': ('cfg.h', '#define CFG_VALUE 1\n'), 'new': ('cfg.h', '#define CFG_VALUE 2\n'),
                  'vendor': ('vendor.h', 'static inline int vendor_lt(int a, unsigned b) { int scratch; return a < b; }\n'),
                  'third': ('third.h', '#define THIRD_VALUE 3\n'), 'decoy': ('cfg.h', '#define CFG_VALUE 9\n')}
SEARCH_MAIN = ('#include <stdio.h>\n#include <cfg.h>\n#include <vendor.h>\n'
               'int main(void) { printf("cfg=%d vend=%d\\n", CFG_VALUE, vendor_lt(1, 2u)); return 0; }\n')
FINDING_LANG_PATH = 'include-dir-listed-in-language-include-path-variable'


def clean_search_env(env):
    return {k: v for k, v in env.items() if k not in SEARCH_VARS and k not in ('CFLAGS', 'CPPFLAGS', 'CXXFLAGS', 'LDFLAGS', 'LDLIBS')}


def compiler_default_dirs(env0):
    """the compiler's own include directories per language, read off `cc -E -v` run WITHOUT any search-path variable"""
    res = {}
    for lang, tool in (('c', 'cc'), ('c++', 'c++')):
        p = subprocess.run([tool, '-E', '-x', lang, '-', '-v'], input='', env=clean_search_env(env0), capture_output=True, text=True)
        dirs, on = [], False
        for line in p.stderr.split('\n'):
            if line.startswith('#include <...> search starts here'):
                on = True
            elif line.startswith('End of search list'):
                on = False
            elif on and line.strip():
                dirs.append(os.path.normpath(line.strip()))
        res[lang] = dirs
    return res


def gen_search_case(rng, var, defaults):
    """One configuration: the variable `var` lists 3..5 project directories at configure time, the ones the script names
    never first (a directory with a competing header is); sometimes a second variable lists directories the script does
    not name.  The script names a plain directory and a system=True directory (each named directory is an entry of at most
    one variable), each in one of the forms includes=[path], includes=[header_directory(path)], opts.include_dir in
    compile_options= / in global_options, and sometimes one of the compiler's own default directories."""
    lang = rng.choice(['c', 'c', 'c++'])
    listed = rng.choice([['new', 'vendor'], ['new', 'vendor'], ['new'], ['vendor']])
    tail = listed + (['third'] if rng.random() < 0.5 else [])
    rng.shuffle(tail)
    cenv = {var: ['old'] + tail}
    if rng.random() < 0.5:
        other = rng.choice([v for v in SEARCH_VARS if v != var])
        cenv[other] = ['decoy'] + (['third'] if rng.random() < 0.5 else [])
    named = [{'dir': 'new', 'system': False, 'form': rng.choice(SEARCH_FORMS)},
             {'dir': 'vendor', 'system': True, 'form': rng.choice(SEARCH_FORMS[1:])}]
    if rng.random() < 0.4 and defaults.get(lang):
        usable = [d for d in defaults[lang] if os.path.isdir(d)]
        if usable:
            named.append({'dir': rng.choice(usable), 'system': rng.random() < 0.5, 'form': rng.choice(SEARCH_FORMS[1:])})
    rng.shuffle(named)
    return {'lang': lang, 'configure_env': cenv, 'named': named,
            'make_envs': rng.choice([['without', 'with'], ['with', 'without']])}


def include_flag_count(argv, d):
    """how many -I / -isystem options of a command line name the directory d (joined and separate spellings)"""
    n = 0
    for k, a in enumerate(argv):
        if a in ('-I', '-isystem', '-idirafter', '-iquote'):
            n += k + 1 < len(argv) and os.path.normpath(argv[k + 1]) == d
        else:
            for pre in ('-isystem', '-idirafter', '-iquote', '-I'):
                if a.startswith(pre) and len(a) > len(pre):
                    n += os.path.normpath(a[len(pre):]) == d
                    break
    return n


def search_project(root, tag, case, env0, defaults):
    """Configure one such project with the real bfg9000 under the variables, build it with make WITHOUT and WITH them, run
    the program.  Reference: the compiler driver called directly, in the same environment as make, with one -I / -isystem
    per non-default directory the script names (and the script's warning options) - the project must behave like it.
    Returns [(what, replay, classes)]."""
    import shlex
    d = os.path.join(root, 'senv-' + tag)
    shutil.rmtree(d, ignore_errors=True)
    src, bld = os.path.join(d, 'src'), os.path.join(d, 'build')
    os.makedirs(src)
    lang = case['lang']

    def path(name):
        return name if name.startswith('/') else os.path.join(d, 'opt', name, 'include')
    for name, (hdr, text) in SEARCH_HEADERS.items():
        os.makedirs(path(name))
        with open(os.path.join(path(name), hdr), 'w') as f:
            f.write(text)
    main = 'main.c' if lang == 'c' else 'main.cpp'
    L, includes, copts, ref = ["project('c16env', intermediate_dirs=False)"], [], [], {'global_options': [], 'includes': [], 'compile_options': []}
    for k, nd in enumerate(case['named']):
        p = path(nd['dir'])
        flag = [] if p in defaults[lang] else (['-isystem', p] if nd['system'] else ['-I' + p])
        if nd['form'] == 'string':
            includes.append(repr(p))
            ref['includes'] += flag
            continue
        L.append('d%d = header_directory(%r%s)' % (k, p, ', system=True' if nd['system'] else ''))
        if nd['form'] == 'header_directory':
            includes.append('d%d' % k)
            ref['includes'] += flag
        elif nd['form'] == 'compile_options':
            copts.append('opts.include_dir(d%d)' % k)
            ref['compile_options'] += flag
        else:
            L.append('global_options([opts.include_dir(d%d)], lang=%r)' % (k, lang))
            ref['global_options'] += flag
    copts.append("opts.warning('all', 'extra', 'error')")
    L.append("executable('prog', files=[%r], includes=[%s], compile_options=[%s])" % (main, ', '.join(includes), ', '.join(copts)))
    bfg = '\n'.join(L) + '\n'
    project_files = {'build.bfg': bfg, main: SEARCH_MAIN}
    for k, v in project_files.items():
        with open(os.path.join(src, k), 'w') as f:
            f.write(v)
    refflags = ref['global_options'] + ref['includes'] + ref['compile_options'] + ['-Wall', '-Wextra', '-Werror']
    base = clean_search_env(env0)
    cenv = dict(base)
    for var, names in case['configure_env'].items():
        cenv[var] = ':'.join(path(n) for n in names)
    shown = {var: cenv[var].replace(d, '<root>') for var in case['configure_env']}
    replay = {'kind': 'search-path-env', 'case': case, 'build.bfg': bfg.replace(d, '<root>'), 'configure_environment': shown,
              'headers': {'<root>/opt/%s/include/%s' % (n, h): t for n, (h, t) in SEARCH_HEADERS.items()}, main: SEARCH_MAIN,
              'replay_hint': './check C16 --replay <this file> rebuilds the project under a fresh <root> and runs it again'}
    res = []

    def known(nd):
        """the open finding: the directory is an entry of the include-path variable of the target's own language (and of no
        other variable)"""
        return [v for v, names in case['configure_env'].items() if nd['dir'] in names] == [SEARCH_LANG_VAR[lang]]
    try:
        p = subprocess.run(['bfg9000', 'configure-into', src, bld, '--backend=make', '--no-resolve-packages'],
                           env=cenv, capture_output=True, text=True, timeout=300)
        if p.returncode != 0:
            return [('configure fails: %s' % (p.stderr or p.stdout)[-400:], dict(replay, stderr=p.stderr[-2000:]), ())]
        tool = 'cc' if lang == 'c' else 'c++'
        argv_checked = False
        for which in case['make_envs']:
            menv = dict(cenv) if which == 'with' else dict(base)
            for dp, _, fns in os.walk(bld):
                for fn in fns:
                    if fn == 'prog' or fn.endswith('.o'):
                        os.remove(os.path.join(dp, fn))
            m = subprocess.run(['make', '-C', bld, '--no-print-directory'], env=menv, capture_output=True, text=True, timeout=300)
            # the command line make printed for the translation unit
            argv = None
            for line in m.stdout.split('\n'):
                try:
                    a = shlex.split(line)
                except ValueError:
                    continue
                if a and os.path.basename(a[0]) in ('cc', 'gcc', 'c++', 'g++') and '-c' in a and any(os.path.basename(x) == main for x in a):
                    argv = a
            missing = []
            if not argv_checked:
                argv_checked = True
                if argv is None:
                    res.append(('make printed no compile command line for %s: %s' % (main, (m.stdout + m.stderr)[-400:]),
                                dict(replay, make=(m.stdout + m.stderr)[-3000:]), ()))
                for nd in case['named'] if argv is not None else []:
                    pth = path(nd['dir'])
                    if pth in defaults[lang]:
                        continue               # dropping a directory the compiler searches anyway is legitimate
                    n = include_flag_count(argv, pth)
                    if n == 0:
                        missing.append(nd)
                    if n != 1:
                        res.append(('the compile command line has %d -I/-isystem options for the directory %s the script names '
                                    'with %s (system=%s); that directory is an entry of %s at configure time and not one of the '
                                    "compiler's own directories %r: %r" % (
                                        n, pth.replace(d, '<root>'), nd['form'], nd['system'],
                                        [v for v, names in case['configure_env'].items() if nd['dir'] in names] or 'no variable',
                                        defaults[lang], [x.replace(d, '<root>') for x in argv]),
                                    dict(replay, argv=argv, directory=pth, count=n),
                                    (FINDING_LANG_PATH,) if n == 0 and known(nd) else ()))
            else:
                missing = [nd for nd in case['named'] if argv is not None and path(nd['dir']) not in defaults[lang] and
                           include_flag_count(argv, path(nd['dir'])) == 0]
            # reference: the driver itself with the flags the options stand for, same environment
            exe = os.path.join(d, 'ref-' + which)
            r = subprocess.run([tool, '-x', lang] + refflags + [os.path.join(src, main), '-o', exe], env=menv, capture_output=True,
                               text=True, timeout=120)
            want = subprocess.run([exe], capture_output=True, text=True, timeout=60).stdout.strip() if r.returncode == 0 else None
            if want is None:
                res.append(('reference compile fails (harness): %s' % r.stderr[-300:], dict(replay, reference=refflags), ()))
                continue
            envtxt = ('WITH the variables of configure time' if which == 'with' else 'WITHOUT those variables')
            if m.returncode != 0:
                out = m.stdout + m.stderr
                # explained by the open finding only when the build fails for lack of exactly such a directory's header
                # in the environment that does not list it
                hdrs = [SEARCH_HEADERS[nd['dir']][0] for nd in missing if known(nd) and nd['dir'] in SEARCH_HEADERS]
                cl = (FINDING_LANG_PATH,) if which == 'without' and any(('fatal error: %s: No such file' % h) in out for h in hdrs) else ()
                res.append(('make run %s fails, the compiler called directly with %r builds a program that prints %r: %s' % (
                    envtxt, [x.replace(d, '<root>') for x in refflags], want, (m.stderr or m.stdout)[-400:].replace(d, '<root>')),
                    dict(replay, make_environment=which, make=out[-3000:], reference=refflags, expected=want), cl))
                continue
            got = subprocess.run([os.path.join(bld, 'prog')], capture_output=True, text=True, timeout=60).stdout.strip()
            if got != want:
                res.append(('built %s the program prints %r; the compiler called directly with one -I/-isystem per named '
                            'directory (%r) gives %r (cfg.h of the named directory defines 2, the one listed first in the '
                            'variable 1): compile line %r' % (envtxt, got, [x.replace(d, '<root>') for x in refflags], want,
                                                              [x.replace(d, '<root>') for x in (argv or [])]),
                            dict(replay, make_environment=which, got=got, expected=want, argv=argv, reference=refflags), ()))
        return res
    finally:
        shutil.rmtree(d, ignore_errors=True)


def search_what(case, what):
    return ('system: configured with %s, %s target with include directories by absolute path (%s): %s [variable entries and '
            'directories: NAME = <root>/opt/NAME/include]' % (
        ' '.join('%s=%s' % (v, ':'.join(names)) for v, names in case['configure_env'].items()), case['lang'].upper(),
        ', '.join('%s%s via %s' % (nd['dir'], ' system=True' if nd['system'] else '', nd['form']) for nd in case['named']), what))


def stage_system_search_env(rep, rng, cs, thorough, extra=0):
    """Projects configured in environments whose search-path variables list project directories; see search_project."""
    env0 = common.impl_env()
    defaults = compiler_default_dirs(env0)
    if not all(defaults.get(l) for l in ('c', 'c++')):
        rep.fail('system setup: cannot read the default include directories of cc / c++', {'obligation': 'system setup'},
                 found_input=False)
        return
    n = (16 if thorough else 6) + extra
    variables = []
    while len(variables) < n:
        block = list(SEARCH_VARS) + ['CPATH']
        rng.shuffle(block)
        variables += block
    jobs = [('%d' % k, gen_search_case(rng, variables[k], defaults)) for k in range(n)]
    with ThreadPoolExecutor(max_workers=4) as ex:
        res = list(ex.map(lambda j: search_project(cs.root, j[0], j[1], env0, defaults), jobs))
    n_ok = 0
    for (tag, case), r in zip(jobs, res):
        rep.case('search-env:%r' % (case,), True)
        for v in case['configure_env']:
            rep.count('system:search-path-variable:' + v)
        rep.count('system:search-path-variable:language:' + case['lang'])
        for nd in case['named']:
            rep.count('system:search-path-variable:named-as:' + nd['form'])
        n_ok += not r
        for what, replay, classes in r[:3]:
            rep.fail(search_what(case, what), replay, classes=classes)
    rep.stage('system:search-path variables at configure time', projects=len(jobs), ok=n_ok)


# ----------------------------------------------------------------------------- entry points
def run(rep):
    rng = random.Random(rep.seed)
    thorough = rep.tier == 'thorough'
    rep.proof_stage(coqchk=thorough)
    fixed, dfix = impl_fixed(), impl_dfix()
    rep.stage('variant', optimize_size_table='fixed (-Os)' if fixed else 'as originally written (-Osize)',
              define_empty_value='kept (-DNAME=)' if dfix else 'as originally written (-DNAME)')
    n = 1500 if thorough else 250
    dis = []
    dis += stage_w_tables(rep, rng, n, fixed, dfix)
    dis += stage_w_optlist(rep, rng, n, exhaustive=thorough)
    dis += stage_w_merge(rep, rng, n // 2, fixed, dfix)
    root = common.scratch('c16')
    try:
        cs = Compilers(root)
        rbad = stage_r_grammar(rep, rng, cs, thorough)
        found = stage_oracle(rep, rng, cs, thorough or bool(dis))   # wider probe set when the tie broke
        found = len(found or []) + stage_oracle_default_dirs(rep, cs)
        found += stage_oracle_pch(rep, rng)
        found += stage_oracle_placement(rep, rng)
        found += stage_oracle_sides(rep, rng, 400 if thorough else (120 if dis else 40))
        rep.stage('compilers', invocations=cs.n)
        stage_system(rep, rng, cs)
        stage_system_link(rep, rng, cs, thorough)
        stage_system_words(rep, rng, cs, thorough)
        stage_system_sides(rep, rng, cs, thorough, extra=4 if dis else 0)
        stage_system_search_env(rep, rng, cs, thorough)
    finally:
        shutil.rmtree(root, ignore_errors=True)
    if dis and not rep.n_with_input:
        i, call, iv, mv = dis[0]
        rep.fail('W:%s - model and implementation disagree (%d cases), e.g. %r: impl %r, model %r' % (
            call[0], len(dis), call[1], iv, mv),
            {'obligation': 'W:' + call[0], 'call': call, 'impl': iv, 'model': mv, 'n_disagreements': len(dis)},
            found_input=False)


def replay(rep, path):
    r = json.load(open(path))
    print(json.dumps(r, indent=1)[:2000])
    if r.get('kind') == 'search-path-env' and 'case' in r:
        # the project of the replay file again, under a fresh root
        root = common.scratch('c16')
        try:
            env0 = common.impl_env()
            for what, rp, classes in search_project(root, 'replay', r['case'], env0, compiler_default_dirs(env0))[:3]:
                rep.fail(search_what(r['case'], what), rp, classes=classes)
        finally:
            shutil.rmtree(root, ignore_errors=True)
        return
    if 'option' not in r:
        return run(rep)
    spec = canon_spec(r['option'])
    if spec and spec[0] == 'lib':
        return run(rep)
    root = common.scratch('c16')
    try:
        cs = Compilers(root)
        with Tools(default_dirs=[]) as t:
            try:
                fl = [t.canon_flag(f) for f in t.compiler.flags([mk_obj(spec)])]
            except TypeError:
                fl = [t.canon_flag(f) for f in t.linker.flags([mk_obj(spec)], output=t.output())]
        for tool in CC['c']:
            rc, out, err = cs.run([tool, '-x', 'c', '-fsyntax-only'] + fl + ['probe.c'])
            if rc != 0:
                rep.fail('flags rejected by the compiler (exit %d: %s): option %r -> %r, %s' % (
                    rc, err.strip()[-200:], spec, fl, tool), {'option': list(spec), 'flags': fl, 'tool': tool},
                    classes=classify(spec, fl))
    finally:
        shutil.rmtree(root, ignore_errors=True)
    run(rep)
