"""C17 - Generated pkg-config files give consumers the declared flags and requirements."""
import json
import os
import random
import shutil
import subprocess

from . import common, gen
from .common import d_str, d_bool, d_opt, d_list

LEVEL = 'proof'

# Which variant of the simplify_specifiers model mirrors /repo: None = auto-detect by probing the
# implementation with '>=10,>=9' (the repaired code answers '>=10'); set True/False to force.
FIXED = None

RULE = ('specifier sets: 0..6 specifiers, operator uniform over == != >= > <= <, versions from a pool mixing 9, 10, 1.9, '
        '1.10, 2.0, 2, 1, 1.0 (string order differs from version order; 2/2.0 and 1/1.0 are one version with two spellings), '
        'each set drawn from a random 1..4-element sub-pool so that ties, conflicts and collapses occur; requirement lists: '
        '0..4 entries over 3 names per public/private/auto/conflicts list; .pc fields: flags from weighted character classes '
        '(plain, blank, quotes, $, #, backslash, non-ASCII) and paths ${var}/suffix; a case is non-trivial when it has at '
        'least two specifiers / a character outside [A-Za-z0-9_./=-], distinct by exact text')
TRUSTED = ('verspec LooseVersion parsing (versions enter the model as their printed form; the order model vparse/lex_leb is '
           'compared with verspec on the pool on every run)',
           'R model of the pkgconf 1.8.1 .pc reader (Misc/PcFile.v), validated against /usr/bin/pkg-config on this run')
EXPLANATION = ''

OPS = ['==', '!=', '>=', '>', '<=', '<']
POOL = ['9', '10', '1.9', '1.10', '2.0', '2', '1', '1.0', '0.9', '10.0.1', '1.9.0']
# versions the oracle tries as members: the pool plus points strictly between / outside its elements
PROBES = POOL + ['0', '0.1', '0.9.5', '1.0.1', '1.5', '1.9.1', '1.9.5', '1.10.1', '1.11', '2.0.1', '2.1', '3', '8', '9.0.1',
                 '9.5', '9.10', '10.0.0.1', '10.0.2', '10.1', '11', '100']
NAMES = ['foo', 'bar', 'libz']


def opcode(o):
    return OPS.index(o)


def detect_fixed():
    if FIXED is not None:
        return FIXED
    from bfg9000.versioning import simplify_specifiers, SpecifierSet
    return str(simplify_specifiers(SpecifierSet('>=10,>=9'))) == '>=10'


def gen_specs(rng, rep=None, maxn=6):
    sub = rng.sample(POOL, rng.choice([1, 1, 2, 2, 3, 4]))
    n = rng.choice([0, 1, 2, 2, 3, 3, 4, 5, maxn])
    out = []
    for _ in range(n):
        o = rng.choice(OPS)
        if rep is not None:
            rep.count('op:' + o)
        out.append((o, rng.choice(sub)))
    return out


def spec_text(specs):
    return ','.join(o + v for o, v in specs)


def canon_specs(ss):
    return sorted([opcode(i.operator), i.version] for i in ss)


def d_spec(x):
    return [x[0], d_str(x[1])]


def d_res(f, r):
    return 'ValueError' if r[0] == 1 else f(r[1])


def d_simple(x):
    return [d_str(x[0]), d_opt(d_spec, x[1])]


def dec(name, r):
    if name in ('ver.leb', 'ver.sat'):
        return d_bool(r)
    if name == 'ver.simplify':
        return d_res(lambda l: sorted(d_spec(i) for i in l), r)
    if name == 'req.split':
        return d_res(lambda l: sorted((d_simple(i) for i in l), key=repr), r)
    if name == 'req.finalize_sets':
        return [[[d_str(q[0]), sorted(d_spec(i) for i in q[1])] for q in part] for part in r]
    if name == 'req.finalize':
        return d_res(lambda t: [[d_simple(i) for i in part] for part in t], r)
    raise KeyError(name)


def impl_simplify(text):
    from bfg9000.versioning import simplify_specifiers, SpecifierSet
    ss = SpecifierSet(text)
    order = [[opcode(i.operator), i.version] for i in ss]
    try:
        return order, canon_specs(simplify_specifiers(ss))
    except ValueError:
        return order, 'ValueError'


# ----------------------------------------------------------------------------- W: versioning
CORPUS_SPECS = ['>=10,>=9', '>=1.10,>=1.9', '>=1,<=1,!=1', '==1,==1.0', '>=1,<=1.0', '>=1,<=1.0,!=1', '>1,>=1', '<1,<=1',
                '>=1,>=1.0', '', '!=3,>=1', '==2,!=2.0', '>2,<3', '>=2,<2', '<=10,<=9', '<10,<=9', '<=1.10,<1.9', '==1',
                '==1,==2', '==1,>=1', '==1,>1', '==2,<=2.0', '!=1', '!=1,!=2', '>=1,<=1', '>1,<1', '>=1,<1', '>1,<=1',
                '>=2,<=1', '>=9,<=10,!=9.5,!=11', '>=1.9,<=1.9,!=1.9.0', '>=2,<=2,!=2.0', '>=2.0,>=2', '<=2.0,<=2',
                '>2.0,>=2', '>=2.0,>2']


def stage_w_versions(rep, rng, n, fixed):
    from bfg9000.versioning import Version, SpecifierSet
    calls, impl = [], []
    for a in PROBES:
        for b in PROBES:
            calls.append(('ver.leb', [a, b]))
            impl.append(Version(a) <= Version(b))
    texts = CORPUS_SPECS + [spec_text(gen_specs(rng, rep)) for _ in range(n)]
    for t in texts:
        order, r = impl_simplify(t)
        rep.case('s:' + t, len(order) >= 2)
        rep.count('simplify:' + ('Err' if r == 'ValueError' else 'n=%d' % len(r)))
        calls.append(('ver.simplify', [fixed, order]))
        impl.append(r)
        x = rng.choice(PROBES)
        calls.append(('ver.sat', [x, order]))
        impl.append(x in SpecifierSet(t))
    for c in calls[-4:]:
        rep.sample({'stage': 'W:versions', 'call': c[0], 'arg': c[1]})
    return common.compare_model(rep, 'W:versions', calls, impl, dec)


# ----------------------------------------------------------------------------- oracle: simplify on the implementation
def classify_simplify(text):
    """Finding classes of a failing specifier set (predicates on the input only)."""
    from bfg9000.versioning import Version, SpecifierSet
    ss = list(SpecifierSet(text))
    cls = set()
    for grp in (('>=', '>'), ('<=', '<')):
        b = [i for i in ss if i.operator in grp]
        for i in b:
            for j in b:
                if (i.version < j.version) != (Version(i.version) < Version(j.version)):
                    cls.add('simplify-string-order-key')
    ge = {i.version for i in ss if i.operator == '>='}
    le = {i.version for i in ss if i.operator == '<='}
    ne = {i.version for i in ss if i.operator == '!='}
    for v in ge & le:
        if any(Version(v) == Version(w) for w in ne):
            cls.add('simplify-eq-drops-ne')
    eqs = [i.version for i in ss if i.operator == '==']
    if any(a != b and Version(a) == Version(b) for a in eqs for b in eqs):
        cls.add('simplify-eq-string-identity')
    return tuple(sorted(cls))


def oracle_simplify_one(rep, text):
    """The property itself on the real code: the simplified set has the same members as the given one over the probe
    versions; a rejected set has no member."""
    from bfg9000.versioning import simplify_specifiers, SpecifierSet
    ss = SpecifierSet(text)
    try:
        r = simplify_specifiers(ss)
    except ValueError:
        r = None
    bad = None
    for x in PROBES:
        want = x in ss
        if r is None:
            if want:
                bad = 'specifier set %r is rejected as inconsistent but version %s satisfies it' % (text, x)
                break
        elif (x in r) != want:
            bad = 'specifier set %r is simplified to %r, which %s version %s while the given set %s it' % (
                text, str(r), 'accepts' if x in r else 'rejects', x, 'accepts' if want else 'rejects')
            break
    if bad:
        rep.fail(bad, {'kind': 'simplify', 'specifiers': text,
                       'replay_hint': "python -c \"from bfg9000.versioning import *; print(simplify_specifiers(SpecifierSet(%r)))\"" % text},
                 classes=classify_simplify(text))
        return 1
    return 0


def stage_oracle_simplify(rep, rng, n):
    bad = 0
    texts = CORPUS_SPECS + [spec_text(gen_specs(rng)) for _ in range(n)]
    for t in texts:
        rep.case('o:' + t, t.count(',') >= 1)
        bad += oracle_simplify_one(rep, t)
    rep.stage('oracle:simplify', cases=len(texts), probes=len(PROBES), failures=bad)
    return bad


def run(rep):
    rng = random.Random(rep.seed)
    thorough = rep.tier == 'thorough'
    rep.proof_stage(coqchk=thorough)
    fixed = detect_fixed()
    rep.stage('variant', simplify_model='fixed=true (repaired code)' if fixed else 'fixed=false (string sort key)')
    n = 6000 if thorough else 700
    dis = stage_w_versions(rep, rng, n, fixed)
    found = stage_oracle_simplify(rep, rng, n * (10 if dis else 2))
    if dis and not found:
        i, call, iv, mv = dis[0]
        rep.fail('W:%s - model and implementation disagree (%d cases), e.g. %r: impl %r, model %r' % (
            call[0], len(dis), call[1], iv, mv),
            {'obligation': 'W:' + call[0], 'call': call, 'impl': iv, 'model': mv, 'n_disagreements': len(dis)},
            found_input=False)


def replay(rep, path):
    r = json.load(open(path))
    print(json.dumps(r, indent=1)[:2000])
    if r.get('kind') == 'simplify':
        oracle_simplify_one(rep, r['specifiers'])
        return
    run(rep)
