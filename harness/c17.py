"""C17 - Generated pkg-config files give consumers the declared flags and requirements."""
import json
import os
import random
import shutil
import subprocess

from . import common, gen
from .common import d_str, d_bool, d_opt, d_list

LEVEL = 'proof'

# Which variant of the simplify_specifiers model mirrors the tree under test.  The model has one switch per repair:
#   fixed (commit 3ca56c7, sort key compares versions): None = auto-detect by probing the implementation with '>=10,>=9'
#         (the repaired code answers '>=10');
#   eqv   (finding C17-simplify-eq-string-identity, == specifiers compared by version): None = auto-detect by probing the
#         implementation with '==1,==1.0' (the repaired code simplifies it, the unrepaired one raises 'inconsistent
#         specifier set').
# Set True/False to force.
FIXED = None
EQV = None
EQ_ID = 'C17-simplify-eq-string-identity'
EQ_CLASS = 'simplify-eq-string-identity'
EQ_PROBE = '==1,==1.0'

RULE = ('specifier sets: 0..6 specifiers, operator uniform over == != >= > <= <, versions from a pool mixing 9, 10, 1.9, '
        '1.10, 2.0, 2, 1, 1.0, 1.9.0 (string order differs from version order; 2/2.0, 1/1.0 and 1.9/1.9.0 are one version with '
        'two spellings; the corpus and the generated sets hold two and three == specifiers on one version in both '
        'spellings, alone, with bounds and with !=), '
        'each set drawn from a random 1..4-element sub-pool so that ties, conflicts and collapses occur; requirement lists: '
        '0..4 entries over 3 names per public/private/auto/conflicts list; .pc fields: flags from weighted character classes '
        '(plain, blank, quotes, $, #, backslash, non-ASCII) and paths ${var}/suffix; a case is non-trivial when it has at '
        'least two specifiers / a character outside [A-Za-z0-9_./=-], distinct by exact text; pkg_config projects '
        '(harness/c17sys.py): 2..4 header directories / header files (names with blank, quote, $), 3..5 libraries of every '
        'kind (static_library, shared_library, library(kind=dual), library() whose kind the library mode decides) with '
        'dependencies on earlier ones and forwarded link options, configured under the three library modes (shared, '
        'shared+static, static) dealt out in turn, one project per quick run also built and consumed (dynamic and, where '
        'every library of the closure has an archive, forced-static link), 1..3 install() calls interleaved with 4..6 '
        'pkg_config() calls dealt from all 18 combinations of auto_fill x libs None/[]/[..] x includes None/[]/[..] (every '
        'project has an auto_fill package with an explicitly empty list and one with nothing given), options with blanks / '
        'quotes / $ / ; / backquote, versions None / empty / given, public and private requirements on two stub packages and '
        'on earlier packages with satisfied and unsatisfied specifier families split across the two lists; every configured '
        'project then has its build directory renamed to a sibling path (a third of the unbuilt ones to a path with a blank) '
        'without regeneration and is queried again at the new place in both forms (the built project is consumed again '
        'there); the variables section of every written file (both forms) is compared with the model; a case is one '
        'package in one form (installed / -uninstalled) at one place (as configured / moved), distinct by build.bfg text + '
        'package + form + place')
TRUSTED = ('variant detection: the two probes of the real simplify_specifiers (harness/c17.py detect_fixed / detect_eqv: '
           "'>=10,>=9' answers '>=10', '==1,==1.0' is simplified) select which pair (fixed, eqv) of the model is compared with "
           'the tree under test and whether finding C17-simplify-eq-string-identity applies to it',
           'verspec LooseVersion parsing (versions enter the model as their printed form; the order model vparse/lex_leb is '
           'compared with verspec on the pool on every run)',
           'R model of the pkgconf 1.8.1 .pc reader (Misc/PcFile.v), validated against /usr/bin/pkg-config on this run',
           'system stage: the reference semantics of a generated project in harness/c17sys.py (ref_pkg / SysProject.expect: what '
           'each package declares, closure over requirements as pkgconf 1.8.1 resolves them, install layout prefix/include and '
           'prefix/lib/<subdir>; after the build directory has been moved: library directories below the NEW place, source '
           'directories unchanged); verspec membership for judging printed requirement entries')
EXPLANATION = ''

OPS = ['==', '!=', '>=', '>', '<=', '<']
POOL = ['9', '10', '1.9', '1.10', '2.0', '2', '1', '1.0', '0.9', '10.0.1', '1.9.0']
# versions the oracle tries as members: the pool plus points strictly between / outside its elements
PROBES = POOL + ['0', '0.1', '0.9.5', '1.0.1', '1.5', '1.9.1', '1.9.5', '1.10.1', '1.11', '2.0.1', '2.1', '3', '8', '9.0.1',
                 '9.5', '9.10', '10.0.0.1', '10.0.2', '10.1', '11', '100']
NAMES = ['foo', 'bar', 'libz']
# other spellings of pool versions (trailing zero components), used to put two == specifiers on one version
RESPELL = POOL + ['9.0', '10.0', '1.9.0.0', '1.10.0', '2.0.0', '1.0.0', '0.9.0', '10.0.1.0']


def opcode(o):
    return OPS.index(o)


def detect_fixed():
    if FIXED is not None:
        return FIXED
    from bfg9000.versioning import simplify_specifiers, SpecifierSet
    return str(simplify_specifiers(SpecifierSet('>=10,>=9'))) == '>=10'


_EQV = {}
_RESPELL = {}


def detect_eqv(rep=None):
    """Does the simplify_specifiers under test compare two == specifiers by VERSION (the repair of finding
    C17-simplify-eq-string-identity) or as Specifier objects (by the spelling of the version, as first written)?  Found by
    running the real function on '==1,==1.0' once per process: any simplified set -> by version; ValueError 'inconsistent
    specifier set ...' -> by spelling.  Anything else (another exception) is reported and counts as 'not repaired'."""
    if EQV is not None:
        return EQV
    if 'v' in _EQV:
        return _EQV['v']
    from bfg9000.versioning import simplify_specifiers, SpecifierSet
    try:
        r = simplify_specifiers(SpecifierSet(EQ_PROBE))
        _EQV['v'], _EQV['detail'] = True, '%s -> %s' % (EQ_PROBE, r)
    except ValueError as e:
        _EQV['v'], _EQV['detail'] = False, '%s -> ValueError(%s)' % (EQ_PROBE, e)
        if not str(e).startswith('inconsistent specifier set'):
            _EQV['detail'] += ' [unexpected message]'
    except Exception:
        import traceback
        _EQV['v'], _EQV['detail'] = False, 'probe failed'
        if rep is not None:
            rep.fail('the variant of simplify_specifiers in the tree under test could not be determined (the probe %r raised)'
                     % EQ_PROBE, {'obligation': 'variant probe', 'traceback': traceback.format_exc()}, found_input=False)
    return _EQV['v']


def own_findings():
    try:
        return json.load(open(os.path.join(common.VERIF, 'findings.d', 'C17.json')))
    except (OSError, ValueError):
        return []


def eq_finding_status():
    """top-level status of the == finding in findings.d/C17.json ('open' until the repair has landed in /repo)"""
    for k in own_findings():
        if k.get('id') == EQ_ID:
            return k.get('status')
    return None


def model_variant(rep=None):
    """(fixed, eqv) the simplify MODEL is run with.  eqv: the repaired comparison when the tree under test has it, and also
    - whatever the tree has - once the finding is recorded as fixed: a tree that lost the repair then disagrees with the
    model in W:versions / W:reqs as well (next to the failing specifier set the oracle reports)."""
    return detect_fixed(), bool(detect_eqv(rep) or eq_finding_status() == 'fixed')


def wire_variant(fixed, eqv):
    """the variant argument of ver.simplify / req.split / req.finalize (Misc/MiscPkgTable.v un_fixed / un_eqv)"""
    return (1 if fixed else 0) + (2 if eqv else 0)


def select_findings(rep):
    """Which known findings apply to THIS run.  findings.d/C17.json is authoritative for its ids (known_findings.json is
    merged from it by the coordinator).  The == finding depends on the variant of simplify_specifiers under test:
      repaired tree              -> it counts as FIXED: not in rep.known, no KNOWN-FINDING line, a satisfiable set that is
                                    rejected is a VIOLATION (with the failing specifier set);
      unrepaired, status 'open'  -> known finding (KNOWN-FINDING line);
      unrepaired, status 'fixed' -> a regression: nothing is suppressed, the rejected set is a VIOLATION.
    Returns (repaired, top-level status)."""
    repaired = detect_eqv(rep)
    own = [k for k in own_findings() if k.get('property') == 'C17']
    ids = set(k['id'] for k in own)
    rep.known = [k for k in rep.known if k['id'] not in ids]
    for k in own:
        if k.get('status') != 'open':
            continue
        if k['id'] == EQ_ID and repaired:
            continue
        rep.known.append(k)
    return repaired, eq_finding_status()


def gen_specs(rng, rep=None, maxn=6):
    sub = rng.sample(POOL, rng.choice([1, 1, 2, 2, 3, 4]))
    n = rng.choice([0, 1, 2, 2, 3, 3, 4, 5, maxn])
    out = []
    for _ in range(n):
        o = rng.choice(OPS)
        if rep is not None:
            rep.count('op:' + o)
        out.append((o, rng.choice(sub)))
    # two / three == specifiers on one version in different spellings (what the == comparison decides), next to the rest;
    # drawn from a generator of its own (seeded from rep.seed in run()) so that the main stream - and with it every case the
    # later stages generate for a given seed - is the same with and without these additions
    rr = _RESPELL.get('rng')
    if out and rr is not None and rr.random() < 0.12:
        v = rr.choice(out)[1]
        alts = [w for w in RESPELL if canon_ver(w) == canon_ver(v) and w != v]
        for w in rr.sample(alts, min(len(alts), rr.choice([1, 1, 2]))):
            out.insert(rr.randrange(len(out) + 1), ('==', w))
        if not any(o == '==' and w == v for o, w in out) and rr.random() < 0.7:
            out.insert(rr.randrange(len(out) + 1), ('==', v))
        if rep is not None:
            rep.count('gen:respelled-==')
    return out


def spec_text(specs):
    return ','.join(o + v for o, v in specs)


def canon_specs(ss):
    return sorted([opcode(i.operator), i.version] for i in ss)


def d_spec(x):
    return [x[0], d_str(x[1])]


def d_res(f, r):
    return 'ValueError' if r[0] == 1 else f(r[1])


def d_simple(x):
    return [d_str(x[0]), d_opt(d_spec, x[1])]


def dec(name, r):
    if name in ('ver.leb', 'ver.sat'):
        return d_bool(r)
    if name == 'ver.simplify':
        return d_res(lambda l: sorted(d_spec(i) for i in l), r)
    if name == 'req.split':
        return d_res(lambda l: sorted((d_simple(i) for i in l), key=repr), r)
    if name == 'req.finalize_sets':
        return [[[d_str(q[0]), sorted(d_spec(i) for i in q[1])] for q in part] for part in r]
    if name == 'req.finalize':
        return d_res(lambda t: [[d_simple(i) for i in part] for part in t], r)
    raise KeyError(name)


_SORTED_ITER = []


def iterates_sorted():
    """Does simplify_specifiers go through the set in a stable (text-sorted) order (repair of the hash-order iteration), or
    in the set's own iteration order?  Probed: with three spellings of one version the surviving one is the first in the
    order used; six probes all agreeing with the sorted order cannot happen by chance (1/3^6)."""
    if not _SORTED_ITER:
        from bfg9000.versioning import simplify_specifiers, SpecifierSet
        ok = True
        for k in range(1, 7):
            t = '>=%d.0,>=%d.00,>=%d.000' % (k, k, k)
            ok = ok and [str(i) for i in simplify_specifiers(SpecifierSet(t))] == ['>=%d.0' % k]
        _SORTED_ITER.append(ok)
    return _SORTED_ITER[0]


def impl_simplify(text):
    from bfg9000.versioning import simplify_specifiers, SpecifierSet
    ss = SpecifierSet(text)
    order = [[opcode(i.operator), i.version] for i in (sorted(ss, key=str) if iterates_sorted() else ss)]
    try:
        return order, canon_specs(simplify_specifiers(ss))
    except ValueError:
        return order, 'ValueError'


# ----------------------------------------------------------------------------- W: versioning
CORPUS_SPECS = ['>=10,>=9', '>=1.10,>=1.9', '>=1,<=1,!=1', '==1,==1.0', '>=1,<=1.0', '>=1,<=1.0,!=1', '>1,>=1', '<1,<=1',
                '>=1,>=1.0', '', '!=3,>=1', '==2,!=2.0', '>2,<3', '>=2,<2', '<=10,<=9', '<10,<=9', '<=1.10,<1.9', '==1',
                '==1,==2', '==1,>=1', '==1,>1', '==2,<=2.0', '!=1', '!=1,!=2', '>=1,<=1', '>1,<1', '>=1,<1', '>1,<=1',
                '>=2,<=1', '>=9,<=10,!=9.5,!=11', '>=1.9,<=1.9,!=1.9.0', '>=2,<=2,!=2.0', '>=2.0,>=2', '<=2.0,<=2',
                '>2.0,>=2', '>=2.0,>2',
                # two / three == on one version in different spellings: alone, with bounds, with != (finding
                # simplify-eq-string-identity and its repair); a different version next to them is still inconsistent
                '==1.0,==1', '==1.0,>=1', '==1,==1.0,>=1,<=1.0', '==1,==1.0,==1.0.0', '==2,==2.0', '==2.0,==2,<=2', '==1,==1.0,==2',
                '==1,==1.0,!=1.0.0', '==1,==1.0,!=2', '==1,==1.0,>1', '==1,==1.0,<1.0', '==1.9,==1.9.0,>=1.9,<1.10',
                '==10,==10.0,>=9', '==1,==1.0,==2.0,==2', '==1,==1.0,>=1.0,<=1,!=1.0']


def stage_w_versions(rep, rng, n, variant):
    from bfg9000.versioning import Version, SpecifierSet
    calls, impl = [], []
    for a in PROBES:
        for b in PROBES:
            calls.append(('ver.leb', [a, b]))
            impl.append(Version(a) <= Version(b))
    texts = CORPUS_SPECS + [spec_text(gen_specs(rng, rep)) for _ in range(n)]
    for t in texts:
        order, r = impl_simplify(t)
        rep.case('s:' + t, len(order) >= 2)
        rep.count('simplify:' + ('Err' if r == 'ValueError' else 'n=%d' % len(r)))
        calls.append(('ver.simplify', [variant, order]))
        impl.append(r)
        x = rng.choice(PROBES)
        calls.append(('ver.sat', [x, order]))
        impl.append(x in SpecifierSet(t))
    for c in calls[-4:]:
        rep.sample({'stage': 'W:versions', 'call': c[0], 'arg': c[1]})
    return common.compare_model(rep, 'W:versions', calls, impl, dec)


# ----------------------------------------------------------------------------- oracle: simplify on the implementation
def classify_simplify(text, rejected=None):
    """Finding classes of a failing specifier set: predicates on the input and on the failure (`rejected`: simplify_specifiers
    raised ValueError - the finding simplify-eq-string-identity describes a REJECTION of a satisfiable set, not a wrong
    simplified set).  Whether that class is a known finding in this run depends on the tree under test (select_findings):
    on a tree that compares == specifiers by version it is not, and the failing set is reported as a VIOLATION."""
    from bfg9000.versioning import Version, SpecifierSet
    ss = list(SpecifierSet(text))
    cls = set()
    for grp in (('>=', '>'), ('<=', '<')):
        b = [i for i in ss if i.operator in grp]
        for i in b:
            for j in b:
                if (i.version < j.version) != (Version(i.version) < Version(j.version)):
                    cls.add('simplify-string-order-key')
    ge = {i.version for i in ss if i.operator == '>='}
    le = {i.version for i in ss if i.operator == '<='}
    ne = {i.version for i in ss if i.operator == '!='}
    for v in ge & le:
        if any(Version(v) == Version(w) for w in ne):
            cls.add('simplify-eq-drops-ne')
    eqs = [i.version for i in ss if i.operator == '==']
    if any(a != b and Version(a) == Version(b) for a in eqs for b in eqs) and rejected is not False:
        cls.add(EQ_CLASS)
    return tuple(sorted(cls))


def oracle_simplify_one(rep, text):
    """The property itself on the real code: the simplified set has the same members as the given one over the probe
    versions; a rejected set has no member."""
    from bfg9000.versioning import simplify_specifiers, SpecifierSet
    ss = SpecifierSet(text)
    errtext = None
    try:
        r = simplify_specifiers(ss)
    except ValueError as e:
        r, errtext = None, str(e)
    bad = None
    eqs = [i.version for i in ss if i.operator == '==']
    if any(a != b and canon_ver(a) == canon_ver(b) for a in eqs for b in eqs):
        sat = any(x in ss for x in PROBES)
        rep.count('oracle:respelled-==:%s:%s' % ('satisfiable' if sat else 'unsatisfiable', 'rejected' if r is None else 'simplified'))
    for x in PROBES:
        want = x in ss
        if r is None:
            if want:
                bad = 'specifier set %r is rejected as inconsistent but version %s satisfies it' % (text, x)
                break
        elif (x in r) != want:
            bad = 'specifier set %r is simplified to %r, which %s version %s while the given set %s it' % (
                text, str(r), 'accepts' if x in r else 'rejects', x, 'accepts' if want else 'rejects')
            break
    if bad:
        rep.fail(bad, {'kind': 'simplify', 'specifiers': text,
                       'replay_hint': "python -c \"from bfg9000.versioning import *; print(simplify_specifiers(SpecifierSet(%r)))\"" % text},
                 classes=classify_simplify(text, rejected=(r is None and (errtext or '').startswith('inconsistent specifier set'))))
        return 1
    return 0


def stage_oracle_simplify(rep, rng, n):
    bad = 0
    texts = CORPUS_SPECS + [spec_text(gen_specs(rng)) for _ in range(n)]
    for t in texts:
        rep.case('o:' + t, t.count(',') >= 1)
        bad += oracle_simplify_one(rep, t)
    rep.stage('oracle:simplify', cases=len(texts), probes=len(PROBES), failures=bad)
    return bad


# ----------------------------------------------------------------------------- W: Requirement / RequirementSet
def gen_reqs(rng, maxn=4):
    return [(rng.choice(NAMES), spec_text(gen_specs(rng, maxn=3))) for _ in range(rng.choice([0, 1, 1, 2, 3, maxn]))]


def canon_ver(v):
    """one spelling per version (drops trailing .0 components) - only used where the iteration order of a frozenset
    decides which of two spellings of one bound survives"""
    parts = v.split('.')
    while len(parts) > 1 and set(parts[-1]) == {'0'}:
        parts.pop()
    return '.'.join(parts)


def model_reqs(lst):
    from bfg9000.versioning import SpecifierSet
    return [[n, [[opcode(i.operator), i.version] for i in (sorted(SpecifierSet(t), key=str) if iterates_sorted() else SpecifierSet(t))]]
            for n, t in lst]


def canon_simple(s, canon=False):
    if s.version is None:
        return [s.name, None]
    v = s.version.version
    return [s.name, [opcode(s.version.operator), canon_ver(v) if canon else v]]


def stage_w_reqs(rep, rng, n, variant):
    from bfg9000.builtins.pkg_config import Requirement, RequirementSet

    def mk(lst):
        return RequirementSet(Requirement(nm, t) for nm, t in lst)

    def canon_set(rs):
        return [[r.name, canon_specs(r.version)] for r in rs]

    calls, impl = [], []
    for k in range(n):
        req, priv, auto, conf = gen_reqs(rng), gen_reqs(rng), gen_reqs(rng, 2), gen_reqs(rng, 2)
        rep.case('r:' + repr((req, priv, auto, conf)), len(req) + len(priv) + len(auto) >= 2)
        requires, requires_private, conflicts = mk(req), mk(priv), mk(conf)
        requires_private.update(mk(auto))
        requires.merge_from(requires_private)
        both = set(nm for nm, _ in req) & set(nm for nm, _ in priv + auto)
        rep.count('reqs:names-public-and-private=%d' % len(both))
        calls.append(('req.finalize_sets', [model_reqs(req), model_reqs(priv), model_reqs(auto)]))
        impl.append([canon_set(requires), canon_set(requires_private)])
        # split of every merged requirement, in the iteration order the implementation uses
        for rs, single in ((requires, True), (requires_private, True), (conflicts, False)):
            for r in rs:
                order = [[opcode(i.operator), i.version] for i in (sorted(r.version, key=str) if iterates_sorted() else r.version)]
                try:
                    res = sorted((canon_simple(s) for s in r.split(single)), key=repr)
                    rep.count('split:ok')
                except ValueError:
                    res = 'ValueError'
                    rep.count('split:ValueError')
                calls.append(('req.split', [variant, single, [r.name, order]]))
                impl.append(res)
        # the three lists finalize() returns (spelling of tied bounds canonicalised, see canon_ver)
        try:
            res = [sorted((canon_simple(s, True) for s in rs.split(single)), key=repr)
                   for rs, single in ((requires, True), (requires_private, True), (conflicts, False))]
        except ValueError:
            res = 'ValueError'
        calls.append(('req.finalize', [variant, model_reqs(req), model_reqs(priv), model_reqs(auto), model_reqs(conf)]))
        impl.append(res)

    def dec2(name, r):
        if name == 'req.finalize':
            def cs(x):
                s = d_simple(x)
                if s[1] is not None:
                    s[1][1] = canon_ver(s[1][1])
                return s
            return d_res(lambda t: [sorted((cs(i) for i in part), key=repr) for part in t], r)
        return dec(name, r)
    rep.sample({'stage': 'W:reqs', 'call': calls[0][0], 'arg': calls[0][1]})
    return common.compare_model(rep, 'W:reqs', calls, impl, dec2)


# ----------------------------------------------------------------------------- .pc fields
PC_CLASSES = [('plain', list('abcXYZ019_'), 30), ('okpunct', list('@%+=:,./-'), 12), ('blank', [' ', '\t'], 8),
              ('squote', ["'"], 8), ('dquote', ['"'], 4), ('dollar', ['$'], 6), ('brace', ['{', '}'], 4), ('hash', ['#'], 2),
              ('bslash', ['\\'], 5), ('sh', list('`!*?[]()<>|&;~^'), 6), ('uniw', gen.UNI_WORD, 3), ('uninw', gen.UNI_NONWORD, 2)]
ROOTS = ['prefix', 'exec_prefix', 'includedir', 'libdir', 'srcdir', 'builddir']
CORPUS_FLAGS = ['-DX=a b', "-DQ='q'", '-DS="s t"', '-DY=$z', '-DZ=$', '-DW=a\\b', "'", "''", "a'", "'a", "it's", '\\', '$$',
                '-DH=a#b', '#', '-DV=${prefix}', '${x}', '$ {x}', '-D{=}', '-pthread', '-std=c++11', 'é', '-Dα=€', '-DX=a\tb',
                '-I/opt/my inc', '-Wl,-rpath,/x y', '-', 'a\\#b', 'a\\\\#b', '\\\\', 'a\\', '-I/opt//x', '-isystem', '/q//r']


def flag_frags(thing):
    """Python flag (str / jbos / literal / Path) -> model frags."""
    from bfg9000 import safe_str, path
    thing = safe_str.safe_str(thing)
    if isinstance(thing, str):
        return [[0, thing]]
    if isinstance(thing, safe_str.literal_types):
        return [[1, thing.string]]
    if isinstance(thing, safe_str.jbos):
        return [f for b in thing.bits for f in flag_frags(b)]
    if isinstance(thing, path.BasePath):
        if thing.root == path.Root.absolute:
            return [[2, [], thing.suffix]]
        return [[2, [thing.root.name], thing.suffix]]
    raise TypeError(type(thing))


def gen_component(rng, rep):
    while True:
        s = gen.arg_string(rng, rep, maxlen=6, classes=PC_CLASSES, allow_empty=False).replace('/', '_')
        if s not in ('.', '..'):
            return s


def gen_flag(rng, rep=None):
    """A flag as bfg9000 would hold it: a plain option string, or -I/-L + a Path under an install root / srcdir /
    builddir / absolute."""
    from bfg9000.path import Path, Root, InstallRoot
    k = rng.random()
    if k < 0.55:
        s = gen.arg_string(rng, rep, maxlen=8, classes=PC_CLASSES, allow_empty=False)
        return rng.choice(['-D', '-DX=', '', '-W', '-l']) + s
    root = rng.choice(ROOTS + ['absolute'])
    while True:
        comps = [gen_component(rng, rep) for _ in range(rng.choice([0, 1, 1, 2]))]
        try:        # Path() normalises (drive letters, ~, ..); whatever suffix it keeps is what the model is given
            if root == 'absolute':
                p = Path('/' + '/'.join(['opt'] + comps), Root.absolute)
            elif root in ('srcdir', 'builddir'):
                p = Path('/'.join(comps), Root[root])
            else:
                p = Path('/'.join(comps), InstallRoot[root])
            break
        except ValueError:
            continue
    if rep is not None:
        rep.count('flag:path-' + ('absolute' if root == 'absolute' else 'rooted'))
    return rng.choice(['-I', '-L']) + p


def impl_field(name, value, shell=True, delim=None):
    from io import StringIO
    from bfg9000.shell.syntax import Syntax, Writer
    from bfg9000.builtins.pkg_config import PkgConfigWriter
    from bfg9000.safe_str import literal
    s = StringIO()
    out = Writer(s, localize_paths=False)
    kw = {} if delim is None else {'delim': literal(delim)}
    PkgConfigWriter._write_field(None, out, name, value, Syntax.shell if shell else Syntax.variable, **kw)
    return s.getvalue()


def impl_variable(name, value):
    from io import StringIO
    from bfg9000.shell.syntax import Writer
    from bfg9000.builtins.pkg_config import PkgConfigWriter
    s = StringIO()
    PkgConfigWriter._write_variable(None, Writer(s, localize_paths=False), name, value)
    return s.getvalue()


def gen_flag_list(rng, rep=None):
    fl, seen = [], set()
    for _ in range(rng.choice([0, 1, 1, 2, 3, 4])):
        f = gen_flag(rng, rep)
        key = json.dumps(flag_frags(f))
        if key not in seen:          # pkgconf merges repeated fragments; keep every flag distinct
            seen.add(key)
            fl.append(f)
    return fl


def stage_w_pc(rep, rng, n):
    from bfg9000.builtins.pkg_config import SimpleRequirement
    from bfg9000.path import Path, Root, InstallRoot
    uw, _ = gen.uni_tables()
    calls, impl = [], []
    lists = [[f] for f in CORPUS_FLAGS] + [gen_flag_list(rng, rep) for _ in range(n)]
    for fl in lists:
        frags = [flag_frags(f) for f in fl]
        rep.case('f:' + json.dumps(frags), any(nontrivial_frags(fr) for fr in frags))
        name = rng.choice(['Cflags', 'Libs', 'Libs.private'])
        calls.append(('pc.write_field', [uw, True, ' ', name, frags]))
        impl.append(impl_field(name, fl))
    # variables as _write does: install dirs relative to the prefix or absolute, srcdir, the relocatable builddir
    for _ in range(n // 4):
        while True:
            comps = [gen_component(rng, None) for _ in range(rng.choice([0, 1, 2]))]
            try:
                if rng.random() < 0.5:
                    p = Path('/' + '/'.join(['usr'] + comps), Root.absolute)
                else:
                    p = Path('/'.join(comps), InstallRoot[rng.choice(['prefix', 'exec_prefix'])])
                break
            except ValueError:
                continue
        nm = rng.choice(['prefix', 'includedir', 'libdir', 'srcdir'])
        calls.append(('pc.write_variable', [uw, False, ' ', nm, [flag_frags(p)]]))
        impl.append(impl_variable(nm, p))
    bd = Path('.').relpath(Path('pkgconfig'), prefix='${pcfiledir}', localize=False)
    calls.append(('pc.write_variable', [uw, False, ' ', 'builddir', [[[0, '${pcfiledir}/..']]]]))
    impl.append(impl_variable('builddir', bd))
    # the -uninstalled variables section for a .pc directory 0..3 levels below the build directory: the builddir value is the
    # real relpath(prefix='${pcfiledir}'); model Misc/PcFile.v uninstalled_vars (C17_uninstalled_relocatable)
    for depth, pcd in enumerate(['.', 'pkgconfig', 'lib/pkgconfig', 'a b/c/pkgconfig']):
        sd = Path('/src/pro ject', Root.absolute)
        calls.append(('pc.variables', [uw, False, [], sd.suffix, depth]))
        impl.append(impl_variable('srcdir', sd) + impl_variable('builddir', Path('.').relpath(
            Path(pcd), prefix='${pcfiledir}', localize=False)))
    # plain-text fields (variable syntax) and requirement fields
    for _ in range(n // 4):
        s = gen.arg_string(rng, None, maxlen=8, classes=PC_CLASSES)
        nm = rng.choice(['Name', 'Description', 'URL', 'Version'])
        calls.append(('pc.write_field', [uw, False, ' ', nm, [[[0, s]]] if s else []]))
        impl.append(impl_field(nm, s, shell=False))
        simples = []
        for _ in range(rng.choice([0, 1, 2, 3])):
            if rng.random() < 0.3:
                simples.append((rng.choice(NAMES), None))
            else:
                simples.append((rng.choice(NAMES), (rng.choice(OPS), rng.choice(POOL))))
        objs = [SimpleRequirement(nm2, None if sp is None else sp[0] + sp[1]) for nm2, sp in simples]
        fld = rng.choice(['Requires', 'Requires.private', 'Conflicts'])
        calls.append(('pc.write_requires', [fld, [[nm2, None if sp is None else [[opcode(sp[0]), sp[1]]]] for nm2, sp in simples]]))
        impl.append(impl_field(fld, objs, delim=', '))
    rep.sample({'stage': 'W:pc', 'call': calls[len(CORPUS_FLAGS)][0], 'arg': calls[len(CORPUS_FLAGS)][1],
                'impl': impl[len(CORPUS_FLAGS)]})
    return common.compare_model(rep, 'W:pc', calls, impl, lambda name, r: d_str(r))


def nontrivial_frags(frags):
    return any(not (c.isalnum() and c.isascii() or c in '_./=-') for f in frags for c in f[-1])


# ----------------------------------------------------------------------------- real pkgconf
PC_VARS = [('prefix', '/opt/my prefix'), ('exec_prefix', '/opt/my prefix'), ('includedir', '/opt/my prefix/include'),
           ('libdir', '/opt/my prefix/lib'), ('srcdir', '/src/pro ject')]
PC_HEADER = ('prefix=/opt/my prefix\nexec_prefix=${prefix}\nincludedir=${prefix}/include\nlibdir=${exec_prefix}/lib\n'
             'srcdir=/src/pro ject\nbuilddir=${pcfiledir}/..\n\nName: t\nDescription: t\nVersion: 1.0\n')


def pkgconf(d, name, *args):
    env = {'PATH': '/usr/bin:/bin', 'PKG_CONFIG_PATH': d, 'PKG_CONFIG_LIBDIR': d, 'PKG_CONFIG_ALLOW_SYSTEM_CFLAGS': '1',
           'PKG_CONFIG_ALLOW_SYSTEM_LIBS': '1', 'LC_ALL': 'C.UTF-8'}
    p = subprocess.run(['/usr/bin/pkg-config'] + list(args) + [name], capture_output=True, env=env, timeout=30)
    return p.returncode, p.stdout, p.stderr.decode('utf-8', 'replace')


def parse_pkgconf_output(b):
    """pkgconf prints fragments separated by blanks with a backslash before every character outside its safe set."""
    args, cur, inw, i = [], bytearray(), False, 0
    while i < len(b):
        c = b[i]
        if c == 0x5c and i + 1 < len(b):
            cur.append(b[i + 1])
            inw = True
            i += 2
            continue
        if c in b' \t\n\r':
            if inw:
                args.append(bytes(cur))
                cur, inw = bytearray(), False
        else:
            cur.append(c)
            inw = True
        i += 1
    if inw:
        args.append(bytes(cur))
    return [a.decode('utf-8', 'surrogateescape') for a in args]


UNMERGEABLE = ['-framework', '-isystem', '-idirafter', '-pthread', '-Wa,', '-Wl,', '-Wp,', '-trigraphs', '-pedantic', '-ansi',
               '-std=', '-stdlib=', '-include', '-nostdinc', '-nostdlibinc', '-nobuiltininc']


def canon_args(args):
    """What pkgconf's fragment list makes observable of an argument list: data of a typed fragment -Xdata and of a word
    appended to an untyped fragment has runs of slashes collapsed when it starts with a slash (same path); a run of two
    or more untyped words is printed as ONE fragment with unescaped blanks, so blanks inside those words are lost."""
    import re

    def untyped(a):
        return len(a) <= 1 or not a.startswith('-') or a.startswith('-lib:') or any(a.startswith(p) for p in UNMERGEABLE)

    def collapse(s):
        return re.sub('/+', '/', s) if s.startswith('/') else s
    groups = []
    for a in args:
        if not untyped(a):
            groups.append((False, [a[:2] + collapse(a[2:])]))
        elif groups and groups[-1][0]:
            groups[-1][1].append(collapse(a))
        else:
            groups.append((True, [a]))
    out = []
    for u, g in groups:
        if u and len(g) > 1:
            out.extend(w for a in g for w in a.split(' ') if w)
        else:
            out.extend(g)
    return out


def pc_vars(d):
    return [list(v) for v in PC_VARS] + [['builddir', os.path.join(d, 'pkgconfig') + '/..'],
                                         ['pcfiledir', os.path.join(d, 'pkgconfig')]]


def denote(fl, vars_):
    """Python-side meaning of a flag list, independent of the model."""
    vd = dict((k, v) for k, v in vars_)
    out = []
    for f in fl:
        s = ''
        for fr in flag_frags(f):
            if fr[0] == 2 and fr[1]:
                s += vd[fr[1][0]] + ('/' + fr[2] if fr[2] else '')
            else:
                s += fr[-1]
        out.append(s)
    return out


def classify_flags(fl, real=None, predicted=None):
    """Finding classes of a flag list that pkg-config does not read back as declared: a '#' / a '${' in the text of a flag
    (predicate on the input) AND the list pkg-config read (`real`) is the one the two findings predict (`predicted`: the
    reference reader Misc/PcFile.v - validated against pkgconf in the same stage, comments and variable substitution inside
    quotes included - applied to the text the reference WRITER produces for these flags). Anything else read from a list of
    this shape is a different violation."""
    cls = set()
    for f in fl:
        for fr in flag_frags(f):
            if '#' in fr[-1]:
                cls.add('pc-option-hash')
            if '${' in fr[-1]:
                cls.add('pc-option-dollar-brace')
    if real != predicted:
        return ()
    return tuple(sorted(cls))


def predicted_reads(lists, vars_):
    """for each flag list: what pkg-config reads from the Cflags field the reference writer produces (both by the model)"""
    if not lists:
        return []
    uw, _ = gen.uni_tables()
    texts = [d_str(r) for r in common.model_batch([('pc.write_field', [uw, True, ' ', 'Cflags', [flag_frags(f) for f in fl]])
                                                   for fl in lists])]
    raw = common.model_batch([('pc.field', [vars_, t[len('Cflags: '):-1]]) for t in texts])
    out = []
    for r in raw:
        mv = d_opt(lambda x: d_list(d_str, x), r)
        out.append(canon_args(mv if mv is not None else []))
    return out


def flags_in_domain(fl):
    for f in fl:
        frs = flag_frags(f)
        if ''.join(fr[-1] for fr in frs) == '' and not any(fr[0] == 2 for fr in frs):
            return False        # an empty option: pkgconf drops empty arguments (outside the domain, stated in the manifest)
        if any(c in fr[-1] for fr in frs for c in '\n\r\0'):
            return False
        text = ''.join(fr[-1] for fr in frs)
        if frs and frs[0][0] != 2 and len(text) >= 2 and text[0] == '-' and text[1] in ' \t':
            return False        # '-' followed by a blank: pkgconf takes the blank for the fragment's type letter and prints '-' alone
    return True


def stage_pkgconf(rep, rng, n, seen_disagreement=False):
    """R-validation of the reader model and the direct check of the property on the implementation, on the same runs:
    real Writer text -> real pkg-config --cflags -> arguments; compared with (a) the reader model on the same text and
    (b) the declared flags."""
    d = common.scratch('c17pc')
    bad_r = bad_o = 0
    try:
        pcdir = os.path.join(d, 'pkgconfig')
        os.makedirs(pcdir)
        vars_ = pc_vars(d)
        lists = [[f] for f in CORPUS_FLAGS] + [gen_flag_list(rng, rep) for _ in range(n)]
        lists = [fl for fl in lists if fl and flags_in_domain(fl)]
        # pkgconf merges repeated fragments (a second -I/-L of the same directory is dropped, of other typed fragments the
        # earlier one; fragment.c pkgconf_fragment_copy): a list in which two flags DENOTE the same argument says nothing
        # more than the list without the repetition, and the reader model does not describe the merging - such lists are
        # left out (counted), they are not a disagreement
        nodup = []
        for fl in lists:
            dn = canon_args(denote(fl, vars_))
            if len(set(dn)) != len(dn):
                rep.count('pkgconf:list_with_repeated_flag_left_out')
            else:
                nodup.append(fl)
        lists = nodup
        texts = []
        for k, fl in enumerate(lists):
            field = impl_field('Cflags', fl)
            texts.append(field)
            with open(os.path.join(pcdir, 'p%d.pc' % k), 'w', encoding='utf-8', errors='surrogateescape') as f:
                f.write(PC_HEADER + field)
        calls = [('pc.field', [vars_, t[len('Cflags: '):-1]]) for t in texts]
        raw = common.model_batch(calls)
        failing = []
        for k, (fl, t, r) in enumerate(zip(lists, texts, raw)):
            rc, out, err = pkgconf(pcdir, 'p%d' % k, '--cflags')
            real = parse_pkgconf_output(out) if rc == 0 else None
            mv = d_opt(lambda x: d_list(d_str, x), r)
            if mv is None:
                mv = []        # a field whose argv split fails (unbalanced quote) yields no fragments, exit status 0
            mv = canon_args(mv)
            want = canon_args(denote(fl, vars_))
            if real is not None:
                real = canon_args(real)
            rep.case('p:' + t, nontrivial_frags([fr for f in fl for fr in flag_frags(f)]))
            rep.count('pkgconf:' + ('error' if real is None else 'ok'))
            if mv != real:
                bad_r += 1
                rep.fail('R:pc_field - the reader model and pkgconf disagree on %r: model %r, pkgconf %r %s' % (t, mv, real, err[:200]),
                         {'obligation': 'R:pc_field', 'field': t, 'model': mv, 'pkgconf': real}, found_input=False)
            if real != want:
                failing.append((fl, t, real, want))
        for (fl, t, real, want), pred in zip(failing, predicted_reads([x[0] for x in failing], vars_)):
            bad_o += 1
            rep.fail('pkg_config flags %r are written as %r and read by pkg-config as %r' % (want, t, real),
                     {'kind': 'flags', 'frags': [flag_frags(f) for f in fl], 'written': t, 'read': real, 'declared': want},
                     classes=classify_flags(fl, real, pred))
        rep.traces += len(lists)
        rep.stage('R:pkgconf+oracle:flags', files=len(lists), reader_model_disagreements=bad_r, flag_failures=bad_o)
    finally:
        shutil.rmtree(d, ignore_errors=True)
    return bad_o


def stage_pkgconf_requires(rep, rng, n):
    """Real pkg-config on written Requires fields: --print-requires echoes the entries, and --exists accepts exactly the
    versions the specifier accepts (canonically spelled versions: pkgconf orders 1.0 after 1)."""
    from bfg9000.builtins.pkg_config import SimpleRequirement
    from bfg9000.versioning import Specifier
    d = common.scratch('c17rq')
    bad = 0
    try:
        pool = [v for v in POOL + ['1.5', '9.5', '11', '0.1'] if canon_ver(v) == v]
        for k in range(n):
            o, v, x = rng.choice(OPS), rng.choice(pool), rng.choice(pool)
            with open(os.path.join(d, 'foo.pc'), 'w') as f:
                f.write('Name: foo\nDescription: d\nVersion: %s\n' % x)
            field = impl_field('Requires', [SimpleRequirement('foo', o + v), SimpleRequirement('foo')], delim=', ')
            with open(os.path.join(d, 'consumer.pc'), 'w') as f:
                f.write('Name: c\nDescription: d\nVersion: 1\n' + field)
            rc, out, err = pkgconf(d, 'consumer', '--print-requires')
            lines = out.decode().split('\n')[:-1]
            want_lines = ['foo %s %s' % ('=' if o == '==' else o, v), 'foo']
            rc2, _, _ = pkgconf(d, 'consumer', '--exists')
            want = x in Specifier(o + v)
            rep.case('q:%s%s@%s' % (o, v, x), True)
            if (want and lines != want_lines) or (rc2 == 0) != want or (rc == 0) != want:
                bad += 1
                rep.fail('requirement foo%s%s written as %r: pkg-config prints %r and %s version %s (specifier %s it)' % (
                    o, v, field, lines, 'accepts' if rc2 == 0 else 'rejects', x, 'accepts' if want else 'rejects'),
                    {'kind': 'requires', 'op': o, 'version': v, 'candidate': x, 'written': field}, classes=())
        rep.stage('R:pkgconf-requires', runs=n, failures=bad)
    finally:
        shutil.rmtree(d, ignore_errors=True)
    return bad


def load_corpus():
    """corpus/C17/*.json: corner cases (past disagreements, finding witnesses) that run first in every stage."""
    import glob
    for f in sorted(glob.glob(os.path.join(common.VERIF, 'corpus', 'C17', '*.json'))):
        c = json.load(open(f))
        for s in c.get('specifiers', []):
            if s not in CORPUS_SPECS:
                CORPUS_SPECS.append(s)
        for s in c.get('flags', []):
            if s not in CORPUS_FLAGS:
                CORPUS_FLAGS.append(s)


def run(rep):
    rng = random.Random(rep.seed)
    _RESPELL['rng'] = random.Random('%s-c17-respell' % rep.seed)
    thorough = rep.tier == 'thorough'
    repaired, status = select_findings(rep)
    load_corpus()
    rep.proof_stage(coqchk=thorough)
    fixed, eqv = model_variant(rep)
    rep.stage('variant', simplify_model='fixed=true (sort key compares versions)' if fixed else 'fixed=false (string sort key)',
              eq_comparison_under_test='by version (repaired)' if repaired else 'as Specifier objects, by spelling (as first written)',
              eq_probe=_EQV.get('detail', 'forced'),
              eq_model='eqv=true' if eqv else 'eqv=false',
              eq_finding=('not applicable to this tree (counts as fixed; a rejected satisfiable set is a VIOLATION)' if repaired
                          else 'known finding (open)' if status == 'open'
                          else 'recorded as %s: the unrepaired comparison is a regression, nothing is suppressed' % status))
    variant = wire_variant(fixed, eqv)
    n = 6000 if thorough else 700
    dis = stage_w_versions(rep, rng, n, variant)
    dis += stage_w_reqs(rep, rng, n // 4, variant)
    found = stage_oracle_simplify(rep, rng, n * (10 if dis else 2))
    dis_pc = stage_w_pc(rep, rng, n)
    found_pc = stage_pkgconf(rep, rng, (2500 if thorough else 250) * (10 if dis_pc else 1))
    found_pc += stage_pkgconf_requires(rep, rng, 400 if thorough else 40)
    # the pkg_config() builtin end to end: field logic against Misc/PcInfo.v, then the system-level oracle
    from . import c17sys
    rng_sys = random.Random('%s-c17sys' % rep.seed)
    dis_pi = c17sys.stage_w_pcinfo(rep, rng_sys, 120 if thorough else 30)
    found_sys = c17sys.stage_system(rep, rng_sys, thorough)
    if dis_pi and not rep.n_with_input:
        found_sys = c17sys.stage_system(rep, rng_sys, thorough, widen=4)
    for d_, f_ in ((dis, found), (dis_pc, found_pc), (dis_pi, found_sys)):
        if d_ and not f_:
            i, call, iv, mv = d_[0]
            rep.fail('W:%s - model and implementation disagree (%d cases), e.g. %r: impl %r, model %r' % (
                call[0], len(d_), call[1], iv, mv),
                {'obligation': 'W:' + call[0], 'call': call, 'impl': iv, 'model': mv, 'n_disagreements': len(d_)},
                found_input=False)


def replay(rep, path):
    r = json.load(open(path))
    print(json.dumps(r, indent=1)[:2000])
    select_findings(rep)
    if r.get('kind') == 'simplify':
        oracle_simplify_one(rep, r['specifiers'])
        return
    if r.get('kind') == 'system':
        from . import c17sys
        c17sys.replay_system(rep, r)
        return
    run(rep)
