"""C17 - the pkg_config() builtin end to end: generated projects declaring several packages.

Two stages share one scenario generator:
  stage_w_pcinfo   the real builtins run in this process (project, header_directory, static/shared_library, install,
                   pkg_config, the post-execute hook finalize_pkg_config, PkgConfigInfo.finalize, PkgConfigWriter) against
                   the model Misc/PcInfo.v (fields after auto_fill, finalize data, the Cflags/Libs/Libs.private text of both
                   written forms, install.explicit) and Misc/PcFile.v (the variables section of both written forms)
  stage_system     real `bfg9000 configure-into`, then the real pkg-config on BUILD/pkgconfig (installed and -uninstalled
                   form); what it prints must denote exactly what the generator declared (reference semantics computed here
                   from the scenario alone); one project per quick run (thorough: every fourth): real make and a consumer
                   main.c compiled, linked and run; then the history "the build directory is renamed to a sibling path, no
                   regeneration": both forms are queried again at the new place (moved_history) and the consumer is built
                   again against the moved tree
"""
import json
import os
import random
import re
import shutil
import subprocess

from . import common, gen, project

# ----------------------------------------------------------------------------- scenario generator
HDR_DIRS_SPECIAL = ['include', 'inc 2', "in'c3", 'api/v$1', 'hdr-x']
HDR_DIRS_SAFE = ['include', 'inc2', 'api/v1', 'hdr-x']
LIB_NAMES = ['core', 'util', 'foo', 'sub/bar', 'my-lib', 'x.y', 'deep/er/baz']
# library names with inner dots and infixes that look like the extensions of library files (the -l name a .pc file
# carries is read back off the FILE name lib<name>.so / lib<name>.a, so the name must survive that); each with the
# shorter name a careless reading of the file name would give (such a sibling is put next to it in some projects)
LIB_NAMES_DOTTED = [('codec.amd64', 'codec'), ('hello.api', 'hello'), ('q.a', 'q'), ('w.so', 'w'), ('v.so.1', 'v'),
                    ('u.lib', 'u'), ('t.dll', 't'), ('sub/x.arm', 'sub/x'), ('r.a.b', 'r'), ('s.so.a', 's.so'),
                    ('p.a.so', 'p'), ('deep/er/n.dylib.a2', 'deep/er/n'), ('liba', 'a'), ('m..a', 'm.'), ('k.so.', 'k')]
OPTIONS = ['-DX=a b', "-DQ='q'", '-DY=$z', '-DS="s t"', '-DP=a\\b', '-DZ=$$', '-DN=1', '-DV=a;b', '-DT=`t`', '-DU=é',
           '-DA=(1)', '-DB=a&b', '-DC=x|y', '-DE=*', '-DF=~', '-Wall', '-DG=a  b', "-DH=it's", '-DI=$(x)', '-DJ={k}']
OPTIONS_FINDING = ['-DK=a#b', '-DL=${prefix}']
LINK_OPTIONS = ['-pthread', '-Wl,--as-needed', '-Wl,-O1', '-Wl,-z,now', '-Wl,-z,relro', '-Wl,--no-undefined-version']
FWD_LINK_OPTIONS = ['-pthread', '-Wl,--as-needed', '-Wl,-O1', '-Wl,--hash-style=gnu']
PKG_NAMES = ['pk%d', 'my-pkg%d', 'pkg+x%d', 'a.b%d', 'P_k%d']
VERSIONS = [None, None, '1.2', '3', '1.0.1', '']
STUBS = {'zed': '1.4', 'ogg': '2'}
STUB_FLAGS = {'zed': ('-DZED', '-lzedx'), 'ogg': ('-DOGG', '-loggx')}
VPOOL = ['0.5', '0.9', '1', '1.2', '1.4', '1.10', '2', '3', '10']
PROBES = ['0', '0.1', '0.5', '0.7', '0.9', '0.95', '1', '1.1', '1.2', '1.3', '1.4', '1.5', '1.9', '1.10', '1.11', '2', '2.5',
          '3', '4', '10', '11']


def _ver():
    from bfg9000.versioning import Version
    return Version


def spec_accepts(specs, v):
    """conjunction of 'op version' texts on version v (verspec, independent of simplify_specifiers)"""
    from bfg9000.versioning import SpecifierSet
    return all(v in SpecifierSet(s) for s in specs if s)


def gen_specs_for(rng, tv, want):
    """specifier texts (each possibly a comma list) about a target of version tv.
    want: 'sat' (accepts tv, one specifier after simplification), 'unsat-target' (consistent, rejects tv)."""
    V = _ver()
    lo = [v for v in VPOOL if V(v) < V(tv)]
    hi = [v for v in VPOOL if V(v) > V(tv)]
    fams = []
    if want == 'sat':
        fams.append([''])
        if lo:
            a, b = rng.choice(lo), rng.choice(lo)
            fams += [['>=' + a], ['>' + a], ['>=' + a, '>=' + b], ['>' + a, '>=' + a], ['>=' + a, '>' + b],
                     ['!=' + a]]
        if hi:
            a, b = rng.choice(hi), rng.choice(hi)
            fams += [['<=' + a], ['<' + a], ['<' + a, '<=' + a], ['<=' + a, '<' + b], ['<=' + a, '<=' + b], ['!=' + a]]
        if tv in VPOOL:
            fams += [['==' + tv], ['>=' + tv, '<=' + tv], ['>=' + tv], ['<=' + tv], ['==' + tv, '>=' + tv]]
            if lo:
                fams.append(['==' + tv, '!=' + rng.choice(lo)])
    else:
        if hi:
            a = rng.choice(hi)
            fams += [['>=' + a], ['>' + a], ['==' + a], ['>' + a, '>=' + a]]
        if lo:
            a = rng.choice(lo)
            fams += [['<=' + a], ['<' + a], ['==' + a], ['<' + a, '<=' + a]]
        if tv in VPOOL:
            fams += [['!=' + tv], ['>' + tv], ['<' + tv]]
    return rng.choice(fams)


# (shared, static): --enable/--disable-shared/static; decides what library() without a kind creates
LIB_MODES = [(True, False), (True, True), (False, True)]


def eff_kind(mode, kind):
    """what a library of the script is: 'static', 'shared' or 'dual' (both, one object)"""
    if kind == 'default':
        sh, st = mode
        return 'dual' if sh and st else ('shared' if sh else 'static')
    return kind


def lib_eff(sc, i):
    return eff_kind(tuple(sc.get('mode', (True, False))), sc['libs'][i]['kind'])


def forwards(sc, i):
    """the library hands its own libraries and link options on to whoever links it (it has a static form)"""
    return lib_eff(sc, i) in ('static', 'dual')


def gen_scenario(rng, combos, buildable=False, with_requires=True, findings=False, rep=None, mode=(True, False)):
    """combos: list of (auto, libs_mode, incs_mode) with modes 'none' / 'empty' / 'some' - one package each.
    mode: the library mode the project is configured with."""
    mode = tuple(mode)
    hdr_dirs = list(HDR_DIRS_SAFE if buildable else HDR_DIRS_SPECIAL)
    rng.shuffle(hdr_dirs)
    hdrs = []
    for i in range(rng.choice([2, 3, 3, 4])):
        if i == 1 or rng.random() < 0.2:
            hdrs.append({'id': i, 'kind': 'file', 'path': 'single%d/one%d.h' % (i, i)})
        else:
            hdrs.append({'id': i, 'kind': 'dir', 'path': hdr_dirs[i % len(hdr_dirs)] + ('' if i < len(hdr_dirs) else str(i))})
    names = list(LIB_NAMES)
    rng.shuffle(names)
    nlibs = rng.choice([3, 4, 5])
    # one or two of the libraries carry a name with an extension-like infix; half of the time the shorter sibling exists too
    dotted = rng.sample(LIB_NAMES_DOTTED, rng.choice([1, 1, 2]))
    special = []
    for full, short in dotted:
        special.append(full)
        if rng.random() < 0.5 and short not in special:
            special.append(short)
    special = special[:nlibs]
    slots = rng.sample(range(nlibs), len(special))
    names = [n for n in names if n not in special]
    for slot, nm in sorted(zip(slots, special)):
        names.insert(slot, nm)
    if rep is not None:
        for nm in special:
            rep.count('sys:lib-name:' + ('extension-like infix' if any(nm == f for f, _ in LIB_NAMES_DOTTED) else 'its short sibling'))
    libs = []
    for i in range(nlibs):
        # every way of making a library: static_library(), shared_library(), library(kind='dual'), library() (kind by mode)
        if i < 2 or rng.random() < 0.65:
            kind = rng.choice(['static', 'static', 'dual', 'dual', 'default'])
        else:
            kind = rng.choice(['shared', 'shared', 'default', 'dual'])
        fw = eff_kind(mode, kind) in ('static', 'dual')
        deps = []
        if i and (fw or not buildable):
            deps = sorted(rng.sample(range(i), rng.choice([0, 1, 1, 2]) if i > 1 else rng.choice([0, 1])))
        lo = rng.sample(FWD_LINK_OPTIONS, rng.choice([0, 0, 1, 2])) if fw else []
        libs.append({'id': i, 'name': names[i], 'kind': kind, 'deps': deps, 'lopts': lo})
        if rep is not None:
            rep.count('sys:lib:%s(%s)%s' % (kind, eff_kind(mode, kind), ',deps' if deps else ''))
    sc = {'pname': rng.choice(['proj', 'my-proj']), 'pversion': rng.choice([None, '1.2', '3']), 'hdrs': hdrs, 'libs': libs,
          'buildable': buildable, 'actions': [], 'mode': list(mode)}
    pkgs = []
    opt_pool = list(OPTIONS)
    rng.shuffle(opt_pool)
    used_default_name = False
    for k, (auto, lmode, imode) in enumerate(combos):
        def pick(mode, n):
            if mode == 'none':
                return None
            if mode == 'empty':
                return []
            ids = rng.sample(range(n), rng.randint(1, min(3, n)))
            if rng.random() < 0.15:
                ids.append(ids[0])           # a repeated item: uniques()
            return ids
        p = {'auto': auto, 'includes': pick(imode, len(hdrs)), 'libs': pick(lmode, len(libs)),
             'libs_private': rng.choice([None, None, [], pick('some', len(libs))]),
             'options': [opt_pool.pop() for _ in range(rng.choice([0, 1, 2, 3])) if opt_pool],
             'lopts': rng.sample(LINK_OPTIONS, rng.choice([0, 0, 1, 2])),
             'lopts_private': rng.sample(LINK_OPTIONS, rng.choice([0, 0, 1])),
             'version': rng.choice(VERSIONS), 'requires': None, 'requires_private': None, 'conflicts': None}
        if findings and rng.random() < 0.3:
            p['options'].append(rng.choice(OPTIONS_FINDING))
        if auto and not used_default_name and rng.random() < 0.3:
            p['name'] = None
            used_default_name = True
        else:
            p['name'] = rng.choice(PKG_NAMES) % k
        pkgs.append(p)
    # requirements: on the stub packages and on earlier packages of the project
    if with_requires:
        for k, p in enumerate(pkgs):
            targets = list(STUBS)
            for j in range(k):
                q = pkgs[j]
                if q['name'] is not None and (p['auto'] or not q['auto']):
                    targets.append(q['name'])
            pub, priv = [], []
            for t in rng.sample(targets, min(len(targets), rng.choice([0, 1, 1, 2, 3]))):
                tv = STUBS.get(t) or ref_version(sc, [q for q in pkgs if q['name'] == t][0])
                want = 'unsat-target' if (p['auto'] and rng.random() < 0.2) else 'sat'
                specs = gen_specs_for(rng, tv, want)
                if rep is not None:
                    rep.count('sys:req-' + want)
                where = rng.choice(['pub', 'priv', 'both'])
                for s in specs:
                    w = where if where != 'both' else rng.choice(['pub', 'priv'])
                    (pub if w == 'pub' else priv).append((t, s))
                if where == 'both' and len(specs) == 1:
                    priv.append((t, ''))
            if pub or rng.random() < 0.2:
                p['requires'] = pub
            if priv or rng.random() < 0.2:
                p['requires_private'] = priv
            if rng.random() < 0.3:
                p['conflicts'] = [('nemesis', rng.choice(['', '>=1', '<2', '>=1,<2']))] + \
                    ([('zed', '>5')] if rng.random() < 0.5 else [])
    # install() calls interleaved with the pkg_config() calls
    acts = [('pkg', p) for p in pkgs]
    for _ in range(rng.choice([1, 2, 2, 3])):
        items = [('h', h['id']) for h in hdrs if rng.random() < 0.45] + [('l', l['id']) for l in libs if rng.random() < 0.45]
        if rng.random() < 0.5:
            items.append(('x', 0))
        rng.shuffle(items)
        if items:
            acts.insert(rng.randint(0, len(acts)), ('install', items))
    sc['actions'] = acts
    return sc


def pkgs_of(sc):
    return [a[1] for a in sc['actions'] if a[0] == 'pkg']


def lib_files(sc, l):
    """[(file, variant)] the library is built as; variant 1: archive, 0: shared object"""
    d, b = os.path.split(l['name'])
    k = lib_eff(sc, l['id'])
    return [(os.path.join(d, 'lib' + b + ext), v) for ext, v, ks in (('.so', 0, ('shared', 'dual')), ('.a', 1, ('static', 'dual')))
            if k in ks]


def obj_id(sc, i):
    """Object identifiers (model and tie): 3 * library + 0 shared library file, + 1 static library file, + 2 the dual-use
    object library(kind='dual') returns (its halves are 3i and 3i + 1).  What the script calls l<i>:"""
    return 3 * i + {'shared': 0, 'static': 1, 'dual': 2}[lib_eff(sc, i)]


def static_pref(sc, j):
    """the form of library j that a static library (or the static half of a dual-use one) records as its dependency"""
    return 3 * j + (0 if lib_eff(sc, j) == 'shared' else 1)


def hdr_macro(h):
    return 'HDR_%d' % h['id']


def files_of(sc):
    files = {'build.bfg': bfg_text(sc), 'tool.c': 'int main(void) { return 0; }\n'}
    for h in sc['hdrs']:
        body = '#define %s %d\n' % (hdr_macro(h), h['id'] + 1)
        if h['kind'] == 'file':
            files[h['path']] = body
        else:
            files[os.path.join(h['path'], 'h%d.h' % h['id'])] = body
    for l in sc['libs']:
        decl = ''.join('int f_%d(void);\n' % d for d in l['deps'])
        expr = ' + '.join(['%d' % (l['id'] + 1)] + ['100 * f_%d()' % d for d in l['deps'][:1]])
        files['src_%d.c' % l['id']] = decl + 'int f_%d(void) { return %s; }\n' % (l['id'], expr)
    return files


def lib_value(sc, i):
    l = sc['libs'][i]
    return (i + 1) + (100 * lib_value(sc, l['deps'][0]) if l['deps'] else 0)


def bfg_text(sc):
    out = ['project(%r%s)' % (sc['pname'], '' if sc['pversion'] is None else ', version=%r' % sc['pversion'])]
    for h in sc['hdrs']:
        if h['kind'] == 'file':
            out.append('h%d = header_file(%r)' % (h['id'], h['path']))
        else:
            out.append("h%d = header_directory(%r, include='*.h')" % (h['id'], h['path']))
    for l in sc['libs']:
        kw = ''
        if l['deps']:
            kw += ', libs=[%s]' % ', '.join('l%d' % d for d in l['deps'])
        if l['lopts']:
            kw += ', link_options=%r' % l['lopts']
        fn, extra = {'static': ('static_library', ''), 'shared': ('shared_library', ''), 'dual': ('library', ", kind='dual'"),
                     'default': ('library', '')}[l['kind']]
        out.append('l%d = %s(%r, %r%s%s)' % (l['id'], fn, l['name'], 'src_%d.c' % l['id'], kw, extra))
    out.append("x0 = executable('tool', 'tool.c')")

    def objs(pre, ids):
        return '[%s]' % ', '.join('%s%d' % (pre, i) for i in ids)

    def reqs(lst):
        return '[%s]' % ', '.join(repr(n) if not s else repr((str(n), str(s))) for n, s in lst)
    for kind, a in sc['actions']:
        if kind == 'install':
            out.append('install(%s)' % ', '.join('%s%d' % (t, i) for t, i in a))
            continue
        args = []
        if a['name'] is not None:
            args.append(repr(a['name']))
        if a['auto']:
            args.append('auto_fill=True')
        if a['version'] is not None:
            args.append('version=%r' % a['version'])
        for key, pre in (('includes', 'h'), ('libs', 'l'), ('libs_private', 'l')):
            if a[key] is not None:
                args.append('%s=%s' % (key, objs(pre, a[key])))
        for key, arg in (('options', 'options'), ('lopts', 'link_options'), ('lopts_private', 'link_options_private')):
            if a[key]:
                args.append('%s=%r' % (arg, a[key]))
        for key in ('requires', 'requires_private', 'conflicts'):
            if a[key] is not None:
                args.append('%s=%s' % (key, reqs(a[key])))
        out.append('pkg_config(%s)' % ', '.join(args))
    return '\n'.join(out) + '\n'


# ----------------------------------------------------------------------------- reference semantics (scenario only)
def uniq(l):
    out = []
    for i in l:
        if i not in out:
            out.append(i)
    return out


def ref_installed(sc):
    """ids of the installed headers / libraries after the whole script: arguments of install() and everything named in
    a pkg_config() call (those are installed by the call)"""
    hs, ls = [], []
    for kind, a in sc['actions']:
        if kind == 'install':
            hs += [i for t, i in a if t == 'h']
            ls += [i for t, i in a if t == 'l']
        else:
            hs += a['includes'] or []
            ls += (a['libs'] or []) + (a['libs_private'] or [])
    return uniq(hs), uniq(ls)


def ref_version(sc, p):
    v = p['version']
    if v is None and p['auto']:
        v = sc['pversion']
    return v or '0.0'


def ref_reach(sc, roots):
    """libraries reachable from roots through dependencies of static libraries"""
    seen, todo = [], list(roots)
    while todo:
        x = todo.pop(0)
        if x in seen:
            continue
        seen.append(x)
        if forwards(sc, x):
            todo += sc['libs'][x]['deps']
    return seen


def ref_pkg(sc, p):
    """what package p declares: name, version, include ids, public lib ids, private lib ids, option lists, requirements"""
    ih, il = ref_installed(sc)
    incs = uniq(p['includes']) if p['includes'] is not None else (ih if p['auto'] else [])
    libs = uniq(p['libs']) if p['libs'] is not None else (il if p['auto'] else [])
    lp = uniq(p['libs_private'] or [])
    reach = ref_reach(sc, libs + lp)
    priv = [x for x in reach if x not in libs]
    fwd = [o for x in reach if forwards(sc, x) for o in sc['libs'][x]['lopts']]
    pub_names = uniq([n for n, _ in p['requires'] or []])
    priv_names = [n for n in uniq([n for n, _ in p['requires_private'] or []]) if n not in pub_names]
    specs = {}
    for n, s in (p['requires'] or []) + (p['requires_private'] or []):
        specs.setdefault(n, [])
        specs[n] += [x for x in s.split(',') if x]
    return {'name': p['name'] if p['name'] is not None else sc['pname'], 'version': ref_version(sc, p), 'includes': incs,
            'libs': libs, 'libs_private': priv, 'options': list(p['options']), 'lopts': list(p['lopts']),
            'lopts_private': list(p['lopts_private']) + fwd, 'req_pub': pub_names, 'req_priv': priv_names, 'specs': specs}


def classify_pkg(p, what='any'):
    """finding classes of the options one package declares for one kind of query (cflags: options; libs: link options;
    static: link options and private link options)"""
    cls = set()
    opts = {'cflags': p['options'], 'libs': p['lopts'], 'static': p['lopts'] + p['lopts_private']}.get(
        what, p['options'] + p['lopts'] + p['lopts_private'])
    for o in opts:
        if '#' in o:
            cls.add('pc-option-hash')
        if '${' in o:
            cls.add('pc-option-dollar-brace')
    return tuple(sorted(cls))


# ----------------------------------------------------------------------------- W: in-process against Misc/PcInfo.v
class InProc:
    """One real Environment (compiler detection happens once); every scenario gets fresh BuildInputs / BuildContext and a
    fresh source and build tree at the same place."""

    def __init__(self, root):
        from bfg9000 import build as bmod
        from bfg9000.builtins import builtin
        from bfg9000.build_inputs import BuildInputs, Regenerating
        from bfg9000.environment import Environment
        from bfg9000.path import Path, Root, InstallRoot, abspath
        self.__dict__.update(locals())
        if '/venv/bin' not in os.environ.get('PATH', '').split(':'):
            os.environ['PATH'] = '/venv/bin:' + os.environ.get('PATH', '')
        bmod.builtin_init()
        self.src, self.build = os.path.join(root, 'src'), os.path.join(root, 'build')
        os.makedirs(self.src)
        os.makedirs(self.build)
        self.envs = {}

    def env_for(self, mode):
        """one real Environment per library mode"""
        mode = tuple(mode)
        if mode not in self.envs:
            env = self.Environment(self.Path('/venv/bin', self.Root.absolute), 'make', None, self.abspath(self.src),
                                   self.abspath(self.build))
            env.finalize({self.InstallRoot.prefix: self.Path('/opt/my prefix', self.Root.absolute)}, mode, False, [])
            self.envs[mode] = env
        return self.envs[mode]

    def run(self, sc):
        import warnings
        self.env = self.env_for(sc.get('mode', (True, False)))
        for d in (self.src, self.build):
            shutil.rmtree(d, ignore_errors=True)
            os.makedirs(d)
        project.write_tree(self.src, files_of(sc))
        bfgpath = self.Path('build.bfg', self.Root.srcdir)
        b = self.BuildInputs(self.env, bfgpath)
        ctx = self.builtin.BuildContext(self.env, b, None, self.Regenerating.false)
        cwd = os.getcwd()
        try:
            with warnings.catch_warnings():
                warnings.simplefilter('ignore')
                self.bmod.execute_file(ctx, bfgpath)
        finally:
            os.chdir(cwd)
        return b


def frag_of_path(p):
    from bfg9000.path import Root
    if p.root == Root.absolute:
        return [2, [], p.suffix]
    return [2, [p.root.name], p.suffix]


def observe_inproc(ip, sc, b):
    """-> (impl result in the shape of the decoded model result, model call argument)"""
    from bfg9000.file_types import HeaderFile, HeaderDirectory, Library, DualUseLibrary, PkgConfigPcFile
    hdr_by = {h['path']: h['id'] for h in sc['hdrs']}
    lib_by = {f: 3 * l['id'] + v for l in sc['libs'] for f, v in lib_files(sc, l)}
    inst = b['install']

    def hid(o):
        return hdr_by[o.path.suffix]

    def lid(o):
        """object identifier of a real library object (see obj_id)"""
        if isinstance(o, DualUseLibrary):
            return 3 * (lib_by[o.shared.path.suffix] // 3) + 2
        return lib_by[o.path.suffix]

    # the script's objects, found through the edges / install table
    objs_h, objs_l = {}, {}

    def note_lib(o, depth=0):
        if lid(o) in objs_l or depth > 40:
            return
        objs_l[lid(o)] = o
        for m in (o.all if isinstance(o, DualUseLibrary) else []):
            note_lib(m, depth + 1)
        fo = getattr(o, 'forward_opts', None)
        for m in (fo.libs if fo else []):
            note_lib(m, depth + 1)
    for o in list(inst.explicit) + list(inst) + [x for i in b['pkg_config'] for x in (i.includes or []) + (i.libs or []) + (i.libs_private or [])]:
        if isinstance(o, (HeaderFile, HeaderDirectory)):
            objs_h[hid(o)] = o
        elif isinstance(o, (Library, DualUseLibrary)):
            note_lib(o)
    dirs = {}

    def dir_id(p):
        key = json.dumps(frag_of_path(p))
        if key not in dirs:
            dirs[key] = len(dirs) + 1
        return dirs[key]

    def hdir(o):
        return o.path.parent() if isinstance(o, HeaderFile) else o.path
    hdr_rows, lib_rows = [], []
    for i, o in sorted(objs_h.items()):
        t = inst.target.get(o)
        hdr_rows.append([i, dir_id(hdir(t)) if t is not None else 0, dir_id(hdir(o))])
    for i, o in sorted(objs_l.items()):
        f = o.all[0]                   # of a dual-use library the writer takes the first (shared) file
        t = inst.target.get(f)
        lib_rows.append([i, os.path.basename(sc['libs'][i // 3]['name']), dir_id(t.path.parent()) if t is not None else 0,
                         dir_id(f.path.parent())])
    dir_rows = [[v, json.loads(k)] for k, v in dirs.items()]
    # the name rule itself: what the real linker reads off each library FILE the script created
    linker = ip.env.builder('c').linker('executable')
    lib_names = []
    for i, o in sorted(objs_l.items()):
        for f in o.all:
            try:
                got = linker._extract_lib_name(f)
            except ValueError:
                got = None
            if (f.path.basename(), got) not in lib_names:
                lib_names.append((f.path.basename(), got))

    def ids(f, v):
        return None if v is None else [f(o) for o in v]

    def var_section(lines):
        """the variables of a written file: the lines before the empty line, with the scratch locations of this run
        replaced by fixed names (the source directory is legitimately written; the build directory must not be)"""
        sec = []
        for ln in lines:
            if ln == '':
                break
            sec.append(ln + '\n')
        return ''.join(sec).replace(ip.build, '/BUILD').replace(ip.src, '/SRC')
    res = []
    varsecs = []
    for info in b['pkg_config']:
        fields = [info.name, info.version, ids(hid, info.includes), ids(lid, info.libs), ids(lid, info.libs_private)]
        try:
            d = info.finalize()
            texts = []
            for installed in (True, False):
                fn = os.path.join(ip.build, 'pkgconfig', d['name'] + ('' if installed else '-uninstalled') + '.pc')
                lines = open(fn, encoding='utf-8', errors='surrogateescape').read().split('\n')

                def field(name):
                    for ln in lines:
                        if ln.startswith(name + ': '):
                            return ln + '\n'
                    return ''
                texts.append([field('Cflags'), field('Libs'), field('Libs.private')])
                vs = (installed, var_section(lines))
                if vs not in varsecs:
                    varsecs.append(vs)
            data = [d['name'], d['version'], [hid(o) for o in d['includes']], [lid(o) for o in d['libs']],
                    [lid(o) for o in d['libs_private']], [str(o) for o in d['link_options_private']]] + texts
        except ValueError as e:
            data = 'ValueError'
        res.append([fields, data])
    explicit = []
    for o in inst.explicit:
        if isinstance(o, (HeaderFile, HeaderDirectory)):
            explicit.append([0, hid(o)])
        elif isinstance(o, (Library, DualUseLibrary)):
            explicit.append([1, lid(o)])
        elif not isinstance(o, PkgConfigPcFile):       # the written .pc files install themselves; not in the model
            explicit.append([2, 0])
    return res, explicit, (hdr_rows, lib_rows, dir_rows), varsecs, lib_names


def model_install_dirs(env):
    """the installed form's variables as the model is given them: [name, frag] per install root except bindir"""
    from bfg9000.path import InstallRoot
    return [[i.name, frag_of_path(env.install_dirs[i])] for i in InstallRoot if i != InstallRoot.bindir]


def pc_dir_depth():
    """levels of the directory of the .pc files below the build directory (PkgConfigWriter.directory = pkgconfig: one)"""
    from bfg9000.builtins.pkg_config import PkgConfigWriter
    return len([c for c in PkgConfigWriter.directory.suffix.split('/') if c and c != '.'])


def opt(v):
    return [] if v is None else [v]


def model_actions(sc):
    """libraries are named by the identifier of the object the script variable holds (obj_id)"""
    def objs(v):
        return None if v is None else [obj_id(sc, i) for i in v]
    acts = []
    for kind, a in sc['actions']:
        if kind == 'install':
            acts.append([0, [[{'h': 0, 'l': 1, 'x': 2}[t], obj_id(sc, i) if t == 'l' else i] for t, i in a]])
        else:
            acts.append([1, [a['auto'], opt(a['name']), opt(a['version']), opt(a['includes']), opt(objs(a['libs'])),
                             opt(objs(a['libs_private'])), a['options'], a['lopts'], a['lopts_private']]])
    return acts


def model_call(sc, rows, uw):
    hdr_rows, lib_rows, dir_rows = rows
    # forward_opts per object: a static library file and a dual-use object (DualUseLibrary.forward_opts is that of its
    # static half) hand on their libraries - each in the form a static link prefers - and their link options
    graph = []
    for l in sc['libs']:
        i, k = l['id'], lib_eff(sc, l['id'])
        fdeps = [static_pref(sc, j) for j in l['deps']]
        if k in ('shared', 'dual'):
            graph.append([3 * i, False, [], []])
        if k in ('static', 'dual'):
            graph.append([3 * i + 1, True, fdeps, l['lopts']])
        if k == 'dual':
            graph.append([3 * i + 2, True, fdeps, l['lopts']])
    return ('pcinfo.script', [sc['pname'], opt(sc['pversion']), model_actions(sc), graph, 3 * len(sc['libs']) + 2, hdr_rows,
                              lib_rows, dir_rows, uw])


def dec_script(name, r):
    d_str, d_opt, d_list = common.d_str, common.d_opt, common.d_list
    if name == 'opts.extract_lib_name':
        return d_opt(d_str, r)
    if name == 'pcinfo.explicit':
        return [list(x) for x in r]
    if name == 'pc.variables':
        return d_str(r)
    out = []
    for fields, fin in r:
        f = [d_opt(d_str, fields[0]), d_opt(d_str, fields[1])] + [d_opt(list, x) for x in fields[2:5]]
        if len(fin) == 0:
            data = 'fuel'
        elif len(fin[0]) == 0:
            data = 'ValueError'
        else:
            d = fin[0][0]
            data = [d_str(d[0]), d_str(d[1]), list(d[2]), list(d[3]), list(d[4]), d_list(d_str, d[5]),
                    d_list(d_str, d[6]), d_list(d_str, d[7])]
        out.append([f, data])
    return out


ALL_COMBOS = [(a, l, i) for a in (True, False) for l in ('none', 'empty', 'some') for i in ('none', 'empty', 'some')]


def deal_combos(rng, nproj, per):
    """every (auto_fill, libs, includes) combination occurs; auto_fill + an explicitly empty list in every project"""
    pool = []
    out = []
    for _ in range(nproj):
        c = []
        while len(c) < per:
            if not pool:
                pool = list(ALL_COMBOS)
                rng.shuffle(pool)
            c.append(pool.pop())
        must = rng.choice([(True, 'empty', 'none'), (True, 'none', 'empty'), (True, 'empty', 'empty'), (True, 'empty', 'some')])
        if not any(x[0] and 'empty' in x[1:] for x in c):
            c[rng.randrange(len(c))] = must
        if not any(x == (True, 'none', 'none') for x in c):
            c.append((True, 'none', 'none'))
        rng.shuffle(c)
        out.append(c)
    return out


def stage_w_pcinfo(rep, rng, n):
    uw, _ = gen.uni_tables()
    root = common.scratch('c17ip')
    calls, impl, scs = [], [], []
    try:
        ip = InProc(root)
        for k, combos in enumerate(deal_combos(rng, n, 4)):
            sc = gen_scenario(rng, combos, with_requires=False, rep=None, mode=LIB_MODES[k % len(LIB_MODES)])
            rep.count('pcinfo:mode=shared:%d,static:%d' % tuple(sc['mode']))
            for l in sc['libs']:
                rep.count('pcinfo:lib:%s(%s)' % (l['kind'], lib_eff(sc, l['id'])))
            try:
                res, explicit, rows, varsecs, lib_names = observe_inproc(ip, sc, ip.run(sc))
            except Exception as e:         # a changed tree may raise anywhere; the model then disagrees
                res, explicit, rows, varsecs, lib_names = 'raised %s: %s' % (type(e).__name__, e), None, ([], [], []), [], []
            # CcLinker._extract_lib_name on the files of this project against Misc/Options.v extract_lib_name (the
            # function C17_libname_* speak about)
            for base, got in lib_names:
                rep.count('pcinfo:lib-file-name:' + ('inner dot' if '.' in base[:base.rindex('.')] else 'plain'))
                calls.append(('opts.extract_lib_name', [base]))
                impl.append(got)
            for c in combos:
                rep.count('pcinfo:auto=%d,libs=%s,includes=%s' % (c[0], c[1], c[2]))
            rep.case('pcinfo:' + bfg_text(sc), True)
            calls.append(model_call(sc, rows, uw))
            impl.append(res)
            calls.append(('pcinfo.explicit', [model_actions(sc)]))
            impl.append(explicit)
            # the variables section of every written file (both forms): install roots as configured; srcdir verbatim and
            # builddir relative to ${pcfiledir} - the absolute build directory must not be written
            for installed, text in varsecs:
                rep.count('pcinfo:variables-section:%s' % ('installed' if installed else 'uninstalled'))
                if installed:
                    calls.append(('pc.variables', [uw, True, model_install_dirs(ip.env), '', 0]))
                else:
                    calls.append(('pc.variables', [uw, False, [], '/SRC', pc_dir_depth()]))
                impl.append(text)
            scs.append(sc)
    finally:
        shutil.rmtree(root, ignore_errors=True)
    rep.sample({'stage': 'W:pcinfo', 'build.bfg': bfg_text(scs[0]), 'impl': impl[0]})
    return common.compare_model(rep, 'W:pcinfo', calls, impl, dec_script, vm_limit=6)


# ----------------------------------------------------------------------------- system level
def parse_out(b):
    from . import c17
    return c17.parse_pkgconf_output(b)


def split_flags(words):
    """-> (include dirs, lib dirs, lib names, other options) as sorted lists of distinct items"""
    inc, ldir, lname, other = set(), set(), set(), set()
    for w in words:
        if w.startswith('-I') and len(w) > 2:
            inc.add(os.path.normpath(w[2:]))
        elif w.startswith('-L') and len(w) > 2:
            ldir.add(os.path.normpath(w[2:]))
        elif w.startswith('-l') and len(w) > 2:
            lname.add(w[2:])
        else:
            other.add(w)
    return sorted(inc), sorted(ldir), sorted(lname), sorted(other)


class SysProject:
    def __init__(self, sc, src, build, prefix, extdir):
        self.sc, self.src, self.build, self.prefix, self.extdir = sc, src, build, prefix, extdir
        self.refs = [ref_pkg(sc, p) for p in pkgs_of(sc)]
        self.by_name = {r['name']: r for r in self.refs}

    def env(self, installed, extdirs=None):
        e = {'PATH': '/usr/bin:/bin', 'PKG_CONFIG_PATH': ':'.join([os.path.join(self.build, 'pkgconfig')] + (extdirs or [self.extdir])),
             'PKG_CONFIG_LIBDIR': os.path.join(self.build, 'pkgconfig'), 'PKG_CONFIG_ALLOW_SYSTEM_CFLAGS': '1',
             'PKG_CONFIG_ALLOW_SYSTEM_LIBS': '1', 'LC_ALL': 'C.UTF-8'}
        if installed:
            e['PKG_CONFIG_DISABLE_UNINSTALLED'] = '1'
        return e

    def query(self, name, installed, args, extdirs=None):
        n = name if installed else name + '-uninstalled'
        p = subprocess.run(['/usr/bin/pkg-config'] + list(args) + [n], capture_output=True, env=self.env(installed, extdirs),
                           timeout=30)
        return p.returncode, p.stdout, p.stderr.decode('utf-8', 'replace')

    def pc_lines(self, name, installed):
        fn = os.path.join(self.build, 'pkgconfig', name + ('' if installed else '-uninstalled') + '.pc')
        try:
            return open(fn, encoding='utf-8', errors='surrogateescape').read().split('\n')
        except OSError:
            return []

    # where things are, per form
    def incdir(self, h, installed):
        h = self.sc['hdrs'][h]
        if installed:
            return os.path.normpath(os.path.join(self.prefix, 'include'))
        return os.path.normpath(os.path.join(self.src, os.path.dirname(h['path']) if h['kind'] == 'file' else h['path']))

    def libdir(self, l, installed):
        sub = os.path.dirname(self.sc['libs'][l]['name'])
        return os.path.normpath(os.path.join(os.path.join(self.prefix, 'lib') if installed else self.build, sub))

    def libname(self, l):
        return os.path.basename(self.sc['libs'][l]['name'])

    def version_of(self, name):
        if name in self.by_name:
            return self.by_name[name]['version']
        return STUBS.get(name)

    def classes(self, name, seen=None, what='any'):
        """finding classes of a package: of its own options and of those of every package it requires. The findings are about
        option texts in the Cflags / Libs fields, so with what = cflags | libs | static only the options that this query
        prints count (of the package and of the packages the query follows, as in expect())"""
        seen = set() if seen is None else seen
        if name in seen or name not in self.by_name:
            return ()
        seen.add(name)
        p = [q for q, r in zip(pkgs_of(self.sc), self.refs) if r['name'] == name][0]
        cls = set(classify_pkg(p, what))
        r = self.by_name[name]
        deps = r['specs'] if what == 'any' else r['req_pub'] + (r['req_priv'] if what in ('cflags', 'static') else [])
        for n in deps:
            cls |= set(self.classes(n, seen, what))
        return tuple(sorted(cls))

    def flag_query_classes(self, name, what, got, want):
        """classes of a failing flag query: the findings describe what pkg-config makes of an option text (a comment starts at
        '#', usually leaving an unbalanced quote so that the whole field reads as nothing; '${name}' inside the quotes is
        substituted) - the include directories, library directories and library names that ARE read must be declared ones,
        and with '${' alone they must all be there"""
        cls = self.classes(name, what=what)
        if not cls or got is None:
            return ()
        if any(set(g) - set(w) for g, w in zip(got[:3], want[:3])):
            return ()                     # a directory or library nobody declared: not what the findings describe
        if 'pc-option-hash' not in cls and tuple(got[:3]) != tuple(want[:3]):
            return ()
        return cls

    def resolvable(self, name, stack=()):
        """every requirement in the closure exists and accepts the version of its target"""
        if name in STUBS:
            return True
        r = self.by_name.get(name)
        if r is None or name in stack:
            return False
        for n, specs in r['specs'].items():
            v = self.version_of(n)
            if v is None or not spec_accepts(specs, v) or not self.resolvable(n, stack + (name,)):
                return False
        return True

    def own(self, r, installed, what):
        """(include dirs, lib dirs, lib names, other) the package itself declares for one query"""
        inc, ldir, lname, other = set(), set(), set(), set()
        if what == 'cflags':
            inc |= {self.incdir(h, installed) for h in r['includes']}
            other |= set(r['options'])
        else:
            ls = list(r['libs']) + (r['libs_private'] if what == 'static' else [])
            ldir |= {self.libdir(l, installed) for l in ls}
            lname |= {self.libname(l) for l in ls}
            other |= set(r['lopts']) | (set(r['lopts_private']) if what == 'static' else set())
        return inc, ldir, lname, other

    def expect(self, name, installed, what, seen=None):
        seen = set() if seen is None else seen
        if name in seen:
            return set(), set(), set(), set()
        seen.add(name)
        if name in STUBS:
            c, l = STUB_FLAGS[name]
            if what == 'cflags':
                return set(), set(), set(), {c}
            return set(), set(), {l[2:]}, set()
        r = self.by_name[name]
        acc = list(self.own(r, installed, what))
        deps = r['req_pub'] + (r['req_priv'] if what in ('cflags', 'static') else [])
        for n in deps:
            for k, s in enumerate(self.expect(n, installed, what, seen)):
                acc[k] |= s
        return tuple(acc)


REQ_LINE = re.compile(r'^(\S+)(?:\s+(=|!=|>=|<=|>|<)\s+(\S+))?$')


def check_requires(rep, P, r, p, installed, tag, replay, resolvable):
    """--print-requires / --print-requires-private: the names, and per name the same accepted versions as the declared
    conjunction (over the probe versions)"""
    from bfg9000.versioning import Specifier
    bad = 0
    for flag, field, names in (('--print-requires', 'Requires', r['req_pub']),
                               ('--print-requires-private', 'Requires.private', r['req_priv'])):
        if resolvable:
            rc, out, err = P.query(r['name'], installed, [flag])
            lines = out.decode('utf-8', 'replace').split('\n')
        else:
            # pkg-config refuses every query on a package with an unmet requirement: the entries are read from the file
            rc, err = 0, ''
            lines = [e for ln in P.pc_lines(r['name'], installed) if ln.startswith(field + ': ')
                     for e in ln[len(field) + 2:].split(', ')]
        got = {}
        for ln in lines:
            m = REQ_LINE.match(ln.strip())
            if ln.strip() and m:
                got.setdefault(m.group(1), [])
                if m.group(2):
                    got[m.group(1)].append(('==' if m.group(2) == '=' else m.group(2)) + m.group(3))
        msg = None
        if rc != 0:
            msg = '%s %s fails: %s' % (tag, flag, err[:300])
        elif sorted(got) != sorted(names):
            msg = '%s %s names %r, declared %r' % (tag, flag, sorted(got), sorted(names))
        else:
            for n in names:
                for x in PROBES:
                    a = all(x in Specifier(s) for s in got[n])
                    d = spec_accepts(r['specs'][n], x)
                    if a != d:
                        msg = '%s %s: requirement on %s is printed as %r, which %s version %s; the declared specifiers %r %s it' % (
                            tag, flag, n, got[n], 'accepts' if a else 'rejects', x, r['specs'][n], 'accept' if d else 'reject')
                        break
                if msg:
                    break
        if msg:
            bad += 1
            rep.fail(msg, dict(replay, query=flag), classes=())        # no finding is about the Requires fields
    return bad


def check_project(rep, P, thorough):
    """all packages of one configured project, both forms; returns the number of failures"""
    sc = P.sc
    bad = 0
    for p, r in zip(pkgs_of(sc), P.refs):
        for installed in (True, False):
            form = 'installed' if installed else 'uninstalled'
            tag = 'package %r [%s]' % (r['name'], form)
            replay = {'kind': 'system', 'scenario': sc, 'package': r['name'], 'form': form, 'build.bfg': bfg_text(sc)}
            rep.case('sys:%s:%s:%s' % (bfg_text(sc), r['name'], form), True)
            rep.count('sys:auto=%d,libs=%s,includes=%s' % (p['auto'], 'none' if p['libs'] is None else ('some' if p['libs'] else 'empty'),
                                                              'none' if p['includes'] is None else ('some' if p['includes'] else 'empty')))
            ok = P.resolvable(r['name'])
            if ok:
                rc, out, err = P.query(r['name'], installed, ['--modversion'])
                got = out.decode('utf-8', 'replace').strip()
            else:
                rc, err = 0, ''
                got = ''.join(ln[len('Version: '):] for ln in P.pc_lines(r['name'], installed) if ln.startswith('Version: '))
            if rc != 0 or got != r['version']:
                bad += 1
                rep.fail('%s --modversion gives %r (rc %d %s), declared %r' % (tag, got, rc, err[:200], r['version']),
                         dict(replay, query='--modversion'), classes=())
            bad += check_requires(rep, P, r, p, installed, tag, replay, ok)
            rc, out, err = P.query(r['name'], installed, ['--exists', '--print-errors'])
            rep.count('sys:resolvable=%d' % ok)
            if (rc == 0) != ok:
                bad += 1
                rep.fail('%s --exists %s although the declared requirements %s by the versions present (%s)' % (
                    tag, 'succeeds' if rc == 0 else 'fails', 'are met' if ok else 'are not met', err[:300]),
                    dict(replay, query='--exists'), classes=())
            if not ok:
                continue
            bad += check_flags(rep, P, r, installed, tag, replay)
    return bad


def check_flags(rep, P, r, installed, tag, replay, old_build=None, built=False):
    """--cflags / --libs / --libs --static of one package in one form against what the scenario declares, with the
    directories where P says they are now.  old_build: where the build directory was at configure time when it has been
    moved since (no word may still name it); built: the project has been built, so every -I / -L directory of the
    -uninstalled form must exist."""
    bad = 0
    for what, args in (('cflags', ['--cflags']), ('libs', ['--libs']), ('static', ['--libs', '--static'])):
        rc, out, err = P.query(r['name'], installed, args)
        words = parse_out(out) if rc == 0 else None
        got = split_flags(words) if words is not None else None
        want = tuple(sorted(s) for s in P.expect(r['name'], installed, what))
        stale = [w for w in (words or []) if old_build is not None and old_build in w]
        gone = [d for d in ((got[0] + got[1]) if (got is not None and built and not installed) else []) if not os.path.isdir(d)]
        if got is None or tuple(got) != want or stale or gone:
            bad += 1
            diff = []
            if got is not None:
                for label, g, w in zip(('include dirs', 'library dirs', 'libraries', 'other options'), got, want):
                    if g != w:
                        diff.append('%s: undeclared %r, missing %r' % (label, sorted(set(g) - set(w)), sorted(set(w) - set(g))))
            if stale:
                diff.append('%r name(s) the place the build directory was configured at (%s), it is at %s now' % (stale, old_build, P.build))
            if gone:
                diff.append('after the build, %r are not directories' % (gone,))
            rep.fail('%s: pkg-config %s gives %s; declared: include dirs %r, library dirs %r, libraries %r, options %r%s' % (
                tag, ' '.join(args), 'rc %d %s' % (rc, err[:200]) if got is None else '; '.join(diff), want[0], want[1],
                want[2], want[3], ''),
                dict(replay, query=' '.join(args), got=got, declared=[list(w) for w in want]),
                classes=() if (stale or gone) else
                (BLANK_CLASS,) if blank_build_signature(P, installed, got, want) else
                P.flag_query_classes(r['name'], what, got, want))
    return bad


BLANK_CLASS = 'pc-builddir-blank'


def blank_build_signature(P, installed, got, want):
    """Finding pc-builddir-blank: the build directory is at a path with a blank and the -uninstalled form is read (input
    predicate), AND what pkg-config gives is exactly the declared flags with a backslash put before every blank of the
    build directory in the -I / -L directories below it (failure signature: pkgconf keeps pcfiledir with its blanks
    escaped, and the written '${builddir}/...' stands in single quotes, where the backslash is literal).  Libraries, options
    and directories elsewhere must be as declared; anything else read at such a place is a different violation."""
    if installed or got is None or ' ' not in P.build:
        return False
    esc = P.build.replace(' ', '\\ ')

    def tr(d):
        return esc + d[len(P.build):] if (d == P.build or d.startswith(P.build + '/')) else d
    pred = [sorted(tr(d) for d in want[0]), sorted(tr(d) for d in want[1]), list(want[2]), list(want[3])]
    return [list(g) for g in got] == pred and pred != [list(w) for w in want]


def moved_history(rep, P, new_build, built):
    """History: the build directory is renamed to a sibling path after configure (and, for a built project, after make) with
    no regeneration in between; pkg-config then reads BUILD/pkgconfig at the NEW place.  The -uninstalled form must keep
    describing the build tree: every directory that was inside the build directory is named below the new place (and
    exists there once built), nothing names the old place, directories of the source tree stay; the installed form is
    unaffected; a consumer still compiles, links and runs.  Returns (#failures, the project at its new place)."""
    old = P.build
    os.rename(old, new_build)
    P2 = SysProject(P.sc, P.src, new_build, P.prefix, P.extdir)
    bad = 0
    for p, r in zip(pkgs_of(P.sc), P2.refs):
        if not P2.resolvable(r['name']):
            continue
        for installed in (False, True):
            form = 'installed' if installed else 'uninstalled'
            tag = 'package %r [%s, build directory moved after %s]' % (r['name'], form, 'make' if built else 'configure')
            replay = {'kind': 'system', 'scenario': P.sc, 'package': r['name'], 'form': form, 'build.bfg': bfg_text(P.sc),
                      'history': 'build directory renamed to a sibling path after %s, PKG_CONFIG_PATH at the new place'
                                 % ('make' if built else 'configure')}
            rep.case('sys:%s:%s:%s:moved' % (bfg_text(P.sc), r['name'], form), True)
            rep.count('sys:moved-build-dir:%s%s' % (form, ':built' if built else ''))
            bad += check_flags(rep, P2, r, installed, tag, replay, old_build=old, built=built)
    return bad, P2


def stub_files(versions=None):
    versions = versions or STUBS
    out = {}
    for n, v in versions.items():
        c, l = STUB_FLAGS[n]
        out[n + '.pc'] = 'Name: %s\nDescription: stub\nVersion: %s\nCflags: %s\nLibs: %s\n' % (n, v, c, l)
    return out


def consumer(rep, P, history=None):
    """after a real make, compile + link + run a program against an uninstalled package: with the flags of
    `--libs --static` as they are, and - when every library in the declared closure has a static form - with the
    libraries forced to their archives (-Wl,-Bstatic), so that every private dependency is really needed.
    history: what happened to the build tree since make (e.g. it was moved), for the messages and the replay file"""
    sc = P.sc
    hist = ' (%s)' % history if history else ''
    cands = [(p, r) for p, r in zip(pkgs_of(sc), P.refs) if P.resolvable(r['name']) and (r['includes'] or r['libs'])
             and not P.classes(r['name'])]
    bad = 0
    for p, r in cands[:2]:
        # only what the package itself declares is used by the program
        code = ''.join('#include "%s"\n' % (os.path.basename(sc['hdrs'][h]['path']) if sc['hdrs'][h]['kind'] == 'file' else 'h%d.h' % h)
                       for h in r['includes'])
        code += ''.join('int f_%d(void);\n' % l for l in r['libs'])
        code += 'int main(void) {\n'
        for h in r['includes']:
            code += '  if (%s != %d) return 10;\n' % (hdr_macro(sc['hdrs'][h]), h + 1)
        for l in r['libs']:
            code += '  if (f_%d() != %d) return 20;\n' % (l, lib_value(sc, l))
        code += '  return 0;\n}\n'
        d = os.path.join(os.path.dirname(P.build), 'consumer')
        os.makedirs(d, exist_ok=True)
        open(os.path.join(d, 'main.c'), 'w').write(code)
        rc, out, err = P.query(r['name'], False, ['--cflags', '--libs', '--static'])
        flags = parse_out(out)
        # options of the package that only exercise quoting are not meant for a real compile of this program
        flags = [f for f in flags if not f.startswith('-D') and f not in ('-Wall',) and f not in [x[1] for x in STUB_FLAGS.values()]]
        c = subprocess.run(['gcc', 'main.c', '-o', 'main'] + flags, cwd=d, capture_output=True, text=True, timeout=120)
        replay = {'kind': 'system', 'scenario': sc, 'package': r['name'], 'form': 'uninstalled', 'build.bfg': bfg_text(sc),
                  'query': 'consumer', 'flags': flags, 'main.c': code}
        if history:
            replay['history'] = history
        rep.count('sys:consumer' + (':moved' if history else ''))
        if c.returncode != 0:
            bad += 1
            rep.fail('a consumer of package %r [uninstalled]%s does not build with %r: %s' % (r['name'], hist, flags, c.stderr[-600:]),
                     replay, classes=P.classes(r['name']))
            continue
        # what the program is bound to: the shared object of every library of the package that has one (each f_<l> is
        # called), and nothing of the project outside the declared closure - a library that merely has a similar name
        # (lib<short>.so next to lib<short>.<infix>.so) must not have been picked up
        pn = subprocess.run(['patchelf', '--print-needed', 'main'], cwd=d, capture_output=True, text=True, timeout=60)
        needed = pn.stdout.split()
        def so(l):
            return 'lib%s.so' % os.path.basename(sc['libs'][l]['name'])
        must = {so(l) for l in r['libs'] if lib_eff(sc, l) in ('shared', 'dual')}
        may = must | {so(l) for l in r['libs_private'] if lib_eff(sc, l) in ('shared', 'dual')}
        ours = {so(l['id']) for l in sc['libs']}
        rep.count('sys:consumer-needed-read' + (':moved' if history else ''))
        if pn.returncode != 0 or not must <= set(needed) or (set(needed) & ours) - may:
            bad += 1
            rep.fail('a consumer of package %r [uninstalled]%s is bound to %r; the shared libraries the package declares are %r '
                     '(private: %r), flags %r' % (r['name'], hist, needed, sorted(must), sorted(may - must), flags),
                     dict(replay, query='consumer-needed', needed=needed), classes=P.classes(r['name']))
        ldp = ':'.join(sorted({P.libdir(l['id'], False) for l in sc['libs']}))
        x = subprocess.run(['./main'], cwd=d, capture_output=True, timeout=60, env={'LD_LIBRARY_PATH': ldp, 'PATH': '/usr/bin:/bin'})
        if x.returncode != 0:
            bad += 1
            rep.fail('a consumer of package %r [uninstalled]%s builds but exits with %d' % (r['name'], hist, x.returncode), replay,
                     classes=P.classes(r['name']))
        if all(forwards(sc, l) for l in r['libs'] + r['libs_private']) and r['libs']:
            # static consumer: the archives of the package and of everything they need, nothing from shared objects
            rep.count('sys:consumer-static' + (':moved' if history else ''))
            lflags = [f for f in flags if f.startswith(('-L', '-l'))]
            rest = [f for f in flags if f not in lflags]
            c = subprocess.run(['gcc', 'main.c', '-o', 'main-static'] + rest + ['-Wl,-Bstatic'] + lflags + ['-Wl,-Bdynamic'],
                               cwd=d, capture_output=True, text=True, timeout=120)
            x = subprocess.run(['./main-static'], cwd=d, capture_output=True, timeout=60, env={'PATH': '/usr/bin:/bin'}) \
                if c.returncode == 0 else None
            if c.returncode != 0 or x.returncode != 0:
                bad += 1
                rep.fail('a static consumer of package %r [uninstalled]%s (libraries taken from their archives) %s with the flags '
                         'of --libs --static %r: %s' % (r['name'], hist, 'does not link' if c.returncode else 'exits with %d' % x.returncode,
                                                        flags, c.stderr[-600:]),
                         dict(replay, query='consumer-static'), classes=P.classes(r['name']))
    return bad


def run_project(rep, sc, thorough, prefix, expect_fail=None):
    """configure (and check) one scenario; returns (#failures, configured ok)"""
    with project.Scratch('c17sys') as s:
        ext = os.path.join(s.root, 'ext')
        os.makedirs(ext)
        project.write_tree(ext, stub_files())
        project.write_tree(s.src, files_of(sc))
        mode = tuple(sc.get('mode', (True, False)))
        margs = ['--enable-shared' if mode[0] else '--disable-shared', '--enable-static' if mode[1] else '--disable-static']
        rc, out = project.configure(s.src, s.build, extra_args=['--prefix=' + prefix] + margs, extra_env={'PKG_CONFIG_PATH': ext})
        rep.traces += 1
        replay = {'kind': 'system', 'scenario': sc, 'build.bfg': bfg_text(sc), 'prefix': prefix}
        if expect_fail is not None:
            if expect_fail and rc == 0:
                rep.fail('configure accepts a pkg_config() whose requirement on one package is unsatisfiable:\n%s' % bfg_text(sc),
                         dict(replay, query='configure'), classes=())
                return 1, True
            return 0, rc == 0
        if rc != 0:
            rep.fail('configure fails on a project whose pkg_config() declarations are consistent:\n%s\n%s' % (bfg_text(sc), out[-800:]),
                     dict(replay, query='configure'), classes=())      # the option findings do not make configure fail
            return 1, False
        P = SysProject(sc, s.src, s.build, prefix, ext)
        bad = check_project(rep, P, thorough)
        if sc['buildable']:
            rc, _, out = project.make(s.build, stub_tools=False, timeout=600)
            if rc != 0:
                rep.fail('make fails on a generated pkg_config project:\n%s\n%s' % (bfg_text(sc), out[-800:]), dict(replay, query='make'),
                         classes=())
                return bad + 1, True
            bad += consumer(rep, P)
        # history: the build directory is moved (no regeneration), the -uninstalled files are read at the new place
        # (a third of the projects that are not built go to a place with a blank in its name: finding pc-builddir-blank)
        import zlib
        blank = (not sc['buildable'] and not any(classify_pkg(p) for p in pkgs_of(sc))
                 and zlib.crc32(bfg_text(sc).encode('utf-8', 'surrogateescape')) % 3 == 0)
        rep.count('sys:moved-to:%s' % ('path-with-blank' if blank else 'plain-path'))
        b, P2 = moved_history(rep, P, os.path.join(s.root, 'relocated tree' if blank else 'relocated'), sc['buildable'])
        bad += b
        if sc['buildable']:
            bad += consumer(rep, P2, history='build directory renamed to a sibling path after make')
        return bad, True


def reject_scenarios(rng):
    """one package whose merged requirement on a stub has no member (must be rejected at configure time)"""
    out = []
    for auto in (True, False):
        t = rng.choice(list(STUBS))
        a, b = sorted(rng.sample(VPOOL, 2), key=_ver())
        specs = rng.choice([['>' + b, '<' + a], ['>=' + b, '<=' + a], ['==' + a, '==' + b], ['==' + a, '!=' + a], ['>' + a, '<' + a],
                            ['>=' + b, '<' + b], ['==' + a, '>' + a]])
        sc = gen_scenario(rng, [(auto, 'some', 'some')], with_requires=False)
        p = pkgs_of(sc)[0]
        if p['name'] is None:
            p['name'] = 'rej'
        if rng.random() < 0.5:
            p['requires'], p['requires_private'] = [(t, specs[0])], [(t, specs[1])]
        else:
            p['requires'] = [(t, ','.join(specs))]
        out.append(sc)
    return out


def stage_system(rep, rng, thorough, widen=1):
    nproj = (24 if thorough else 9) * widen
    bad = 0
    combos = deal_combos(rng, nproj, 5 if thorough else 4)
    for k, c in enumerate(combos):
        # thorough: every fourth project is built for real and consumed; quick: one
        buildable = k % 4 == 0 if thorough else k == 1
        # the library modes are dealt out in turn: each occurs in every run
        sc = gen_scenario(rng, c, buildable=buildable, findings=thorough and k % 6 == 5, rep=rep, mode=LIB_MODES[k % len(LIB_MODES)])
        rep.count('sys:mode=shared:%d,static:%d' % tuple(sc['mode']))
        prefix = '/opt/my prefix' if (thorough or k % 2 == 0) else '/opt/c17pre'
        b, _ = run_project(rep, sc, thorough, prefix)
        bad += b
    rej = reject_scenarios(rng) if thorough else reject_scenarios(rng)[:1]
    for sc in rej:
        b, _ = run_project(rep, sc, thorough, '/opt/c17pre', expect_fail=True)
        bad += b
    rep.stage('oracle:system', projects=nproj, reject_projects=len(rej), failures=bad)
    return bad


def replay_system(rep, r):
    sc = r['scenario']
    bad, _ = run_project(rep, sc, rep.tier == 'thorough', r.get('prefix', '/opt/my prefix'),
                         expect_fail=True if r.get('query') == 'configure' and 'unsatisfiable' in json.dumps(r) else None)
    return bad
